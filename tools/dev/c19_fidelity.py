#!/usr/bin/env python3
"""tools/dev/c19_fidelity.py : test of the C19 interpreter (Model/UriParserSem.v) itself.

Run with VERIF_REPO pointing at a scratch copy of the repository whose ChannelUri::parse / Display::fmt were *changed* in a way
the translator still understands. The `p` / `pv` cases of the quick tier are evaluated on the implementation and on
`gparse_obs gen_parser gen_display` (the interpreter on the trees translated from that changed source): they must agree on
every case, although the hand-written model (and the proof C19_k1_parser) no longer fits. Prints the counts."""
import collections, os, random, sys
sys.path.insert(0, os.path.join(os.path.dirname(os.path.abspath(__file__)), '..'))
os.environ['C19_MODEL'] = 'generated'
from vlib import core, runner
from props import c19 as mod

run = runner.Run(mod, 'quick', 20260925)
run.build()
cases = [c for c in mod.generate(random.Random(20260925), 'quick') if c['kind'] in ('p', 'pv')]
impl, model, verdict, dis, fails = run.evaluate(cases, '_fidelity')
print('repo=%s parse cases=%d  interpreter(translated trees) vs implementation: %d differ;  oracle fails on %d;  K1/proof broken: %s' % (
    core.REPO, len(cases), len(dis), len(fails), bool(run.broken)))
for i, m in dis[:5]:
    print('  differ:', cases[i], impl[m][i], model[m][i])
