#!/bin/bash
# tools/dev/goal.sh Proofs/X.v LINE : show the proof state before LINE (scratch copy, nothing written to the tree)
f=$1; n=$2
head -n $((n-1)) coq/$f > /tmp/logpub_goal.v
echo "Show. " >> /tmp/logpub_goal.v
cd /tmp && timeout 300 coqc -Q /work/logpub/coq V logpub_goal.v 2>&1 | tail -${3:-60}
