#!/usr/bin/env python3
"""dev helper: tools/dev/k2.py C04 [n] [filter] - run generated cases, print categories of disagreements"""
import sys, os, random, time, json, importlib, collections
sys.path.insert(0, os.path.join(os.path.dirname(os.path.abspath(__file__)), '..'))
from vlib import runner, core, term
prop = sys.argv[1]
n = int(sys.argv[2]) if len(sys.argv) > 2 else 100
flt = sys.argv[3] if len(sys.argv) > 3 else ''
mod = importlib.import_module('props.' + prop.lower())
run = runner.Run(mod, 'quick', 1)
run.eval_ok = True
if os.environ.get('BUILD'):
    run.build()
rng = random.Random(int(os.environ.get('SEED', '5')))
cases = mod.generate(rng, 'quick')
if flt:
    cases = [c for c in cases if eval(flt, {}, {'c': c})]
cases = cases[:n]
t0 = time.time()
impl = run.run_impl(cases); t1 = time.time()
model = run.run_model(cases); t2 = time.time()
verdict = run.run_oracle(cases, impl); t3 = time.time()
print('impl %.1fs model %.1fs oracle %.1fs' % (t1 - t0, t2 - t1, t3 - t2))
bad = 0
for mode in mod.MODES:
    for i, c in enumerate(cases):
        dis = model[mode][i] is not None and model[mode][i] != impl[mode][i]
        fail = verdict[mode][i] is False
        if dis or fail:
            bad += 1
            if bad <= int(os.environ.get('SHOW', '3')):
                print('---', mode, 'disagree' if dis else '', 'ORACLE-FAIL' if fail else '')
                print(mod.impl_line(c))
                a, b = impl[mode][i], model[mode][i]
                if b is not None and not isinstance(a, int) and a[0] == 'list' and b[0] == 'list':
                    for j, (x, y) in enumerate(zip(a[1], b[1])):
                        if x != y:
                            print(' first diff at op', j, c['ops'][j] if 'ops' in c else '')
                            print('  impl :', term.show(x)[:1500])
                            print('  model:', term.show(y)[:1500])
                            break
                    else:
                        print(' same prefix; lens', len(a[1]), len(b[1]))
                else:
                    print('  impl :', term.show(a)[:600])
                    print('  model:', term.show(b)[:600] if b is not None else None)
print('cases', len(cases), 'bad', bad)
