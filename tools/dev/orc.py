#!/usr/bin/env python3
"""tools/dev/orc.py C04 '<harness line>' : run the harness on one history and print the oracle verdict per operation"""
import sys, os, importlib, subprocess
sys.path.insert(0, os.path.join(os.path.dirname(os.path.abspath(__file__)), '..'))
from vlib import core, term
prop, line = sys.argv[1], sys.argv[2]
mod = importlib.import_module('props.' + prop.lower())
mode = os.environ.get('MODE', 'debug')
out = core.harness_run(mod.CRATES[0], [line], release=(mode == 'release'))[0]
obs = term.parse(out)
head, ops = line.split('|')
h = head.split()
pub, g = h[1], [int(v) for v in h[2:]]
ops = [[o.split()[0]] + [int(v) for v in o.split()[1:]] for o in ops.split(';') if o.strip()]
exprs = []
geom = 'mkGeom %s (11) (22)' % ' '.join('(%d)' % v for v in g)
for i in range(len(ops)):
    oo = '; '.join(mod.oop_coq(o, pub) for o in ops[:i + 1])
    ob = term.to_coq(('list', obs[1][:i + 1]))
    exprs.append('holds_history (%s) [%s] %s' % (geom, oo, ob))
vals = core.coq_eval('dev_orc', mod.IMPORTS, exprs)
for i, v in enumerate(vals):
    print(i, ops[i], term.show(v), term.show(obs[1][i])[:300])
