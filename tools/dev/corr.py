"""dev helper: tools/dev/corr.py cXX [n] [mode] : harness vs model on generated cases, print first disagreements"""
import sys, os, random, importlib, json, time
sys.path.insert(0, os.path.join(os.path.dirname(os.path.abspath(__file__)), '..'))
from vlib import core, term
mod = importlib.import_module('props.' + sys.argv[1])
n = int(sys.argv[2]) if len(sys.argv) > 2 else 500
mode = sys.argv[3] if len(sys.argv) > 3 else 'debug'
with_oracle = len(sys.argv) > 4
rng = random.Random(int(os.environ.get('SEED', '1')))
core.prepare_workspace()
core.harness_build(list(mod.CRATES), release=(mode == "release"))
core.coq_build([f[:-2] + ".vo" for f in mod.EVAL_FILES])
cases = mod.generate(rng, "quick")[:n]
t = time.time()
lines = [mod.impl_line(c) for c in cases]
out = core.harness_run(mod.CRATES[0] if 'crate' not in cases[0] else cases[0]['crate'], lines, release=(mode == 'release'), per_case_timeout=5.0)
print('impl %.1fs' % (time.time() - t)); t = time.time()
impl = [term.parse(o) for o in out]
exprs = [mod.model_expr(c, mode) for c in cases]
idx = [i for i, e in enumerate(exprs) if e is not None]
vals = core.coq_eval('dev_model', mod.IMPORTS, [exprs[i] for i in idx])
print('model %.1fs' % (time.time() - t)); t = time.time()
bad = 0
for i, v in zip(idx, vals):
    if v != impl[i]:
        bad += 1
        if bad <= 3:
            print('DIFF', json.dumps(cases[i]))
            print(' line ', lines[i])
            print(' impl ', term.show(impl[i]))
            print(' model', term.show(v))
print('cases', len(cases), 'disagreements', bad)
if with_oracle:
    ex = [mod.oracle_expr(c, mode, o) for c, o in zip(cases, impl)]
    idx = [i for i, e in enumerate(ex) if e is not None]
    vals = core.coq_eval('dev_oracle', mod.IMPORTS, [ex[i] for i in idx])
    print('oracle %.1fs' % (time.time() - t))
    f = 0
    for i, v in zip(idx, vals):
        if v != ('app', 'true', []):
            f += 1
            if f <= 3:
                print('ORACLE-FALSE', json.dumps(cases[i]))
                print(' line ', lines[i])
                print(' impl ', term.show(impl[i]))
    print('oracle failures', f)
