"""Orchestration shared by every property check.

Decision protocol of one check (DESIGN.md section 2.3):
  1. regenerate coq/Generated/*.v from the repository (tools/translate.py + compiled constants),
     build the Coq files the property rests on, check Print Assumptions and hygiene   (proof obligation)
  2. build the Rust harness against the repository's working tree (hooks on)
  3. run implementation and model on the same cases, compare                          (correspondence)
  4. evaluate the property's oracle (the predicate of the theorem) on the implementation's observations
  5. verdict: VIOLATION with a concrete replay, VIOLATION ... no-failing-input-found, KNOWN-FINDING, or pass
  6. write evidence/<id>.json
"""
import concurrent.futures as cf
import fcntl
import hashlib
import json
import os
import random
import re
import shutil
import subprocess
import sys
import time

from . import term

ROOT = os.path.dirname(os.path.dirname(os.path.dirname(os.path.abspath(__file__))))
REPO = os.path.abspath(os.environ.get('VERIF_REPO', '/repo'))
GUARD = 'unitedtraders_aeron_rs_verif'
NCPU = os.cpu_count() or 4

if REPO == '/repo':
    WS = ROOT
else:
    WS = os.path.join(ROOT, 'build', 'alt', hashlib.sha1(REPO.encode()).hexdigest()[:10])
BUILD = os.path.join(WS, 'build') if WS == ROOT else WS
COQ = os.path.join(WS, 'coq')
HARNESS = os.path.join(WS, 'harness')
CARGO_TARGET = os.path.join(BUILD, 'cargo')

ALLOWED_AXIOMS = {
    # standard-library axioms that may appear (each is named in the trusted base when it does)
    'functional_extensionality_dep', 'FunctionalExtensionality.functional_extensionality_dep',
    'proof_irrelevance', 'ProofIrrelevance.proof_irrelevance', 'classic', 'Classical_Prop.classic',
    'JMeq_eq', 'JMeq.JMeq_eq', 'Eqdep.Eq_rect_eq.eq_rect_eq', 'eq_rect_eq',
}

FORBIDDEN = re.compile(r'\b(Admitted|admit|Axiom|Axioms|Parameter|Parameters|Conjecture|Abort All|'
                       r'Unset Guard Checking|Unset Positivity Checking|Unset Universe Checking|bypass_check|'
                       r'Admit Obligations|type-in-type|impredicative-set)\b')


class MachineryError(Exception):
    pass


def log(*a):
    print(*a, file=sys.stderr, flush=True)


def sh(cmd, cwd=None, timeout=None, env=None, input=None):
    e = dict(os.environ)
    e['CARGO_NET_OFFLINE'] = 'true'
    if env:
        e.update(env)
    try:
        p = subprocess.run(cmd, cwd=cwd, timeout=timeout, env=e, input=input, stdout=subprocess.PIPE,
                           stderr=subprocess.STDOUT, text=True, shell=isinstance(cmd, str))
        return p.returncode, p.stdout
    except subprocess.TimeoutExpired as ex:
        out = ex.stdout
        if isinstance(out, bytes):
            out = out.decode(errors='replace')
        return 124, (out or '') + '\n[timeout]'


class _Lock:
    def __init__(self, name):
        os.makedirs(BUILD, exist_ok=True)
        self.path = os.path.join(BUILD, name + '.lock')

    def __enter__(self):
        self.f = open(self.path, 'w')
        fcntl.flock(self.f, fcntl.LOCK_EX)

    def __exit__(self, *a):
        fcntl.flock(self.f, fcntl.LOCK_UN)
        self.f.close()


def write_if_changed(path, content):
    try:
        if open(path).read() == content:
            return False
    except FileNotFoundError:
        pass
    os.makedirs(os.path.dirname(path), exist_ok=True)
    tmp = path + '.tmp%d' % os.getpid()
    with open(tmp, 'w') as f:
        f.write(content)
    os.replace(tmp, path)
    return True


# ----------------------------------------------------------------------------
# workspace (only differs from /verif when VERIF_REPO points at a scratch worktree)

def prepare_workspace():
    if WS == ROOT:
        return
    os.makedirs(WS, exist_ok=True)
    with _Lock('ws'):
        # compiled files are copied too (same mtimes): only what depends on a regenerated table is rebuilt there
        sh(['rsync', '-a', '--delete', '--exclude', 'Makefile*', '--exclude', '.Makefile*',
            '--exclude', '.lia.cache', '--exclude', '.nia.cache',
            os.path.join(ROOT, 'coq') + '/', COQ + '/'])
        sh(['rsync', '-a', '--delete', '--exclude', 'Cargo.lock', os.path.join(ROOT, 'harness') + '/', HARNESS + '/'])
        for d in os.listdir(HARNESS):
            p = os.path.join(HARNESS, d, 'Cargo.toml')
            if os.path.exists(p):
                s = open(p).read().replace('path = "/repo"', 'path = "%s"' % REPO)
                write_if_changed(p, s)


# ----------------------------------------------------------------------------
# Rust harness

def harness_build(crates, release=False):
    """Build harness crates against REPO's working tree with the hook guard on.
    Every crate under harness/ is its own workspace (own Cargo.lock copied from the repository),
    all sharing one target directory so aeron-rs itself is compiled once per profile."""
    lock_src = os.path.join(REPO, 'Cargo.lock')
    if not os.path.exists(lock_src):          # Cargo.lock is not tracked: scratch worktrees have none
        lock_src = '/repo/Cargo.lock'
    env = {'CARGO_TARGET_DIR': CARGO_TARGET, 'RUSTFLAGS': '--cfg %s -Awarnings' % GUARD}
    with _Lock('cargo'):
        for c in crates:
            cdir = os.path.join(HARNESS, c)
            lock_dst = os.path.join(cdir, 'Cargo.lock')
            if not os.path.exists(lock_dst):
                shutil.copy(lock_src, lock_dst)
            cmd = ['cargo', 'build', '--offline', '--quiet']
            if release:
                cmd.append('--release')
            t0 = time.time()
            rc, out = sh(cmd, cwd=cdir, timeout=1800, env=env)
            if rc != 0 and ('Cargo.lock' in out or 'lock file' in out):
                shutil.copy(lock_src, lock_dst)
                rc, out = sh(cmd, cwd=cdir, timeout=1800, env=env)
            if rc != 0:
                raise MachineryError('harness build failed (%s in %s):\n%s' % (' '.join(cmd), cdir, out[-6000:]))
            log('[harness] built %s (%s) in %.1fs' % (c, 'release' if release else 'debug', time.time() - t0))


def harness_bin(crate, release=False):
    return os.path.join(CARGO_TARGET, 'release' if release else 'debug', crate)


def _run_chunk(binpath, lines, per_case_timeout, extra_args, env):
    """Run one child process over `lines`; a crash or hang yields Crash/Hang for the offending
    case and the rest of the chunk is run in a fresh process."""
    results = []
    i = 0
    while i < len(lines):
        rest = lines[i:]
        budget = max(10.0, per_case_timeout * len(rest))
        e = dict(os.environ)
        if env:
            e.update(env)
        try:
            p = subprocess.run([binpath] + list(extra_args), input='\n'.join(rest) + '\n', stdout=subprocess.PIPE,
                               stderr=subprocess.PIPE, text=True, timeout=budget, env=e)
            out = p.stdout.split('\n')
            if out and out[-1] == '':
                out.pop()
            rc = p.returncode
            hung = False
            err = p.stderr
        except subprocess.TimeoutExpired as ex:
            o = ex.stdout or b''
            if isinstance(o, bytes):
                o = o.decode(errors='replace')
            out = o.split('\n')
            if out and out[-1] == '':
                out.pop()
            if o and not o.endswith('\n') and out:
                out.pop()  # partial line
            rc = None
            hung = True
            err = ''
        results.extend(out[:len(rest)])
        done = len(out)
        if done >= len(rest) and not hung and rc == 0:
            break
        if done >= len(rest):
            break
        # case number `done` of `rest` did not answer
        if hung:
            results.append('Hang')
        else:
            results.append('Crash')
            if err and 'unknown case kind' in err or 'bad int' in (err or ''):
                raise MachineryError('harness rejected input %r: %s' % (rest[done], err[-500:]))
        i += done + 1
    return results


def harness_run(crate, lines, release=False, per_case_timeout=2.0, chunk=None, extra_args=(), env=None, jobs=None):
    binpath = harness_bin(crate, release)
    if not lines:
        return []
    jobs = jobs or NCPU
    if chunk is None:
        chunk = max(1, min(500, (len(lines) + jobs - 1) // jobs))
    chunks = [lines[i:i + chunk] for i in range(0, len(lines), chunk)]
    with cf.ThreadPoolExecutor(max_workers=jobs) as ex:
        parts = list(ex.map(lambda c: _run_chunk(binpath, c, per_case_timeout, extra_args, env), chunks))
    res = [x for p in parts for x in p]
    if len(res) != len(lines):
        raise MachineryError('harness %s answered %d of %d cases' % (crate, len(res), len(lines)))
    return res


# ----------------------------------------------------------------------------
# Coq

def coq_files():
    out = []
    for d in sorted(os.listdir(COQ)):
        p = os.path.join(COQ, d)
        if os.path.isdir(p):
            for f in sorted(os.listdir(p)):
                if f.endswith('.v') and not f.startswith('.'):
                    out.append('%s/%s' % (d, f))
    return out


def coq_prepare():
    files = coq_files()
    proj = '-Q . V\n' + '\n'.join(files) + '\n'
    changed = write_if_changed(os.path.join(COQ, '_CoqProject'), proj)
    if changed or not os.path.exists(os.path.join(COQ, 'Makefile')):
        rc, out = sh(['coq_makefile', '-f', '_CoqProject', '-o', 'Makefile'], cwd=COQ, timeout=120)
        if rc != 0:
            raise MachineryError('coq_makefile failed: ' + out)


def coq_build(targets, timeout=3000):
    """Full .vo build of the given targets (and what they depend on). Returns (ok, log)."""
    with _Lock('coq'):
        coq_prepare()
        t0 = time.time()
        rc, out = sh(['make', '-j%d' % NCPU] + list(targets), cwd=COQ, timeout=timeout)
        log('[coq] make %s -> rc=%d in %.1fs' % (' '.join(targets), rc, time.time() - t0))
        # a coqc process killed from outside (out-of-memory killer, signal) is not a broken proof: try again with
        # little parallelism, and if it is killed again report a machinery error, never a violation
        killed = r'Error 1(37|43)\b|[Kk]illed|[Oo]ut of memory|Cannot allocate memory'
        if rc != 0 and re.search(killed, out):
            t0 = time.time()
            rc, out = sh(['make', '-j3'] + list(targets), cwd=COQ, timeout=timeout)
            log('[coq] (retry after a killed coqc) make -j3 %s -> rc=%d in %.1fs' % (' '.join(targets), rc, time.time() - t0))
            if rc != 0 and re.search(killed, out):
                raise MachineryError('coqc was killed from outside (memory / signal) while building %s:\n%s' % (' '.join(targets), out[-1500:]))
        return rc == 0, out


def coq_requires(relpath, seen=None):
    """Transitive closure of `V.`-namespace files required by coq/<relpath>."""
    seen = seen if seen is not None else []
    if relpath in seen:
        return seen
    seen.append(relpath)
    try:
        src = open(os.path.join(COQ, relpath)).read()
    except FileNotFoundError:
        return seen
    src = re.sub(r'\(\*.*?\*\)', '', src, flags=re.S)
    name = r"[A-Za-z_][\w']*(?:\.[A-Za-z_][\w']*)*"
    for m in re.finditer(r'(?:From\s+(' + name + r')\s+)?Require\s+(?:Import\s+|Export\s+)?((?:' + name + r'\s*)+)\.(?=\s|$)', src):
        prefix = m.group(1)
        for nm in m.group(2).split():
            full = (prefix + '.' + nm) if prefix else nm
            if full.startswith('V.'):
                coq_requires(full[2:].replace('.', '/') + '.v', seen)
    return seen


def count_obligations(prop_file):
    n = 0
    files = coq_requires(prop_file)
    for f in files:
        try:
            src = open(os.path.join(COQ, f)).read()
        except FileNotFoundError:
            continue
        src = re.sub(r'\(\*.*?\*\)', '', src, flags=re.S)
        n += len(re.findall(r'^\s*(?:Local\s+|Global\s+|#\[[^\]]*\]\s*)?(?:Theorem|Lemma|Corollary|Fact|Proposition|Example|Remark)\s+\w+',
                            src, flags=re.M))
    return n, files


def count_obligations_file(f):
    """number of statements with a proof in one file (used for files a property adds through EXTRA_PROP_FILES)"""
    try:
        src = open(os.path.join(COQ, f)).read()
    except FileNotFoundError:
        return 0
    src = re.sub(r'\(\*.*?\*\)', '', src, flags=re.S)
    return len(re.findall(r'^\s*(?:Local\s+|Global\s+|#\[[^\]]*\]\s*)?(?:Theorem|Lemma|Corollary|Fact|Proposition|Example|Remark)\s+\w+',
                          src, flags=re.M))


def coq_hygiene():
    bad = []
    for f in coq_files():
        src = open(os.path.join(COQ, f)).read()
        src = re.sub(r'\(\*.*?\*\)', '', src, flags=re.S)
        for i, line in enumerate(src.split('\n')):
            if FORBIDDEN.search(line):
                bad.append('%s:%d: %s' % (f, i + 1, line.strip()))
    return bad


def theorem_names(prop_file):
    src = open(os.path.join(COQ, prop_file)).read()
    src = re.sub(r'\(\*.*?\*\)', '', src, flags=re.S)
    return re.findall(r'^\s*Theorem\s+(\w+)', src, flags=re.M)


def print_assumptions(prop_id, prop_file):
    """Returns (ok, {theorem: [axioms]}, log).  The theorems are spread over a few coqc processes (each Print Assumptions
    walks the whole dependency graph of its theorem, which takes seconds per theorem on the large developments)."""
    names = theorem_names(prop_file)
    mod = 'V.' + prop_file[:-2].replace('/', '.')
    d = os.path.join(BUILD, 'pa')
    os.makedirs(d, exist_ok=True)
    tag = 'PA_%s_%s' % (prop_id, re.sub(r'\W', '_', prop_file[:-2]))
    nproc = max(1, min(8, len(names) // 3))
    groups = [names[i::nproc] for i in range(nproc)]

    def run(k):
        f = os.path.join(d, '%s_%d.v' % (tag, k))
        body = 'Require Import %s.\n' % mod + ''.join('Print Assumptions %s.\n' % n for n in groups[k])
        open(f, 'w').write(body)
        rc, out = sh(['coqc', '-noglob', '-Q', COQ, 'V', f], cwd=d, timeout=900)
        if rc != 0:
            return False, {}, out
        blocks = re.split(r'(?m)^(?=Closed under the global context|Axioms:)', out)
        blocks = [b for b in blocks if b.strip()]
        res = {}
        ok = len(blocks) == len(groups[k])
        for n, b in zip(groups[k], blocks):
            if b.startswith('Closed'):
                res[n] = []
            else:
                ax = re.findall(r"(?m)^([A-Za-z_][\w\.\']*)\s*:", b)
                res[n] = ax
                for a in ax:
                    if a not in ALLOWED_AXIOMS and a.split('.')[-1] not in ALLOWED_AXIOMS:
                        ok = False
        return ok, res, out

    with cf.ThreadPoolExecutor(max_workers=nproc) as ex:
        parts = list(ex.map(run, range(nproc)))
    ok = all(p[0] for p in parts)
    res = {}
    for n in names:                      # keep the order of the property file
        for p in parts:
            if n in p[1]:
                res[n] = p[1][n]
    if ok and len(res) != len(names):
        ok = False
    return ok, res, '\n'.join(p[2] for p in parts)


def coq_eval(tag, imports, exprs, timeout=1200, shard=None, preamble='', tolerate=False):
    """Evaluate Gallina expressions with vm_compute inside Coq; returns parsed terms (same order).
    With tolerate=True an expression Coq rejects (ill-typed / unparsable - e.g. an implementation observation that is
    outside the observation type, pasted into the oracle) yields ('app', 'EvalError', []) instead of a machinery error;
    the expressions around it are still evaluated (the file is re-run from the expression after the rejected one)."""
    if not exprs:
        return []
    d = os.path.join(BUILD, 'cases', tag)
    shutil.rmtree(d, ignore_errors=True)
    os.makedirs(d, exist_ok=True)
    if shard is None:
        shard = max(1, min(400, (len(exprs) + NCPU - 1) // NCPU))
    shards = [exprs[i:i + shard] for i in range(0, len(exprs), shard)]
    head = ('From Coq Require Import ZArith List String.\nImport ListNotations.\n%s\nOpen Scope Z_scope.\n'
            'Set Printing Width 100000.\nSet Printing Depth 100000.\n%s\n' % (imports, preamble))
    nhead = head.count('\n')

    def parse_items(out):
        res = []
        for it in re.split(r'(?m)^\s*= ', out)[1:]:
            k = it.rfind('\n     : ')
            body = it[:k] if k >= 0 else it
            res.append(body)
        return res

    def run(i):
        todo = list(shards[i])
        res = []
        attempt = 0
        while todo:
            f = os.path.join(d, 'cases_%d%s.v' % (i, '' if attempt == 0 else '_r%d' % attempt))
            with open(f, 'w') as fh:
                fh.write(head)
                for e in todo:
                    fh.write('Eval vm_compute in (%s).\n' % e.replace('\n', ' '))
            rc, out = sh(['coqc', '-noglob', '-Q', COQ, 'V', f], cwd=d, timeout=timeout)
            if rc != 0 and 'Error' not in out:
                # killed from outside (memory pressure, a signal) or timed out without a Coq error: once more, alone
                time.sleep(2)
                rc, out = sh(['coqc', '-noglob', '-Q', COQ, 'V', f], cwd=d, timeout=timeout)
            if rc == 0:
                items = parse_items(out)
                if len(items) != len(todo):
                    raise MachineryError('coq answered %d of %d in %s' % (len(items), len(todo), f))
                res += [term.parse(b) for b in items]
                break
            m = re.search(r'File "[^"]*", line (\d+)', out)
            if not tolerate or not m or attempt >= 60:
                raise MachineryError('coqc failed on %s:\n%s' % (f, out[-3000:]))
            bad = int(m.group(1)) - nhead - 1          # index in todo of the rejected expression
            if not (0 <= bad < len(todo)):
                raise MachineryError('coqc failed on %s (outside the cases):\n%s' % (f, out[-3000:]))
            items = parse_items(out[:m.start()])
            if len(items) < bad:
                raise MachineryError('coq answered %d before failing at %d in %s' % (len(items), bad, f))
            res += [term.parse(b) for b in items[:bad]] + [('app', 'EvalError', [])]
            todo = todo[bad + 1:]
            attempt += 1
        return res

    with cf.ThreadPoolExecutor(max_workers=NCPU) as ex:
        parts = list(ex.map(run, range(len(shards))))
    return [x for p in parts for x in p]


# ----------------------------------------------------------------------------
# known findings

def known_findings(prop_id):
    """Entries `finding: property=<id> class=<slug> <text>` of KNOWN_FINDINGS.txt for this property."""
    out = []
    p = os.path.join(ROOT, 'KNOWN_FINDINGS.txt')
    if not os.path.exists(p):
        return out
    for line in open(p):
        line = line.strip()
        m = re.match(r'finding:\s+property=(\S+)\s+class=(\S+)\s*(.*)', line)
        if m and m.group(1) == prop_id:
            out.append((m.group(2), m.group(3)))
    return out


# ----------------------------------------------------------------------------
# evidence / verdict

def write_evidence(prop_id, tier, seed, coverage, assumptions, wall_s, violations):
    evdir = os.path.join(ROOT if WS == ROOT else WS, 'evidence')   # scratch-repository runs never touch /verif/evidence
    os.makedirs(evdir, exist_ok=True)
    ev = {
        'property_id': prop_id, 'tier': tier, 'seed': seed, 'level': 'proof',
        'coverage': coverage, 'assumptions': assumptions, 'wall_s': round(wall_s, 2), 'violations': violations,
    }
    p = os.path.join(evdir, prop_id + '.json')
    with open(p + '.tmp', 'w') as f:
        json.dump(ev, f, indent=1, sort_keys=True)
    os.replace(p + '.tmp', p)


def write_replay(prop_id, payload):
    d = os.path.join(ROOT if WS == ROOT else WS, 'replays')
    os.makedirs(d, exist_ok=True)
    h = hashlib.sha1(json.dumps(payload, sort_keys=True, default=str).encode()).hexdigest()[:10]
    p = os.path.join(d, '%s-%s.json' % (prop_id, h))
    with open(p, 'w') as f:
        json.dump(payload, f, indent=1, sort_keys=True, default=str)
    return p
