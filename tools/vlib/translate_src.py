"""K1 source-level / runtime tables beyond GenConsts.v.

`TABLES` is the list of generator functions `() -> (ok, log)` run by translate.regenerate() on every
check and by `./check --setup`.  Generators live next to the property that needs them: every module
`tools/props/*.py` may export `K1_TABLES = [function, ...]`; they are collected here (each function once).
"""
import importlib
import os
import pkgutil

TABLES = []


def _collect():
    import props
    seen = set()
    for m in sorted(pkgutil.iter_modules(props.__path__), key=lambda x: x.name):
        try:
            mod = importlib.import_module('props.' + m.name)
        except Exception:      # a property module that does not import is that property's problem
            continue
        for f in getattr(mod, 'K1_TABLES', []):
            key = (f.__module__, f.__name__)
            if key not in seen:
                seen.add(key)
                TABLES.append(f)


_collect()
