"""Source-level K1 translators (tables read off the Rust *source* of the repository under check).

`TABLES` is a list of functions () -> (ok, log); tools/vlib/translate.py calls each of them on every run.
Every property that needs a source table appends its generator below (keep this file additive).
"""
TABLES = []

try:  # C19: channel-URI constants, ChannelUriStringBuilder setter and emit tables
    from props import c19_translate as _c19
    TABLES.append(_c19.generate)
except ImportError:
    pass
