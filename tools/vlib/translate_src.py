"""Source-level K1 tables: collects the `TABLES` lists of every `tools/props/*_translate.py` module.

Each entry of a module's `TABLES` is a function () -> (ok, log) that (re)writes one file under
coq/Generated from the repository's working tree (core.REPO) and fails loudly (ok = False) when the
source no longer fits the grammar it understands.  Property checks that need a table put it in their own
`tools/props/<id>_translate.py`; nothing else has to be registered.
"""
import importlib
import os
import sys

_PROPS = os.path.join(os.path.dirname(os.path.dirname(os.path.abspath(__file__))), 'props')

TABLES = []


def _wrap(name, f):
    def g():
        try:
            return f()
        except Exception as e:     # a translator crash is a broken translation, not a crash of the check
            return False, '%s: translator raised %s: %s' % (name, type(e).__name__, e)
    return g


for _f in sorted(os.listdir(_PROPS)):
    if _f.endswith('_translate.py'):
        _m = importlib.import_module('props.' + _f[:-3])
        for _t in getattr(_m, 'TABLES', []):
            TABLES.append(_wrap(_f[:-3], _t))
