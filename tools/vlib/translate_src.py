"""Source-level / run-time K1 tables beyond GenConsts.v.

`TABLES` is the list of generator functions `() -> (ok, log)` run by translate.regenerate() on every
check and by `./check --setup`. Generators live next to the property that needs them and are collected here:
  * every module `tools/props/*_translate.py` may export `TABLES = [function, ...]`;
  * every module `tools/props/*.py` may export `K1_TABLES = [function, ...]`.
Each function (re)writes one file under coq/Generated from the repository's working tree (core.REPO) and
fails loudly (ok = False) when the source no longer fits the grammar it understands.
"""
import importlib
import os
import pkgutil

TABLES = []


def _wrap(name, f):
    def g():
        try:
            return f()
        except Exception as e:     # a translator crash is a broken translation, not a crash of the check
            return False, '%s: translator raised %s: %s' % (name, type(e).__name__, e)
    g.__name__ = getattr(f, '__name__', 'table')
    return g


def _collect():
    import props
    seen = set()
    for m in sorted(pkgutil.iter_modules(props.__path__), key=lambda x: x.name):
        try:
            mod = importlib.import_module('props.' + m.name)
        except Exception:      # a property module that does not import is that property's problem
            continue
        fs = list(getattr(mod, 'K1_TABLES', []))
        if m.name.endswith('_translate'):
            fs += list(getattr(mod, 'TABLES', []))
        for f in fs:
            key = (f.__module__, f.__name__)
            if key not in seen:
                seen.add(key)
                g = _wrap(f.__module__.split('.')[-1], f)
                g.k1_module = f.__module__.split('.')[-1]   # the module that defines the generator
                TABLES.append(g)


_collect()
