"""Parser / printer for the small term language shared by Coq's printer and the
Rust harness: integers, identifiers / constructor applications, tuples, lists
and strings.   Ok (5)   Panic   [1; -2]   (Ok 1, [2; 3])   "abc"

Parsed form:  int | str-literal as ('str', s) | ('app', name, [args]) | ('tuple', [..]) | ('list', [..])
A bare identifier is ('app', name, []).
"""
import re

_tok = re.compile(r'\s*(?:(-?\d+)|([A-Za-z_][A-Za-z_0-9\.\']*)|("(?:[^"]|"")*")|(\{\||\|\}|:=|[\[\]\(\);,]))')


class ParseError(Exception):
    pass


def tokenize(s):
    pos = 0
    out = []
    n = len(s)
    while True:
        while pos < n and s[pos].isspace():
            pos += 1
        if pos >= n:
            break
        if s[pos] == '%':  # scope annotation such as %Z or %string: skip
            m = re.match(r'%[A-Za-z_]+', s[pos:])
            pos += m.end()
            continue
        m = _tok.match(s, pos)
        if not m:
            raise ParseError('bad token at %d: %r' % (pos, s[pos:pos + 40]))
        if m.group(1) is not None:
            out.append(('int', int(m.group(1))))
        elif m.group(2) is not None:
            out.append(('id', m.group(2)))
        elif m.group(3) is not None:
            out.append(('str', m.group(3)[1:-1].replace('""', '"')))
        else:
            out.append(('p', m.group(4)))
        pos = m.end()
    return out


class _P:
    def __init__(self, toks):
        self.t = toks
        self.i = 0

    def peek(self):
        return self.t[self.i] if self.i < len(self.t) else None

    def next(self):
        x = self.t[self.i]
        self.i += 1
        return x

    def expect(self, p):
        x = self.next()
        if x != ('p', p):
            raise ParseError('expected %s got %r' % (p, x))

    def term(self):
        k = self.peek()
        if k is None:
            raise ParseError('unexpected end')
        if k[0] == 'id':
            name = self.next()[1]
            args = []
            while True:
                k = self.peek()
                if k is None or (k[0] == 'p' and k[1] in (')', ']', ';', ',', '|}')):
                    break
                args.append(self.atom())
            return ('app', name, args)
        return self.atom()

    def atom(self):
        k = self.next()
        if k[0] == 'int':
            return k[1]
        if k[0] == 'str':
            return ('str', k[1])
        if k[0] == 'id':
            return ('app', k[1], [])
        if k == ('p', '('):
            items = [self.term()]
            while self.peek() == ('p', ','):
                self.next()
                items.append(self.term())
            self.expect(')')
            if len(items) == 1:
                return items[0]
            # Coq tuples are left-nested pairs: ((a, b), c) is printed (a, b, c); normalise to the flat form
            while not isinstance(items[0], int) and items[0][0] == 'tuple':
                items = items[0][1] + items[1:]
            return ('tuple', items)
        if k == ('p', '['):
            items = []
            if self.peek() == ('p', ']'):
                self.next()
                return ('list', items)
            items.append(self.term())
            while self.peek() == ('p', ';'):
                self.next()
                items.append(self.term())
            self.expect(']')
            return ('list', items)
        raise ParseError('unexpected token %r' % (k,))


def parse(s):
    p = _P(tokenize(s))
    t = p.term()
    if p.peek() is not None:
        raise ParseError('trailing tokens: %r in %r' % (p.t[p.i:p.i + 5], s[:200]))
    return t


def to_coq(t):
    """Print a parsed term as a Gallina expression (Z_scope and list notations open)."""
    if isinstance(t, bool):
        return 'true' if t else 'false'
    if isinstance(t, int):
        return '(%d)' % t
    if isinstance(t, str):
        return t
    k = t[0]
    if k == 'str':
        return '"%s"%%string' % t[1].replace('"', '""')
    if k == 'tuple':
        return '(' + ', '.join(to_coq(x) for x in t[1]) + ')'
    if k == 'list':
        return '[' + '; '.join(to_coq(x) for x in t[1]) + ']'
    if k == 'app':
        if not t[2]:
            return t[1]
        return '(' + t[1] + ' ' + ' '.join(to_coq(x) for x in t[2]) + ')'
    raise ValueError(t)


def show(t):
    """Compact human-readable form (same syntax)."""
    if isinstance(t, int):
        return str(t)
    k = t[0]
    if k == 'str':
        return '"%s"' % t[1]
    if k == 'tuple':
        return '(' + ', '.join(show(x) for x in t[1]) + ')'
    if k == 'list':
        return '[' + '; '.join(show(x) for x in t[1]) + ']'
    if k == 'app':
        if not t[2]:
            return t[1]
        return t[1] + ' ' + ' '.join(('(' + show(x) + ')') if not isinstance(x, int) and x[0] == 'app' and x[2] else
                                    ('(' + show(x) + ')') if isinstance(x, int) and x < 0 else show(x) for x in t[2])
    raise ValueError(t)


def z(n):
    return '(%d)' % n


def zlist(xs):
    return '[' + '; '.join(z(x) for x in xs) + ']'
