"""K1: regenerate coq/Generated/*.v from the repository's working tree.

  GenConsts.v   constants, struct sizes, field offsets and enum discriminants as the *compiler*
                computed them (dump printed by harness/vconsts, built from the working tree);
  further tables (source-level translations) are added by the functions registered in SOURCE_TABLES.

Files are rewritten only when their content changes, so an unchanged repository costs no Coq rebuild.
Returns (ok, log); a failure is treated like a broken correspondence by the runner.
"""
import os
import re

from . import core


def gen_consts():
    rc, out = core.sh([core.harness_bin('vconsts')], timeout=60)
    if rc != 0:
        return False, 'vconsts failed: ' + out[-500:]
    lines = ['(* GENERATED on every run by tools/vlib/translate.py from the compiled crate (harness/vconsts). *)',
             'Require Import ZArith.', 'Open Scope Z_scope.']
    n = 0
    for l in out.strip().split('\n'):
        m = re.match(r'^([A-Za-z_][A-Za-z_0-9]*) (-?\d+)$', l.strip())
        if not m:
            return False, 'vconsts: unparsable line %r' % l
        lines.append('Definition %s : Z := %s.' % (m.group(1), '(%s)' % m.group(2) if m.group(2).startswith('-') else m.group(2)))
        n += 1
    core.write_if_changed(os.path.join(core.COQ, 'Generated', 'GenConsts.v'), '\n'.join(lines) + '\n')
    return True, '%d constants' % n


SOURCE_TABLES = []   # functions () -> (ok, log), appended by translate_src


def regenerate(details=False):
    """Regenerate every table. Returns (ok, log); with details=True returns [(module, ok, log)], where module is
    'consts' for GenConsts.v and otherwise the name of the tools/props module that defines the generator."""
    res = []
    ok, lg = gen_consts()
    res.append(('consts', ok, lg))
    try:
        from . import translate_src
        for f in translate_src.TABLES:
            ok, lg = f()
            res.append((getattr(f, 'k1_module', 'src'), ok, lg))
    except ImportError:
        pass
    if details:
        return res
    return all(r[1] for r in res), '; '.join(r[2] for r in res)
