"""./check --setup : build everything from files on disk (offline)."""
import glob
import os
import sys
import time

from . import core, translate


def main():
    t0 = time.time()
    core.prepare_workspace()
    crates = []
    for d in sorted(os.listdir(core.HARNESS)):
        if os.path.exists(os.path.join(core.HARNESS, d, 'Cargo.toml')) and d != 'vcommon':
            crates.append(d)
    try:
        core.harness_build(crates, release=False)
        core.harness_build([c for c in crates if c != 'vconsts'], release=True)
        ok, lg = translate.regenerate()
        print('[setup] translate:', ok, lg)
        if not ok:
            return 1
        ok, out = core.coq_build(['all'])
        if not ok:
            print(out[-4000:])
            return 1
    except core.MachineryError as e:
        print('setup failed:', e)
        return 1
    print('[setup] done in %.1fs' % (time.time() - t0))
    return 0
