"""Generic driver of one property check; the property-specific parts live in tools/props/cXX.py.

A property module provides:
  ID, PROP_FILE, EVAL_FILES (coq files needed to *run* model and oracle), CRATES, MODES, IMPORTS,
  RULE (text), ASSUMPTIONS (list of text), TRUSTED (list of text, optional)
  generate(rng, tier) -> [case]         case = JSON-able dict; case['crate'] optional (default CRATES[0])
  impl_line(case) -> str                input line for the harness
  model_expr(case, mode) -> str | None  Gallina expression of the model's observation
  oracle_expr(case, mode, obs) -> str | None   Gallina bool: the property's predicate on the implementation's observation
  nontrivial(case) -> bool
optional: known_class(case, mode, obs) -> slug | None ; neighbours(case, rng) -> [case] ; shrink(case) -> [case]
          normalize(obs) ; extra_checks(ctx) -> [(ok, name, detail)] (e.g. K1 table theorems) ; per_case_timeout ; budget
          EXTRA_PROP_FILES (further theorem files, built and audited with Print Assumptions like PROP_FILE)
"""
import collections
import json
import os
import random
import sys
import time

from . import core, term, translate


K1_FILES = {'consts': ['GenConsts'], 'c16_translate': ['GenBounds'], 'c19_translate': ['GenUriTables'],
            'c03_translate': ['GenOrdering'], 'c17_translate': ['GenDescriptor'], 'wire_k1': ['GenCommands', 'GenLayout'],
            # general source translator (tools/props/src_translate.py), one generator module per area
            'src_bits_translate': ['GenSrcBits'], 'src_ring_translate': ['GenSrcRing'],
            'src_broadcast_translate': ['GenSrcBroadcast'], 'src_counters_translate': ['GenSrcCounters'],
            'src_frame_translate': ['GenSrcFrame'], 'src_pub_translate': ['GenSrcPub'], 'src_image_translate': ['GenSrcImage'],
            'src_sub_translate': ['GenSrcSub']}


def _case_key(c):
    return json.dumps(c, sort_keys=True)


def _parse_obs(text):
    try:
        return term.parse(text)
    except term.ParseError:
        return ('app', 'Unparsable', [('str', text[:200])])


class Run:
    def __init__(self, mod, tier, seed):
        self.mod = mod
        self.tier = tier
        self.seed = seed
        self.t0 = time.time()
        self.broken = []        # names of theorems / correspondences that no longer check
        self.notes = []

    # -- build ---------------------------------------------------------------
    def build(self):
        mod = self.mod
        core.prepare_workspace()
        crates = ['vconsts'] + list(mod.CRATES)
        core.harness_build(crates, release=False)
        if 'release' in mod.MODES:
            core.harness_build(list(mod.CRATES), release=True)
        # K1: every table is regenerated, but only the tables this property rests on can break *this* check
        # (a source fragment that no longer fits another property's translator is that property's business).
        # A property rests on a table when its Coq files transitively require the generated file, or when its
        # driver names the generator's module in K1_DEPENDS.
        pid = mod.ID.lower()
        mine = set(getattr(mod, 'K1_DEPENDS', [])) | {'consts', pid, pid + '_translate'}
        closure = set()
        for f in [mod.PROP_FILE] + list(mod.EVAL_FILES) + list(getattr(mod, 'EXTRA_PROP_FILES', [])):
            closure.update(core.coq_requires(f))
        for name, ok, lg in translate.regenerate(details=True):
            uses = any('Generated/%s.v' % g in closure for g in K1_FILES.get(name, []))
            if not ok and (name in mine or uses):
                self.broken.append('translation K1 (%s): %s' % (name, lg))
        eval_targets = [f[:-2] + '.vo' for f in mod.EVAL_FILES]
        ok, out = core.coq_build(eval_targets)
        self.eval_ok = ok
        if not ok:
            self.broken.append('model/oracle files no longer compile against the regenerated tables: ' + _last_error(out))
        ok, out = core.coq_build([mod.PROP_FILE[:-2] + '.vo'])
        self.proof_ok = ok
        if not ok:
            self.broken.append('theorem file %s: %s' % (mod.PROP_FILE, _last_error(out)))
        # optional further theorem files of the same property (EXTRA_PROP_FILES): built and audited like PROP_FILE
        self.extra_props = list(getattr(mod, 'EXTRA_PROP_FILES', []))
        for f in self.extra_props:
            ok, out = core.coq_build([f[:-2] + '.vo'])
            if not ok:
                self.proof_ok = False
                self.broken.append('theorem file %s: %s%s' % (f, _last_error(out), _blame(f, out)))
        bad = core.coq_hygiene()
        if bad:
            raise core.MachineryError('forbidden declarations in the development:\n' + '\n'.join(bad))
        self.axioms = {}
        if self.proof_ok:
            ok, ax, out = core.print_assumptions(mod.ID, mod.PROP_FILE)
            self.axioms = ax
            if not ok:
                self.proof_ok = False
                self.broken.append('Print Assumptions outside the allow-list or failed: ' + out[-800:])
            for i, f in enumerate(self.extra_props):
                ok, ax, out = core.print_assumptions('%s_x%d' % (mod.ID, i), f)
                self.axioms.update(ax)
                if not ok:
                    self.proof_ok = False
                    self.broken.append('Print Assumptions (%s) outside the allow-list or failed: %s' % (f, out[-800:]))
        self.obligations, self.dep_files = core.count_obligations(mod.PROP_FILE)
        for f in self.extra_props:
            n, files = core.count_obligations(f)
            new_files = [x for x in files if x not in self.dep_files]
            self.dep_files = self.dep_files + new_files
            self.obligations += _count_statements(new_files)      # only the files not counted yet

    # -- execution -----------------------------------------------------------
    def run_impl(self, cases):
        """returns {mode: [parsed obs]}"""
        mod = self.mod
        res = {}
        for mode in mod.MODES:
            by_crate = collections.defaultdict(list)
            for i, c in enumerate(cases):
                by_crate[c.get('crate', mod.CRATES[0])].append(i)
            obs = [None] * len(cases)
            for crate, idxs in by_crate.items():
                lines = [mod.impl_line(cases[i]) for i in idxs]
                out = core.harness_run(crate, lines, release=(mode == 'release'),
                                       per_case_timeout=getattr(mod, 'PER_CASE_TIMEOUT', 2.0),
                                       chunk=getattr(mod, 'CHUNK', None))
                for i, o in zip(idxs, out):
                    obs[i] = _parse_obs(o)
            norm = getattr(mod, 'normalize', None)
            res[mode] = [norm(o) if norm else o for o in obs]
        return res

    def run_model(self, cases, tag='model'):
        mod = self.mod
        res = {}
        for mode in mod.MODES:
            exprs, idx = [], []
            for i, c in enumerate(cases):
                e = mod.model_expr(c, mode)
                if e is not None:
                    exprs.append(e)
                    idx.append(i)
            vals = core.coq_eval('%s_%s_%s' % (mod.ID, tag, mode), mod.IMPORTS, exprs)
            out = [None] * len(cases)
            norm = getattr(mod, 'normalize', None)
            for i, v in zip(idx, vals):
                out[i] = norm(v) if norm else v
            res[mode] = out
        return res

    def run_oracle(self, cases, impl, tag='oracle'):
        """returns {mode: [True/False/None]}"""
        mod = self.mod
        res = {}
        for mode in mod.MODES:
            exprs, idx = [], []
            out = [None] * len(cases)
            for i, c in enumerate(cases):
                o = impl[mode][i]
                if not isinstance(o, int) and o[0] == 'app' and o[1] in ('Crash', 'Hang', 'Unparsable'):
                    out[i] = False      # the implementation crashed, hung or printed garbage on this case
                    continue
                try:
                    e = mod.oracle_expr(c, mode, o)
                except Exception:
                    e = 'false'
                if e is None:
                    continue
                exprs.append(e)
                idx.append(i)
            # an observation the oracle expression cannot even be typed with is outside the observation type: verdict false
            vals = core.coq_eval('%s_%s_%s' % (mod.ID, tag, mode), mod.IMPORTS, exprs, tolerate=True)
            for i, v in zip(idx, vals):
                out[i] = (v == ('app', 'true', []))
            res[mode] = out
        return res

    def evaluate(self, cases, tag=''):
        """Run everything on `cases`; returns (impl, model, verdicts, disagreements, failures)."""
        mod = self.mod
        impl = self.run_impl(cases)
        if self.eval_ok:
            model = self.run_model(cases, 'model' + tag)
            verdict = self.run_oracle(cases, impl, 'oracle' + tag)
        else:
            model = {m: [None] * len(cases) for m in mod.MODES}
            verdict = {m: [None] * len(cases) for m in mod.MODES}
        disagreements, failures = [], []
        for mode in mod.MODES:
            for i, c in enumerate(cases):
                if model[mode][i] is not None and model[mode][i] != impl[mode][i]:
                    disagreements.append((i, mode))
                if verdict[mode][i] is False:
                    failures.append((i, mode))
        return impl, model, verdict, disagreements, failures


def _count_statements(files):
    import re
    n = 0
    for f in files:
        try:
            src = open(os.path.join(core.COQ, f)).read()
        except FileNotFoundError:
            continue
        src = re.sub(r'\(\*.*?\*\)', '', src, flags=re.S)
        n += len(re.findall(r'^\s*(?:Local\s+|Global\s+|#\[[^\]]*\]\s*)?(?:Theorem|Lemma|Corollary|Fact|Proposition|Example|Remark)\s+\w+',
                            src, flags=re.M))
    return n


def _last_error(out):
    lines = out.strip().split('\n')
    keep = [l for l in lines if 'Error' in l or 'error' in l or l.startswith('File ')]
    return ' | '.join((keep or lines)[-4:])[:600]


def _blame(prop_file, out):
    """Which lemma failed to compile and which theorems of `prop_file` rest on it (for the violation message)."""
    import re
    try:
        m = None
        for m in re.finditer(r'File "\./([^"]+)", line (\d+)', out):
            pass
        if not m:
            return ''
        path, line = m.group(1), int(m.group(2))
        src = open(os.path.join(core.COQ, path)).read().split('\n')
        lemma = None
        for l in reversed(src[:line]):
            mm = re.match(r'^\s*(?:Lemma|Theorem|Corollary|Fact|Example)\s+(\w+)', l)
            if mm:
                lemma = mm.group(1)
                break
        if not lemma:
            return ''
        if path == prop_file:
            return ' [theorem %s]' % lemma
        text = open(os.path.join(core.COQ, prop_file)).read()
        hit = []
        for mm in re.finditer(r'(?ms)^Theorem\s+(\w+)(.*?)Qed\.', text):
            if re.search(r'\b%s\b' % re.escape(lemma), mm.group(2)):
                hit.append(mm.group(1))
        return ' [lemma %s of %s; theorems resting on it: %s]' % (lemma, path, ', '.join(hit) if hit else 'through other lemmas of that file')
    except Exception:
        return ''


def _size(c):
    return len(_case_key(c))


def main(mod, argv):
    import argparse
    ap = argparse.ArgumentParser()
    ap.add_argument('--tier', default=os.environ.get('VERIF_TIER', 'quick'))
    ap.add_argument('--replay')
    ap.add_argument('--seed', type=int, default=int(os.environ.get('VERIF_SEED', '20260925')))
    a = ap.parse_args(argv)
    tier = a.tier if a.tier in ('quick', 'thorough') else 'quick'
    try:
        return _main(mod, tier, a.seed, a.replay)
    except core.MachineryError as e:
        print('MACHINERY-ERROR property=%s: %s' % (mod.ID, e))
        return 2


def _main(mod, tier, seed, replay):
    run = Run(mod, tier, seed)
    rng = random.Random(seed)
    run.build()

    if replay:
        payload = json.load(open(replay))
        cases = [payload['case']] if payload.get('case') else []
        if not cases:
            print('replay names no concrete case; broken: %s' % payload.get('broken'))
            return 0
        impl, model, verdict, dis, fails = run.evaluate(cases, '_replay')
        for mode in mod.MODES:
            print('mode=%s\n  case   = %s\n  impl   = %s\n  model  = %s\n  oracle = %s' % (
                mode, json.dumps(cases[0]), term.show(impl[mode][0]),
                term.show(model[mode][0]) if model[mode][0] is not None else None, verdict[mode][0]))
        return 1 if fails else 0

    # corpus first, then generated cases
    cases = []
    cdir = os.path.join(core.ROOT, 'corpus', mod.ID)
    if os.path.isdir(cdir):
        for f in sorted(os.listdir(cdir)):
            if f.endswith('.json'):
                c = json.load(open(os.path.join(cdir, f)))
                cases.append(c.get('case', c))
    ncorpus = len(cases)
    cases += mod.generate(rng, tier)
    impl, model, verdict, dis, fails = run.evaluate(cases)

    extra = []
    if hasattr(mod, 'extra_checks'):
        extra = mod.extra_checks(run)
        for ok, name, detail in extra:
            if not ok:
                run.broken.append('%s: %s' % (name, detail))

    known = {slug: text for slug, text in core.known_findings(mod.ID)}
    known_hits = collections.Counter()
    unknown = []
    for i, mode in fails:
        slug = mod.known_class(cases[i], mode, impl[mode][i]) if hasattr(mod, 'known_class') else None
        if slug is not None and slug in known:
            known_hits[slug] += 1
        else:
            unknown.append((i, mode))
    # a disagreement that falls in a known class is explained by that finding
    dis_unknown = []
    for i, mode in dis:
        slug = mod.known_class(cases[i], mode, impl[mode][i]) if hasattr(mod, 'known_class') else None
        if not (slug is not None and slug in known):
            dis_unknown.append((i, mode))
    if dis_unknown:
        i, mode = min(dis_unknown, key=lambda x: _size(cases[x[0]]))
        run.broken.append('correspondence model/implementation (%d cases differ; smallest: %s mode=%s impl=%s model=%s)' % (
            len(dis_unknown), json.dumps(cases[i]), mode, term.show(impl[mode][i])[:300], term.show(model[mode][i])[:300]))

    violation_line = None
    exit_code = 0
    searched = 0
    if not unknown and run.broken:
        # targeted search: neighbourhood of the disagreeing cases + fresh random cases
        extra_cases = []
        if hasattr(mod, 'neighbours'):
            for i, mode in dis_unknown[:20]:
                extra_cases += mod.neighbours(cases[i], rng)
        for k in range(3):
            extra_cases += mod.generate(random.Random(seed + 1000 + k), tier)
        searched = len(extra_cases)
        if extra_cases and run.eval_ok:
            impl2, model2, verdict2, dis2, fails2 = run.evaluate(extra_cases, '_search')
            for i, mode in fails2:
                slug = mod.known_class(extra_cases[i], mode, impl2[mode][i]) if hasattr(mod, 'known_class') else None
                if not (slug is not None and slug in known):
                    base = len(cases)
                    cases.append(extra_cases[i])
                    for m in mod.MODES:
                        impl[m].append(impl2[m][i]); model[m].append(model2[m][i]); verdict[m].append(verdict2[m][i])
                    unknown.append((base, mode))

    if unknown:
        i, mode = min(unknown, key=lambda x: _size(cases[x[0]]))
        case = cases[i]
        obs_i, mod_i = impl[mode][i], model[mode][i]
        if hasattr(mod, 'shrink'):
            case, obs_i, mod_i = _shrink(run, mod, case, mode, obs_i, mod_i)
        payload = {'property': mod.ID, 'seed': seed, 'mode': mode, 'case': case,
                   'harness_line': mod.impl_line(case), 'observed_impl': term.show(obs_i),
                   'expected_model': term.show(mod_i) if mod_i is not None else None,
                   'oracle_verdict': False, 'broken': run.broken or None,
                   'failing_cases_in_this_run': len(unknown),
                   'how_to_replay': './check %s --replay <this file>' % mod.ID}
        path = core.write_replay(mod.ID, payload)
        violation_line = 'VIOLATION property=%s replay=%s' % (mod.ID, path)
        exit_code = 1
    elif run.broken:
        payload = {'property': mod.ID, 'seed': seed, 'case': None, 'broken': run.broken,
                   'searched_cases': len(cases) + searched,
                   'note': 'a theorem or the correspondence no longer checks; no input on which the property fails was found'}
        path = core.write_replay(mod.ID, payload)
        violation_line = 'VIOLATION property=%s replay=%s no-failing-input-found' % (mod.ID, path)
        exit_code = 1

    for slug, n in sorted(known_hits.items()):
        print('KNOWN-FINDING: property=%s %s (%d cases in this run) %s' % (mod.ID, slug, n, known[slug]))

    # evidence
    nontriv = set()
    kinds = collections.Counter()
    for c in cases:
        kinds[str(c.get('kind', '?'))] += 1
        if mod.nontrivial(c):
            nontriv.add(_case_key(c))
    outcome_hist = collections.Counter()
    for mode in mod.MODES:
        for o in impl[mode]:
            outcome_hist[_head(o)] += 1
    samples = []
    step = max(1, len(cases) // 4)
    for i in list(range(ncorpus, len(cases), step))[:4]:
        samples.append({'case': cases[i], 'harness_line': mod.impl_line(cases[i]),
                        'impl': {m: term.show(impl[m][i])[:400] for m in mod.MODES},
                        'model': {m: (term.show(model[m][i])[:400] if model[m][i] is not None else None) for m in mod.MODES}})
    thm = core.theorem_names(mod.PROP_FILE)
    for f in getattr(run, 'extra_props', []):
        thm = thm + core.theorem_names(f)
    axioms_used = sorted({a for v in run.axioms.values() for a in v})
    trusted = [
        'Coq 8.16.1 kernel (coqc; vm_compute used for evaluating cases and for reflection over finite tables; no native_compute)',
        'axioms reported by Print Assumptions for the %d theorems of %s: %s' % (
            len(thm), mod.PROP_FILE, ', '.join(axioms_used) if axioms_used else 'none (closed under the global context)'),
        'K1: compiled-constant dump (harness/vconsts) and source translator tools/vlib/translate.py regenerate coq/Generated/*.v on every run',
        'K2: differential harness harness/%s (Rust, path dependency on the working tree, cfg %s) and tools/props/%s.py generators' % (
            ','.join(mod.CRATES), core.GUARD, mod.ID.lower()),
    ] + list(getattr(mod, 'TRUSTED', []))
    src_files = [f for f in getattr(mod, 'EXTRA_PROP_FILES', []) if f.endswith('Src.v')]
    if src_files:
        trusted.append('K1 source tie (%s): tools/props/src_translate.py (+ the parser of c17_translate.py) translates the pure helper and '
                       'decision functions this property rests on from the Rust text on every run (coq/Generated/GenSrc*.v); trusted to read '
                       'the subset of Rust described in docs/reports/SRC.md as rustc does; coq/Base/MachineIntT.v defines the width-generic '
                       'operators and result shapes the generated text uses' % ', '.join(src_files))
    coverage = {
        'obligations': run.obligations,
        'discharged': run.obligations if run.proof_ok else 0,
        'checker_cmd': 'cd /verif/coq && coq_makefile -f _CoqProject -o Makefile && make %s.vo  (then Print Assumptions on: %s)' % (
            mod.PROP_FILE[:-2], ', '.join(thm)),
        'trusted_base': trusted,
        'theorems': thm,
        'files_in_proof': run.dep_files,
        'evaluations': len(cases) * len(mod.MODES),
        'distinct_nontrivial': len(nontriv),
        'rule': mod.RULE,
        'samples': samples,
        'case_kinds': dict(kinds),
        'impl_outcome_histogram': dict(outcome_hist),
        'modes': list(mod.MODES),
        'disagreements_model_vs_impl': len(dis),
        'oracle_failures': len(fails),
        'known_finding_hits': dict(known_hits),
        'extra_checks': [{'ok': ok, 'name': n, 'detail': d[:300]} for ok, n, d in extra],
        'corpus_cases': ncorpus,
        'broken': run.broken,
        'repo': core.REPO,
    }
    if tier == 'thorough' and run.proof_ok:
        coverage['coqchk'] = _coqchk(mod)
    core.write_evidence(mod.ID, tier, seed, coverage, list(mod.ASSUMPTIONS), time.time() - run.t0,
                        len(unknown) + (1 if (run.broken and not unknown) else 0))
    print('%s: proof_ok=%s obligations=%d cases=%d modes=%s disagreements=%d oracle_failures=%d known=%d wall=%.1fs' % (
        mod.ID, run.proof_ok, run.obligations, len(cases), ','.join(mod.MODES), len(dis), len(fails),
        sum(known_hits.values()), time.time() - run.t0))
    if violation_line:
        print(violation_line)
    return exit_code


def _head(o):
    if isinstance(o, int):
        return 'int'
    if o[0] == 'app':
        return o[1]
    if o[0] == 'tuple':
        return 'tuple(' + ','.join(_head(x) for x in o[1][:6]) + ')'
    return o[0]


def _shrink(run, mod, case, mode, obs, mobs):
    """Greedy shrinking with the property's candidate generator; keeps a case iff the oracle still fails."""
    cur, cur_obs, cur_mobs = case, obs, mobs
    for _ in range(12):
        cands = [c for c in mod.shrink(cur) if _size(c) < _size(cur)][:64]
        if not cands:
            break
        impl, model, verdict, dis, fails = run.evaluate(cands, '_shrink')
        bad = [i for (i, m) in fails if m == mode]
        if not bad:
            break
        i = min(bad, key=lambda k: _size(cands[k]))
        cur, cur_obs, cur_mobs = cands[i], impl[mode][i], model[mode][i]
    return cur, cur_obs, cur_mobs


def _coqchk(mod):
    lib = 'V.' + mod.PROP_FILE[:-2].replace('/', '.')
    rc, out = core.sh(['coqchk', '-silent', '-o', '-Q', core.COQ, 'V', lib], cwd=core.COQ, timeout=3000)
    tail = out.strip().split('\n')[-25:]
    return {'rc': rc, 'output_tail': tail}
