"""C03 - a subscriber never observes an uncommitted, torn or half-written frame."""
import random

from props import c02
from vlib.term import to_coq, z

ID = 'C03'
PROP_FILE = 'Props/C03.v'
EVAL_FILES = ['Oracle/C03Oracle.v']
CRATES = ['c03']
MODES = ['debug']
IMPORTS = ('Require Import V.Base.MachineInt V.Model.LogBase V.Model.Descriptor V.Model.Sched V.Model.AppenderThreads '
           'V.Model.ReaderThreads V.Oracle.C02Oracle V.Oracle.C03Oracle.')
PER_CASE_TIMEOUT = 5.0
RULE = ('a polling subscriber (Image::poll through hook H3 when the repository has it, else term_reader::read through a copy of '
        'Image::poll) with 1-2 publishers x 1-3 messages (unfragmented, fragmented, padding at the term end, rotation) on 1 KiB / 2 KiB '
        'terms under the deterministic H2 scheduler: random schedules, every schedule with at most one pre-emption of the small '
        'configurations, and - the crash points - every prefix length of a single publisher\'s access sequence after which the '
        'publisher is stopped for ever while the subscriber keeps polling; plus exclusive-publisher and try_claim/commit/abort '
        'threads (real ExclusivePublication / BufferClaim, judged by the oracle only - no thread machine). Compared: trace (accessor, region, offset, length, operands, '
        'value read), per-thread results, final dump, subscriber position, fragments handed to the handler (offset, length, flags, bytes). '
        'The oracle re-walks the final log, checks the delivered fragments are a prefix of its committed data frames with identical bytes, '
        'the position rule, no write after a commit, and runs the vector-clock race detector (classes from the regenerated ordering table) '
        'over the trace. Non-trivial: a reader and a publisher are interleaved (or the publisher is stopped mid-append); distinct = '
        'distinct (geometry, messages, schedule, crash points)')
ASSUMPTIONS = [
    'interleavings are sequentially consistent at the granularity of the accesses hook H2 reports; for hardware reordering the '
    'happens-before result is combined with the DRF-SC argument, which is assumed, not proved',
    'get_volatile / put_ordered are a plain access plus a fence in the source; they are classified acquire load / release store '
    '(the classification is computed from the regenerated fence table, the Rust-level status of fence + plain access is named, not resolved)',
    'media driver contract: the partition the subscriber reads is neither zeroed nor rotated into while it is being read',
    'one subscriber position counter per image (one reader thread per case)',
    'the hook reports the header burst of HeaderWriter::write as the whole 32-byte header; its real extent is taken from the '
    'assignments in the source (K1 header_burst_fields)',
]
TRUSTED = ['deterministic scheduler harness/vcommon/src/sched.rs on hook H2; hook H3 (hooks/H3-image-create.diff) when applied']

cfg_expr = c02.cfg_expr


def thread_expr(t):
    if t['k'] == 'P':
        return 'rpub %d [%s]' % (t['budget'], '; '.join('payload %s %s' % (z(k), z(l)) for k, l in t['msgs']))
    if t['k'] == 'E':
        return 'renv [%s]' % '; '.join(('SetLimit %s' % z(v)) if o == 'L' else ('Clean %s' % z(v)) for o, v in t['ops'])
    if t['k'] == 'R':
        return 'reader %d %s' % (t['polls'], z(t['limit']))
    raise ValueError(t)


def _thread_line(t):
    if t['k'] == 'P':
        return 'T=P:%d:%s' % (t['budget'], ','.join('%dx%d' % (k, l) for k, l in t['msgs']))
    if t['k'] == 'X':
        return 'T=X:%d:%s' % (t['budget'], ','.join('%dx%d' % (k, l) for k, l in t['msgs']))
    if t['k'] == 'Q':
        return 'T=Q:%d:%s' % (t['budget'], ','.join('%dx%d%s' % (k, l, 'a' if a else '') for k, l, a in t['msgs']))
    if t['k'] == 'E':
        return 'T=E:%s' % ','.join('%s%d' % (o, v) for o, v in t['ops'])
    return 'T=R:%d:%d' % (t['polls'], t['limit'])


def impl_line(c):
    parts = ['run', 'bits=%d' % c['bits'], 'mtu=%d' % c['mtu'], 'init=%d' % c['init'], 'n0=%d' % c['n0'], 'off0=%d' % c['off0'],
             'limit=%d' % c['limit']]
    for t in c['threads']:
        parts.append(_thread_line(t))
    parts.append('S=' + ','.join(str(x) for x in c['sched']))
    st = c.get('stops') or []
    if st:
        parts.append('K=' + ','.join('-' if s is None else str(s) for s in st))
    return ' '.join(parts)


def model_expr(c, mode):
    if any(t['k'] in ('X', 'Q') for t in c['threads']):
        return None        # exclusive publisher / try_claim: no thread machine; the oracle alone judges the run
    return 'run_case3 %s %s [%s] %s %s' % (cfg_expr(c), z(c['limit']), '; '.join(thread_expr(t) for t in c['threads']),
                                           c02.coq_nat_list(c['sched']), c02.stops_expr(c))


def readers(c):
    return [i for i, t in enumerate(c['threads']) if t['k'] == 'R']


def oracle_expr(c, mode, obs):
    if obs[0] != 'tuple':
        return 'false'
    return 'holds_C03 %s [%s] %s' % (cfg_expr(c), '; '.join(str(r) for r in readers(c)), to_coq(obs))


def nontrivial(c):
    st = c.get('stops') or []
    if any(s is not None for s in st):
        return True
    s = c['sched']
    return any(a != b for a, b in zip(s, s[1:]))


def known_class(c, mode, obs):
    return c02.known_class(c, mode, obs)


def steps_upper(c, t):
    if t['k'] in ('X', 'Q'):
        mp = c['mtu'] - 32
        n = 0
        for m in t['msgs']:
            l = m[1]
            n += 6 + 6 * (1 if l <= mp else (l + mp - 1) // mp)
        return n + t['budget'] * 5 + 10
    if t['k'] == 'R':
        frames = 0
        for x in c['threads']:
            if x['k'] in ('P', 'X', 'Q'):
                mp = c['mtu'] - 32
                frames += sum(1 if m[1] <= mp else (m[1] + mp - 1) // mp for m in x['msgs']) + 1
        return t['polls'] * 2 + 4 * frames + 4
    return c02.steps_upper(c, t)


def with_reader(c, rng, polls=None):
    c['threads'].append({'k': 'R', 'polls': polls or rng.choice([2, 3, 4, 6]), 'limit': rng.choice([1, 2, 10, 10])})
    return c


def random_schedule(rng, c):
    pool = []
    for i, t in enumerate(c['threads']):
        pool += [i] * steps_upper(c, t)
    if rng.random() < 0.5:
        rng.shuffle(pool)
        return pool
    out = []
    n = len(c['threads'])
    while len(out) < len(pool):
        out += [rng.randrange(n)] * rng.choice([1, 1, 2, 3, 5, 8])
    return out


def small_cases():
    out = []
    for (bits, mtu, off_back, lens, n0, init) in [
            (10, 256, 0, [40], 0, 5),                 # one unfragmented frame
            (10, 64, 0, [70], 0, -3),                 # three fragments
            (10, 256, 64, [40], 1, 2**31 - 2),        # trips the term end: padding frame, rotation, retry in the next term
            (10, 256, 96, [10, 33], 2, 7),            # two messages, the second trips
    ]:
        tl = 1 << bits
        out.append({'kind': 'small', 'bits': bits, 'mtu': mtu, 'init': init, 'n0': n0, 'off0': tl - off_back if off_back else 0,
                    'limit': (n0 + 2) * tl,
                    'threads': [{'k': 'P', 'budget': len(lens) + 2, 'msgs': [[i + 1, l] for i, l in enumerate(lens)]},
                                {'k': 'R', 'polls': 3, 'limit': 10}],
                    'sched': [], 'stops': []})
    return out


def generate(rng, tier):
    big = tier == 'thorough'
    cases = []
    # (1) crash points: the single publisher is stopped for ever after k accesses, k = 0 .. all; the reader polls before,
    #     during and after
    for c in small_cases():
        ub = steps_upper(c, c['threads'][0])
        for k in range(0, ub + 1):
            for style in range(3 if big else 2):
                d = dict(c)
                d['kind'] = 'crash'
                d['stops'] = [k, None]
                rub = steps_upper(c, c['threads'][1])
                if style == 0:
                    d['sched'] = [0] * k + [1] * rub          # publisher up to the crash point, then the reader
                elif style == 1:
                    d['sched'] = random_schedule(rng, c)
                else:
                    d['sched'] = [1] * 2 + [0] * k + [1] * rub
                cases.append(d)
    # (2) all schedules with <= 1 pre-emption (publisher / reader) of the small configurations
    for c in small_cases() if big else small_cases()[:3]:
        for s in c02.preempt_schedules({'threads': c['threads'], 'mtu': c['mtu']}, 1) if False else []:
            pass
        ub = [steps_upper(c, t) for t in c['threads']]
        for first in (0, 1):
            second = 1 - first
            for i in range(0, ub[first] + 1):
                d = dict(c)
                d['kind'] = 'preempt'
                d['sched'] = [first] * i + [second] * ub[second]
                cases.append(d)
                if big:
                    for j in range(0, ub[second], 3):
                        e = dict(c)
                        e['kind'] = 'preempt'
                        e['sched'] = [first] * i + [second] * j + [first] * ub[first] + [second] * ub[second]
                        cases.append(e)
    # (3) random: 1-2 publishers x 1-3 messages with a reader, some with crash points
    for i in range(4000 if big else 180):
        c = c02.base_case(rng, bits=rng.choice([10, 10, 11]), npub=rng.choice([1, 2, 2]), nmsg=rng.choice([1, 2, 3]))
        c['kind'] = 'rand'
        with_reader(c, rng)
        c['sched'] = random_schedule(rng, c)
        if i % 3 == 0:
            t = rng.randrange(len(c['threads']) - 1)
            c['stops'] = [None] * len(c['threads'])
            c['stops'][t] = rng.randrange(0, steps_upper(c, c['threads'][t]))
            c['kind'] = 'rand-crash'
        cases.append(c)
    # (4) exclusive publisher and try_claim / commit / abort (oracle only: prefix, position, commits final, race detector)
    for i in range(1500 if big else 100):
        bits = rng.choice([10, 10, 11])
        tl = 1 << bits
        mtu = rng.choice([64, 96, 256])
        n0 = rng.choice([0, 1, 2])
        off0 = rng.choice([0, tl - 64, tl - 96, tl - 160, tl - 256])
        nm = rng.choice([1, 2, 3])
        c = {'kind': 'excl' if i % 2 == 0 else 'claim', 'bits': bits, 'mtu': mtu, 'init': rng.choice([5, -3, 2**31 - 2]), 'n0': n0,
             'off0': off0, 'limit': (n0 + 2) * tl, 'threads': [], 'sched': [], 'stops': []}
        if i % 2 == 0:
            c['threads'].append({'k': 'X', 'budget': nm + 2, 'msgs': [[j + 1, rng.choice([0, 1, 20, 40, 64, 96, tl // 8])] for j in range(nm)]})
        else:
            c['threads'].append({'k': 'Q', 'budget': nm + 2,
                                 'msgs': [[j + 1, rng.choice([0, 1, 20, mtu - 32]), rng.random() < 0.3] for j in range(nm)]})
            if rng.random() < 0.5:
                c['threads'].append({'k': 'P', 'budget': 3, 'msgs': [[9, rng.choice([10, 40])]]})
        with_reader(c, rng)
        c['sched'] = random_schedule(rng, c)
        if i % 3 == 0:
            c['stops'] = [None] * len(c['threads'])
            c['stops'][0] = rng.randrange(0, steps_upper(c, c['threads'][0]))
        cases.append(c)
    return cases


def shrink(c):
    out = []
    s = c['sched']
    for cut in (len(s) // 2, len(s) - 1):
        if 0 <= cut < len(s):
            d = dict(c)
            d['sched'] = s[:cut]
            out.append(d)
    return out


def neighbours(c, rng):
    out = []
    for _ in range(20):
        d = dict(c)
        d['sched'] = random_schedule(rng, c)
        out.append(d)
    return out
