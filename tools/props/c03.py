"""C03 - a subscriber never observes an uncommitted, torn or half-written frame."""
import os
import random

from props import c02
from vlib.term import to_coq, z

ID = 'C03'
PROP_FILE = 'Props/C03.v'
EVAL_FILES = ['Oracle/C03Oracle.v', 'Oracle/C03XOracle.v', 'Model/ClaimThreads.v']
CRATES = ['c03']
MODES = ['debug']
IMPORTS = ('Require Import V.Base.MachineInt V.Model.LogBase V.Model.Descriptor V.Model.Sched V.Model.AppenderThreads '
           'V.Model.ReaderThreads V.Model.ExclThreads V.Model.PollThreads V.Model.ClaimThreads V.Oracle.C02Oracle V.Oracle.C03Oracle '
           'V.Oracle.C03XOracle. Require V.Model.Reader.')
PER_CASE_TIMEOUT = 5.0
RULE = ('kind bulkcrash (oracle only): the small configurations with the publisher going through Publication::offer_bulk, stopped for ever after every number of accesses, the reader polling afterwards. '
        'a polling subscriber (Image::poll through hook H3 when the repository has it, else term_reader::read through a copy of '
        'Image::poll) with 1-2 publishers x 1-3 messages (unfragmented, fragmented, padding at the term end, rotation) on 1 KiB / 2 KiB '
        'terms under the deterministic H2 scheduler: random schedules, every schedule with at most one pre-emption of the small '
        'configurations, and - the crash points - every prefix length of a single publisher\'s access sequence after which the '
        'publisher is stopped for ever while the subscriber keeps polling; exclusive-publisher and try_claim/commit/abort '
        'threads (kinds excl, claim). Kinds x*: an EXCLUSIVE publisher (offer_part of unfragmented / fragmented messages, try_claim + '
        'payload + BufferClaim::set_flags / set_header_type (values 0 .. 0xFFFF) / set_reserved_value + commit or abort, term-end padding, '
        'rotation) or SHARED claimants (Publication::try_claim, the same claimant actions, next to a shared publisher or a second claimant) '
        'against a subscriber that polls with EVERY flavour - poll, bounded_poll, controlled_poll, bounded_controlled_poll, controlled_peek '
        '(+ set_position), block_poll - with handler scripts (Continue / Abort / Break / Commit) and bounds before, at and beyond the '
        'position: every crash point of the exclusive publisher (stopped after k accesses, k = 0 .. all, the flavour polled first rotating '
        'with k), one-pre-emption schedules, random schedules, a third with a crash point. For every kind the model (thread machines of '
        'Model/AppenderThreads, ReaderThreads, ExclThreads, PollThreads, ClaimThreads) runs the same schedule. Compared: trace (accessor, '
        'region, offset, length, operands, value read), per-thread results, final dump, subscriber position, fragments handed to the '
        'handler (offset, length, flags, bytes). The oracle re-walks the final log and checks: delivered = the committed data frames of the '
        'stream in order with identical bytes (kinds x*: repetitions after Abort / peek allowed, nothing else; an aborted claim - identified '
        'by the position try_claim returned - is padding in the log and never delivered, whatever its claimant wrote into the header), the '
        'position rule, no write after a commit, the vector-clock race detector (classes from the regenerated ordering table) over the '
        'trace, nobody panicked. Non-trivial: a reader and a publisher are interleaved (or the publisher is stopped mid-append); distinct = '
        'distinct (geometry, items, polls, schedule, crash points)')
ASSUMPTIONS = [
    'interleavings are sequentially consistent at the granularity of the accesses hook H2 reports; for hardware reordering the '
    'happens-before result is combined with the DRF-SC argument, which is assumed, not proved',
    'get_volatile / put_ordered are a plain access plus a fence in the source; they are classified acquire load / release store '
    '(the classification is computed from the regenerated fence table, the Rust-level status of fence + plain access is named, not resolved)',
    'media driver contract: the partition the subscriber reads is neither zeroed nor rotated into while it is being read',
    'one subscriber position counter per image (one reader thread per case)',
    'theorems C03_race_free / C03_excl_*: no partition is used by two generations (runs within generations n0 .. n0+2: the driver has '
    'cleaned nothing, so nothing may be reused); the generated cases keep the limit <= (n0+2) * term length',
    'theorems for the six poll flavours are about the exclusive publisher; against shared publishers the theorems cover Image::poll, '
    'the other flavours and the shared claimant (Publication::try_claim) are covered by the model comparison and the oracle only',
    'block_poll: block_length_limit small enough that term_offset + limit does not overflow i32 (no debug-build panic modelled)',
    'the hook reports the header burst of HeaderWriter::write as the whole 32-byte header; its real extent is taken from the '
    'assignments in the source (K1 header_burst_fields)',
]
TRUSTED = ['deterministic scheduler harness/vcommon/src/sched.rs on hook H2; hook H3 (hooks/H3-image-create.diff) when applied']

cfg_expr = c02.cfg_expr


def thread_expr(t):
    if t['k'] == 'P':
        return 'rpub %d [%s]' % (t['budget'], '; '.join('payload %s %s' % (z(k), z(l)) for k, l in t['msgs']))
    if t['k'] == 'E':
        return 'renv [%s]' % '; '.join(('SetLimit %s' % z(v)) if o == 'L' else ('Clean %s' % z(v)) for o, v in t['ops'])
    if t['k'] == 'R':
        return 'reader %d %s' % (t['polls'], z(t['limit']))
    raise ValueError(t)


def _item_line(it, shared):
    if not it.get('claim'):
        return '%dx%d' % (it['k'], it['len'])
    out = '%d%s%d' % (it['k'], 'x' if shared else 'c', it['len'])
    for key in ('F', 'T', 'R'):
        if it.get(key) is not None:
            out += '%s%d' % (key, it[key])
    return out + ('a' if it.get('abort') else '')


def _poll_line(p):
    k = p[0]
    if k == 'p':
        return 'p'
    if k == 'b':
        return 'b%d' % p[1]
    if k == 'c':
        return 'c' + p[1]
    if k in ('d', 'k'):
        return '%s%d/%s' % (k, p[1], p[2])
    return 'l%d' % p[1]


def _items(t):
    """items of an X / Q thread in the new representation (old cases carry 'msgs')"""
    if 'items' in t:
        return t['items']
    if t['k'] == 'X':
        return [{'k': k, 'len': l, 'claim': False} for k, l in t['msgs']]
    return [{'k': m[0], 'len': m[1], 'claim': True, 'abort': bool(m[2])} for m in t['msgs']]


def _thread_line(t):
    if t['k'] == 'P':
        return 'T=%s:%d:%s' % ('B' if t.get('bulk') else 'P', t['budget'], ','.join('%dx%d' % (k, l) for k, l in t['msgs']))
    if t['k'] == 'X':
        return 'T=X:%d:%s' % (t['budget'], ','.join(_item_line(i, False) for i in _items(t)))
    if t['k'] == 'Q':
        return 'T=Q:%d:%s' % (t['budget'], ','.join(_item_line(i, True) for i in _items(t)))
    if t['k'] == 'E':
        return 'T=E:%s' % ','.join('%s%d' % (o, v) for o, v in t['ops'])
    if t['k'] == 'V':
        return 'T=V:%d:%s' % (t['limit'], ','.join(_poll_line(p) for p in t['polls']))
    return 'T=R:%d:%d' % (t['polls'], t['limit'])


_ACT = {'C': 'Reader.Continue', 'A': 'Reader.Abort', 'B': 'Reader.Break', 'M': 'Reader.Commit'}


def _script(sc):
    return '[' + '; '.join(_ACT[ch] for ch in sc) + ']'


def _sets_expr(it):
    out = []
    if it.get('F') is not None:
        out.append('SFlags %s' % z(it['F']))
    if it.get('T') is not None:
        out.append('SType %s' % z(it['T']))
    if it.get('R') is not None:
        out.append('SResv %s' % z(it['R']))
    return '[' + '; '.join(out) + ']'


def xthread_expr(c, t):
    """thread of the system with every kind of thread (Model/ClaimThreads.v)"""
    if t['k'] in ('P', 'E', 'R'):
        return 'xold (%s)' % thread_expr(t)
    if t['k'] == 'X':
        its = []
        for it in _items(t):
            pay = 'payload %s %s' % (z(it['k']), z(it['len']))
            if it.get('claim'):
                its.append('XClaim (%s) %s %s' % (pay, _sets_expr(it), 'true' if it.get('abort') else 'false'))
            else:
                its.append('XOffer (%s)' % pay)
        return 'xpub %s %d [%s]' % (cfg_expr(c), t['budget'], '; '.join(its))
    if t['k'] == 'Q':
        its = ['(payload %s %s, %s, %s)' % (z(it['k']), z(it['len']), _sets_expr(it), 'true' if it.get('abort') else 'false')
               for it in _items(t)]
        return 'xq %s %d [%s]' % (cfg_expr(c), t['budget'], '; '.join(its))
    if t['k'] == 'V':
        ps = []
        for p in t['polls']:
            k = p[0]
            if k == 'p':
                ps.append('FPoll')
            elif k == 'b':
                ps.append('FBounded %s' % z(p[1]))
            elif k == 'c':
                ps.append('FCtrl %s' % _script(p[1]))
            elif k == 'd':
                ps.append('FBCtrl %s %s' % (z(p[1]), _script(p[2])))
            elif k == 'k':
                ps.append('FPeek %s %s' % (z(p[1]), _script(p[2])))
            else:
                ps.append('FBlock %s' % z(p[1]))
        return 'xv %s [%s]' % (z(t['limit']), '; '.join(ps))
    raise ValueError(t)


def impl_line(c):
    parts = ['run', 'bits=%d' % c['bits'], 'mtu=%d' % c['mtu'], 'init=%d' % c['init'], 'n0=%d' % c['n0'], 'off0=%d' % c['off0'],
             'limit=%d' % c['limit']]
    for t in c['threads']:
        parts.append(_thread_line(t))
    parts.append('S=' + ','.join(str(x) for x in c['sched']))
    st = c.get('stops') or []
    if st:
        parts.append('K=' + ','.join('-' if s is None else str(s) for s in st))
    return ' '.join(parts)


def is_x(c):
    """a case of the system with exclusive publisher / claimants / poll flavours"""
    return any(t['k'] in ('X', 'Q', 'V') for t in c['threads'])


def model_expr(c, mode):
    if any(t.get('bulk') for t in c['threads']):
        return None         # a publisher going through offer_bulk has no thread machine: judged by the oracle alone
    if is_x(c):
        return 'run_casex %s %s [%s] %s %s' % (cfg_expr(c), z(c['limit']), '; '.join(xthread_expr(c, t) for t in c['threads']),
                                               c02.coq_nat_list(c['sched']), c02.stops_expr(c))
    return 'run_case3 %s %s [%s] %s %s' % (cfg_expr(c), z(c['limit']), '; '.join(thread_expr(t) for t in c['threads']),
                                           c02.coq_nat_list(c['sched']), c02.stops_expr(c))


def readers(c):
    return [i for i, t in enumerate(c['threads']) if t['k'] in ('R', 'V')]


def claims_expr(c):
    out = []
    for i, t in enumerate(c['threads']):
        if t['k'] in ('X', 'Q'):
            out.append('(%d, [%s])' % (i, '; '.join('(%s, %s)' % (z(it['len']), 'true' if it.get('abort') else 'false')
                                                     for it in _items(t))))
    return '[' + '; '.join(out) + ']'


def new_oracle(c):
    """the cases written for the exclusive / claim / flavour machines are judged by holds_C03x; the older oracle-only kinds
    (excl, claim) keep holds_C03"""
    return c.get('kind', '').startswith('x')


def oracle_expr(c, mode, obs):
    if obs[0] != 'tuple':
        return 'false'
    if new_oracle(c):
        return 'holds_C03x %s [%s] %s %s' % (cfg_expr(c), '; '.join(str(r) for r in readers(c)), claims_expr(c), to_coq(obs))
    return 'holds_C03 %s [%s] %s' % (cfg_expr(c), '; '.join(str(r) for r in readers(c)), to_coq(obs))


def nontrivial(c):
    st = c.get('stops') or []
    if any(s is not None for s in st):
        return True
    s = c['sched']
    return any(a != b for a, b in zip(s, s[1:]))


def known_class(c, mode, obs):
    return c02.known_class(c, mode, obs)


def _nfrags(c, l):
    mp = c['mtu'] - 32
    return 1 if l <= mp else (l + mp - 1) // mp


def steps_upper(c, t):
    if t['k'] in ('X', 'Q') and 'items' in t:
        n = 0
        for it in t['items']:
            n += 10 + 6 * _nfrags(c, it['len'])
        return n + t['budget'] * 4 + 8
    if t['k'] == 'V':
        frames = 0
        for x in c['threads']:
            if x['k'] in ('X', 'Q'):
                frames += sum(_nfrags(c, it['len']) for it in _items(x)) + 1
            elif x['k'] == 'P':
                frames += sum(_nfrags(c, m[1]) for m in x['msgs']) + 1
        return len(t['polls']) * 4 + 8 * frames + 6
    if t['k'] in ('X', 'Q'):
        mp = c['mtu'] - 32
        n = 0
        for m in t['msgs']:
            l = m[1]
            n += 6 + 6 * (1 if l <= mp else (l + mp - 1) // mp)
        return n + t['budget'] * 5 + 10
    if t['k'] == 'R':
        frames = 0
        for x in c['threads']:
            if x['k'] in ('P', 'X', 'Q'):
                mp = c['mtu'] - 32
                frames += sum(1 if m[1] <= mp else (m[1] + mp - 1) // mp for m in x['msgs']) + 1
        return t['polls'] * 2 + 4 * frames + 4
    return c02.steps_upper(c, t)


def with_reader(c, rng, polls=None):
    c['threads'].append({'k': 'R', 'polls': polls or rng.choice([2, 3, 4, 6]), 'limit': rng.choice([1, 2, 10, 10])})
    return c


def random_schedule(rng, c):
    pool = []
    for i, t in enumerate(c['threads']):
        pool += [i] * steps_upper(c, t)
    if rng.random() < 0.5:
        rng.shuffle(pool)
        return pool
    out = []
    n = len(c['threads'])
    while len(out) < len(pool):
        out += [rng.randrange(n)] * rng.choice([1, 1, 2, 3, 5, 8])
    return out


def small_cases():
    out = []
    for (bits, mtu, off_back, lens, n0, init) in [
            (10, 256, 0, [40], 0, 5),                 # one unfragmented frame
            (10, 64, 0, [70], 0, -3),                 # three fragments
            (10, 256, 64, [40], 1, 2**31 - 2),        # trips the term end: padding frame, rotation, retry in the next term
            (10, 256, 96, [10, 33], 2, 7),            # two messages, the second trips
    ]:
        tl = 1 << bits
        out.append({'kind': 'small', 'bits': bits, 'mtu': mtu, 'init': init, 'n0': n0, 'off0': tl - off_back if off_back else 0,
                    'limit': (n0 + 2) * tl,
                    'threads': [{'k': 'P', 'budget': len(lens) + 2, 'msgs': [[i + 1, l] for i, l in enumerate(lens)]},
                                {'k': 'R', 'polls': 3, 'limit': 10}],
                    'sched': [], 'stops': []})
    return out


def generate(rng, tier):
    big = tier == 'thorough'
    cases = []
    # (1) crash points: the single publisher is stopped for ever after k accesses, k = 0 .. all; the reader polls before,
    #     during and after
    for c in small_cases():
        ub = steps_upper(c, c['threads'][0])
        for k in range(0, ub + 1):
            for style in range(3 if big else 2):
                d = dict(c)
                d['kind'] = 'crash'
                d['stops'] = [k, None]
                rub = steps_upper(c, c['threads'][1])
                if style == 0:
                    d['sched'] = [0] * k + [1] * rub          # publisher up to the crash point, then the reader
                elif style == 1:
                    d['sched'] = random_schedule(rng, c)
                else:
                    d['sched'] = [1] * 2 + [0] * k + [1] * rub
                cases.append(d)
    # (2) all schedules with <= 1 pre-emption (publisher / reader) of the small configurations
    for c in small_cases() if big else small_cases()[:3]:
        for s in c02.preempt_schedules({'threads': c['threads'], 'mtu': c['mtu']}, 1) if False else []:
            pass
        ub = [steps_upper(c, t) for t in c['threads']]
        for first in (0, 1):
            second = 1 - first
            for i in range(0, ub[first] + 1):
                d = dict(c)
                d['kind'] = 'preempt'
                d['sched'] = [first] * i + [second] * ub[second]
                cases.append(d)
                if big:
                    for j in range(0, ub[second], 3):
                        e = dict(c)
                        e['kind'] = 'preempt'
                        e['sched'] = [first] * i + [second] * j + [first] * ub[first] + [second] * ub[second]
                        cases.append(e)
    # (3) random: 1-2 publishers x 1-3 messages with a reader, some with crash points
    for i in range(4000 if big else 180):
        c = c02.base_case(rng, bits=rng.choice([10, 10, 11]), npub=rng.choice([1, 2, 2]), nmsg=rng.choice([1, 2, 3]))
        c['kind'] = 'rand'
        with_reader(c, rng)
        c['sched'] = random_schedule(rng, c)
        if i % 3 == 0:
            t = rng.randrange(len(c['threads']) - 1)
            c['stops'] = [None] * len(c['threads'])
            c['stops'][t] = rng.randrange(0, steps_upper(c, c['threads'][t]))
            c['kind'] = 'rand-crash'
        cases.append(c)
    # (4) exclusive publisher and try_claim / commit / abort (oracle only: prefix, position, commits final, race detector)
    for i in range(1500 if big else 100):
        bits = rng.choice([10, 10, 11])
        tl = 1 << bits
        mtu = rng.choice([64, 96, 256])
        n0 = rng.choice([0, 1, 2])
        off0 = rng.choice([0, tl - 64, tl - 96, tl - 160, tl - 256])
        nm = rng.choice([1, 2, 3])
        c = {'kind': 'excl' if i % 2 == 0 else 'claim', 'bits': bits, 'mtu': mtu, 'init': rng.choice([5, -3, 2**31 - 2]), 'n0': n0,
             'off0': off0, 'limit': (n0 + 2) * tl, 'threads': [], 'sched': [], 'stops': []}
        if i % 2 == 0:
            c['threads'].append({'k': 'X', 'budget': nm + 2, 'msgs': [[j + 1, rng.choice([0, 1, 20, 40, 64, 96, tl // 8])] for j in range(nm)]})
        else:
            c['threads'].append({'k': 'Q', 'budget': nm + 2,
                                 'msgs': [[j + 1, rng.choice([0, 1, 20, mtu - 32]), rng.random() < 0.3] for j in range(nm)]})
            if rng.random() < 0.5:
                c['threads'].append({'k': 'P', 'budget': 3, 'msgs': [[9, rng.choice([10, 40])]]})
        with_reader(c, rng)
        c['sched'] = random_schedule(rng, c)
        if i % 3 == 0:
            c['stops'] = [None] * len(c['threads'])
            c['stops'][0] = rng.randrange(0, steps_upper(c, c['threads'][0]))
        cases.append(c)
    # (5) exclusive publisher / claimants with setters / all poll flavours: thread machines, model comparison, holds_C03x
    cases += x_cases(random.Random(rng.randrange(2**30)), big)
    only = os.environ.get('C03_ONLY')          # development aid: run the kinds with this prefix only
    if only:
        cases = [c for c in cases if c['kind'].startswith(only)]
    # (bulk) the small configurations once more with the publisher going through Publication::offer_bulk (two buffers), stopped for
    # ever after k accesses, the reader polling afterwards: no thread machine - the oracle alone judges (delivered = prefix of the
    # committed frames, nothing written to a frame after its length word was committed, race detector)
    import copy
    for c in small_cases():
        ub = steps_upper(c, c['threads'][0]) + 12
        rub = steps_upper(c, c['threads'][1])
        for k in range(0, ub + 1):
            d = copy.deepcopy(c)
            d['kind'] = 'bulkcrash'
            d['threads'][0]['bulk'] = True
            d['stops'] = [k, None]
            d['sched'] = [0] * k + [1] * rub
            cases.append(d)

    return cases


# ----------------------------------------------------------------------------------------------
# the exclusive publisher, claimants with the BufferClaim setters, every poll flavour (kinds x...)

def have_h3():
    repo = os.environ.get('VERIF_REPO', '/repo')
    try:
        return 'fn create_for_verif' in open(os.path.join(repo, 'src', 'image.rs')).read()
    except OSError:
        return False


def all_flavours(c, rot=0, script='CC'):
    far = (c['n0'] + 3) * (1 << c['bits'])
    fl = [['d', far, script], ['k', far, script], ['l', 1 << c['bits']], ['c', script], ['b', far], ['p']]
    rot %= len(fl)
    return fl[rot:] + fl[:rot]


def viewer(c, polls, limit=10):
    if have_h3():
        return {'k': 'V', 'limit': limit, 'polls': polls}
    return {'k': 'R', 'polls': len(polls), 'limit': limit}          # without hook H3 only Image::poll (through the copy) can run


def x_small_cases():
    """single exclusive publisher: (a) fragmented offer, claim with setters committed, claim with a wide type aborted,
    (b) offers that trip the term end (padding, rotation) and a claim in the next term"""
    out = []
    for (bits, mtu, off_back, n0, init, items) in [
            (10, 64, 0, 0, 5, [
                {'k': 1, 'len': 40, 'claim': False},
                {'k': 2, 'len': 20, 'claim': True, 'F': 7, 'T': 258, 'R': -5},
                {'k': 3, 'len': 8, 'claim': True, 'T': 65535, 'abort': True},
                {'k': 4, 'len': 0, 'claim': True}]),
            (10, 96, 96, 1, 2**31 - 2, [
                {'k': 1, 'len': 20, 'claim': True, 'abort': True, 'F': 255},
                {'k': 2, 'len': 33, 'claim': False},
                {'k': 3, 'len': 64, 'claim': True, 'R': 2**40 + 3}]),
    ]:
        tl = 1 << bits
        c = {'kind': 'xsmall', 'bits': bits, 'mtu': mtu, 'init': init, 'n0': n0, 'off0': tl - off_back if off_back else 0,
             'limit': (n0 + 2) * tl, 'threads': [{'k': 'X', 'budget': len(items) + 2, 'items': items}], 'sched': [], 'stops': []}
        out.append(c)
    return out


def rand_items(rng, c, n, shared):
    mp = c['mtu'] - 32
    tl = 1 << c['bits']
    items = []
    for j in range(n):
        claim = shared or rng.random() < 0.6
        if claim:
            it = {'k': j + 1, 'len': rng.choice([0, 1, 8, 20, mp - 1, mp, mp, mp + 1 if rng.random() < 0.1 else mp]), 'claim': True}
            if rng.random() < 0.4:
                it['F'] = rng.choice([0, 7, 64, 128, 192, 255])
            if rng.random() < 0.5:
                it['T'] = rng.choice([0, 1, 2, 255, 256, 258, 0xFF00, 0xFFFF])
            if rng.random() < 0.3:
                it['R'] = rng.choice([0, 1, -1, 2**40 + 3, -2**63, 2**63 - 1])
            if rng.random() < 0.4:
                it['abort'] = True
        else:
            it = {'k': j + 1, 'len': rng.choice([0, 1, 20, 40, 64, 96, tl // 8]), 'claim': False}
        items.append(it)
    return items


def rand_polls(rng, c, n):
    tl = 1 << c['bits']
    start = c['n0'] * tl + c['off0']
    bounds = [start - 64, start, start + 32, start + 96, start + 160, (c['n0'] + 1) * tl, (c['n0'] + 3) * tl, 2**40]
    scripts = ['', 'C', 'A', 'B', 'M', 'CA', 'MC', 'CMA', 'CCB', 'MMM', 'CAC']
    out = []
    for _ in range(n):
        k = rng.choice('pbcdkl')
        if k == 'p':
            out.append(['p'])
        elif k == 'b':
            out.append(['b', rng.choice(bounds)])
        elif k == 'c':
            out.append(['c', rng.choice(scripts)])
        elif k in 'dk':
            out.append([k, rng.choice(bounds), rng.choice(scripts)])
        else:
            out.append(['l', rng.choice([32, 64, 96, 256, tl])])
    return out


def x_cases(rng, big):
    cases = []
    # (x1) crash points of the exclusive publisher: stopped for ever after k accesses, k = 0 .. all; the subscriber then polls
    #      with every flavour (the flavour that comes first rotates with k)
    for c in x_small_cases():
        ub = steps_upper(c, c['threads'][0])
        for k in range(0, ub + 1):
            for style in (range(2) if big else [k % 2]):
                d = dict(c)
                d['kind'] = 'xcrash'
                d['threads'] = c['threads'] + [viewer(c, all_flavours(c, k + style * 3, ['CC', 'MC', 'CA', 'BC'][k % 4]), [10, 1][style])]
                d['stops'] = [k, None]
                rub = steps_upper(d, d['threads'][1])
                d['sched'] = [0] * k + [1] * rub if style == 0 else random_schedule(rng, d)
                cases.append(d)
    # (x2) one pre-emption: the publisher runs i accesses, the subscriber polls once with each flavour, both finish
    for c in x_small_cases():
        ub = steps_upper(c, c['threads'][0])
        for i in range(0, ub + 1, 1 if big else 2):
            d = dict(c)
            d['kind'] = 'xpreempt'
            d['threads'] = c['threads'] + [viewer(c, all_flavours(c, i) + all_flavours(c, i + 2, 'M'))]
            d['sched'] = [0] * i + [1] * (steps_upper(d, d['threads'][1]) // 2) + [0] * ub
            cases.append(d)
    # (x3) random: exclusive publisher (offers and claims with setters, commit / abort) or shared claimants (+ a shared publisher),
    #      a subscriber with random flavours, bounds and handler scripts; a third with a crash point
    for i in range(3000 if big else 130):
        bits = rng.choice([10, 10, 11])
        tl = 1 << bits
        mtu = rng.choice([64, 96, 256])
        n0 = rng.choice([0, 1, 2])
        c = {'kind': 'xrand', 'bits': bits, 'mtu': mtu, 'init': rng.choice([5, -3, 2**31 - 2, -2**31]), 'n0': n0,
             'off0': rng.choice([0, 0, tl - 64, tl - 96, tl - 160, tl - 256]), 'limit': (n0 + 2) * tl, 'threads': [], 'sched': [],
             'stops': []}
        if rng.random() < 0.05:
            c['limit'] = c['n0'] * tl + c['off0']            # back pressure
        nm = rng.choice([1, 2, 3, 4])
        if i % 2 == 0:
            c['threads'].append({'k': 'X', 'budget': nm + 2, 'items': rand_items(rng, c, nm, False)})
        else:
            c['kind'] = 'xqrand'
            c['threads'].append({'k': 'Q', 'budget': nm + 2, 'items': rand_items(rng, c, nm, True)})
            r = rng.random()
            if r < 0.3:
                c['threads'].append({'k': 'P', 'budget': 3, 'msgs': [[9, rng.choice([10, 40, 70])]]})
            elif r < 0.5:
                c['threads'].append({'k': 'Q', 'budget': 3, 'items': rand_items(rng, c, 2, True)})
        c['threads'].append(viewer(c, rand_polls(rng, c, rng.choice([2, 3, 4, 6])), rng.choice([1, 2, 10, 10])))
        c['sched'] = random_schedule(rng, c)
        if i % 3 == 0:
            c['stops'] = [None] * len(c['threads'])
            c['stops'][0] = rng.randrange(0, steps_upper(c, c['threads'][0]))
            c['kind'] += '-crash'
        cases.append(c)
    return cases


def shrink(c):
    out = []
    s = c['sched']
    for cut in (len(s) // 2, len(s) - 1):
        if 0 <= cut < len(s):
            d = dict(c)
            d['sched'] = s[:cut]
            out.append(d)
    return out


def neighbours(c, rng):
    out = []
    for _ in range(20):
        d = dict(c)
        d['sched'] = random_schedule(rng, c)
        out.append(d)
    return out
