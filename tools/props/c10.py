"""C10 - the conductor survives faults: no panic, no hang, errors reported, orderly close."""
from vlib.term import z, to_coq
from props import cond_common as cc
from props import c10cnc as cn

ID = 'C10'
PROP_FILE = 'Props/C10.v'
EXTRA_PROP_FILES = ['Props/C10Connect.v']
EVAL_FILES = ['Oracle/C10Oracle.v', 'Oracle/C10CncOracle.v']
CRATES = ['c09', 'c10cnc']
MODES = ['debug']
IMPORTS = ('Require Import V.Base.MachineInt V.Model.Conductor V.Model.ConductorReent V.Oracle.C09Oracle V.Oracle.C10Oracle '
           'V.Model.Connect V.Model.CncLayout V.Model.Agent V.Oracle.C10CncOracle.')
PER_CASE_TIMEOUT = 8.0
CHUNK = 40
RULE = ('fault histories of up to 70 operations on a full in-process client (harness/c09: real conductor, ring, broadcast transmitter / receiver / '
        'copy receiver / listener adapter, controllable clock, the harness plays the driver; every operation under a 3 s watchdog): scripted '
        'histories for every fault and every suspected defect (overrun then further duty cycles, oversize message, cached subscription / counter '
        'at close / client time-out / stall / heartbeat loss, repeated stalls, silent driver, close with every kind of resource in every '
        'registration state), then random histories mixing registrations and answers with overruns, oversize messages, stalls beyond the '
        'inter-service time-out, stale / negative driver heartbeats, heartbeat-counter loss, client time-outs (own and foreign id) and close; '
        'a case is non-trivial when it contains a fault or a close and at least one registration; distinct = distinct histories. '
        'Around the conductor (harness/c10cnc): Aeron::map_cnc_file on fabricated CnC files - scripted environments (file missing / empty / '
        'version 0 / wrong major / heartbeat 0 / stale / fresh, changing at chosen clock calls, clock values from the script through the clock hook; '
        'observation = verdict + number of clock calls) and real-time runs with 50-600 ms time-outs under a watchdog (verdict + returned within '
        'time-out + 400 ms); Aeron::new + Drop in invoker and runner mode; cnc_file_descriptor regions and getters for boundary and random '
        'meta data (negative / overflowing lengths, short files); AgentInvoker call sequences and AgentRunner::run scripts with a scripted agent '
        '(do_work results, start / close errors, stop signals true and false at chosen duty cycles); AgentRunner::start / stop on a real thread '
        'for every idle strategy of the crate')
ASSUMPTIONS = [
    'driver events are well formed (ASCII strings, counter ids inside the counters buffer, existing log file, exclusive-publication answers '
    'with registration id = correlation id, known message type ids - C14); an ErrorResponse with error code 4 (channel endpoint error) carries a channel status indicator id in its correlation-id field (generated: ids of live resources, other ids, ids that only agree as i32)',
    'the command ring either has room or (SetRingFull) refuses every command - its capacity arithmetic is C06\'s; a command that does not fit the 512-byte scratch buffer is refused with IllegalArgument (boundary cases generated); '
    'callbacks that call back into the client are generated (op cs): they dead-lock - finding reentrant-call-deadlock, theorems C10_reentrant_call_deadlocks / C10_total_unless_reentrant',
    'the clock stays below 2^62 and above the linger time-out, so that now_ms - linger does not underflow (C11/C12)',
    'one thread drives the client: real scheduling of the agent thread against API threads and lock-order questions are outside the model',
    'connect loop: 0 <= media driver time-out <= clock value (Unix ms) < 2^64 and start + time-out < 2^64, so that the u64 arithmetic of the source is '
    'exact (outside: debug panic / release wrap, witnessed by C10_connect_tiny_clock_debug_panics); the statement "no panic" is for CnC files a '
    'driver can have left: absent, empty, or at least as long as the meta data plus the to-driver region it announces, ring capacity a power of '
    'two (a corrupt length word reaches the `expect` in map_cnc_file: modelled, compared, not judged); one observation covers open + mmap + size',
    'cnc_file_descriptor: regions are judged for non-negative lengths whose sum with the aligned meta data fits an Index, on a file holding the meta data',
    'AgentRunner: the idle strategy does not panic (NoOpIdleStrategy is unimplemented!(): modelled and compared, not judged); AgentInvoker: '
    'start() is not called for the first time after close() (kept as in Agrona; witnessed by C10_invoker_start_after_close_runs)',
]
TRUSTED = ['harness/c10cnc: watchdogs (time-out + 2.5 s for map_cnc_file / Aeron::new, 2.5 s for drop and AgentStopper::stop); the clock hook '
           '(verif_hook::clock_override, hooks/cnc-clock.diff) when the repository copy has it - the scripted connect cases are skipped without it; '
           'file states are played through the file system (every generation of cnc.dat the case created keeps receiving the scripted words)',
           'harness/c09 watchdog: an operation that does not return within 3 s is recorded as Hang (the runner kills the process after its own time-out as a backstop)']


def generate(rng, tier):
    cc.clean_scratch()
    cases = list(cc.scripted())
    n = 500 if tier != 'thorough' else 20000
    for _ in range(n):
        cases.append(cc.gen_history(rng, tier, 'faults' if rng.random() < 0.8 else 'protocol'))
    # callbacks that call back into the client (finding reentrant-call-deadlock): scripted, then random insertions
    cases += cc.scripted_reent()
    cases += cc.reent_histories(rng, 16 if tier != 'thorough' else 300)
    # the code around the conductor; own random stream, so that the histories above stay what they were
    import random
    cases += cn.generate(random.Random(rng.getrandbits(32) ^ 0xC10), tier)
    return cases


def _mine(case):
    return case.get('crate') == cn.CRATE


def impl_line(case):
    return cn.impl_line(case) if _mine(case) else cc.impl_line(case)


def model_expr(case, mode):
    return cn.model_expr(case, mode) if _mine(case) else cc.model_expr(case, mode)


def shrink(case):
    return [] if _mine(case) else cc.shrink(case)


normalize = cc.normalize


def known_class(case, mode, obs):
    if _mine(case):
        return None
    return 'reentrant-call-deadlock' if cc.reentrant_deadlock(case, obs) else None


def extra_checks(run):
    import os
    import re
    from vlib import core
    # K1-reentrant: ensure_not_reentrant as the model describes it (reports through the error handler, does not refuse), and the
    # conductor behind a std Mutex (the second lock of a callback's re-entrant call is what never returns)
    src = open(os.path.join(core.REPO, 'src', 'client_conductor.rs')).read().split('#[cfg(test)]')[0]
    norm = re.sub(r'\s+', ' ', src)
    want = 'pub fn ensure_not_reentrant(&self) { if self.is_in_callback { let err = AeronError::ReentrantException; self.error_handler.call(err); } }'
    aeron = re.sub(r'\s+', ' ', open(os.path.join(core.REPO, 'src', 'aeron.rs')).read())
    ok = want in norm and 'conductor: Arc<Mutex<ClientConductor>>' in aeron and 'use std::sync::{Arc, Mutex}' in aeron.replace('Mutex, Arc', 'Arc, Mutex')
    return [cc.hook_note(),
            (ok, 'K1-reentrant', 'ensure_not_reentrant only reports to the error handler; Aeron holds the conductor as Arc<std::sync::Mutex<ClientConductor>>'
             if ok else 'ensure_not_reentrant or the conductor lock changed: Model/ConductorReent.v no longer describes the source')]


def oracle_expr(case, mode, obs):
    if _mine(case):
        return cn.oracle_expr(case, mode, obs)
    c = case['cfg']
    if isinstance(obs, int) or obs[0] != 'list':
        return 'false'     # the whole case crashed / hung: no per-operation observations
    return 'holds_c10 %s %s %s %s %s %s' % (z(c[0]), z(c[1]), z(c[2]), z(c[3]), cc.ops_expr(case), to_coq(obs))


def nontrivial(case):
    if _mine(case):
        return cn.nontrivial(case)
    names = [o[0] for o in case['ops']]
    fault = any(n in ('wl', 'wo', 'cl', 'hc') for n in names) or any(o[0] == 'we' and o[1] in ('ct', 'er') for o in case['ops']) \
        or any(o[0] == 'tk' and o[1] > case['cfg'][3] for o in case['ops'])
    return fault and any(n[0] == 'a' for n in names)
