"""C10 - the conductor survives faults: no panic, no hang, errors reported, orderly close."""
from vlib.term import z, to_coq
from props import cond_common as cc

ID = 'C10'
PROP_FILE = 'Props/C10.v'
EVAL_FILES = ['Oracle/C10Oracle.v']
CRATES = ['c09']
MODES = ['debug']
IMPORTS = 'Require Import V.Base.MachineInt V.Model.Conductor V.Model.ConductorReent V.Oracle.C09Oracle V.Oracle.C10Oracle.'
PER_CASE_TIMEOUT = 8.0
CHUNK = 40
RULE = ('fault histories of up to 70 operations on a full in-process client (harness/c09: real conductor, ring, broadcast transmitter / receiver / '
        'copy receiver / listener adapter, controllable clock, the harness plays the driver; every operation under a 3 s watchdog): scripted '
        'histories for every fault and every suspected defect (overrun then further duty cycles, oversize message, cached subscription / counter '
        'at close / client time-out / stall / heartbeat loss, repeated stalls, silent driver, close with every kind of resource in every '
        'registration state), then random histories mixing registrations and answers with overruns, oversize messages, stalls beyond the '
        'inter-service time-out, stale / negative driver heartbeats, heartbeat-counter loss, client time-outs (own and foreign id) and close; '
        'a case is non-trivial when it contains a fault or a close and at least one registration; distinct = distinct histories')
ASSUMPTIONS = [
    'driver events are well formed (ASCII strings, counter ids inside the counters buffer, existing log file, exclusive-publication answers '
    'with registration id = correlation id, known message type ids - C14); an ErrorResponse with error code 4 (channel endpoint error) carries a channel status indicator id in its correlation-id field (generated: ids of live resources, other ids, ids that only agree as i32)',
    'the command ring either has room or (SetRingFull) refuses every command - its capacity arithmetic is C06\'s; a command that does not fit the 512-byte scratch buffer is refused with IllegalArgument (boundary cases generated); '
    'callbacks that call back into the client are generated (op cs): they dead-lock - finding reentrant-call-deadlock, theorems C10_reentrant_call_deadlocks / C10_total_unless_reentrant',
    'the clock stays below 2^62 and above the linger time-out, so that now_ms - linger does not underflow (C11/C12)',
    'one thread drives the client: real scheduling of the agent thread against API threads and lock-order questions are outside the model',
]
TRUSTED = ['harness/c09 watchdog: an operation that does not return within 3 s is recorded as Hang (the runner kills the process after its own time-out as a backstop)']


def generate(rng, tier):
    cc.clean_scratch()
    cases = list(cc.scripted())
    n = 500 if tier != 'thorough' else 20000
    for _ in range(n):
        cases.append(cc.gen_history(rng, tier, 'faults' if rng.random() < 0.8 else 'protocol'))
    # callbacks that call back into the client (finding reentrant-call-deadlock): scripted, then random insertions
    cases += cc.scripted_reent()
    cases += cc.reent_histories(rng, 16 if tier != 'thorough' else 300)
    return cases


impl_line = cc.impl_line
model_expr = cc.model_expr
shrink = cc.shrink
normalize = cc.normalize


def known_class(case, mode, obs):
    return 'reentrant-call-deadlock' if cc.reentrant_deadlock(case, obs) else None


def extra_checks(run):
    import os
    import re
    from vlib import core
    # K1-reentrant: ensure_not_reentrant as the model describes it (reports through the error handler, does not refuse), and the
    # conductor behind a std Mutex (the second lock of a callback's re-entrant call is what never returns)
    src = open(os.path.join(core.REPO, 'src', 'client_conductor.rs')).read().split('#[cfg(test)]')[0]
    norm = re.sub(r'\s+', ' ', src)
    want = 'pub fn ensure_not_reentrant(&self) { if self.is_in_callback { let err = AeronError::ReentrantException; self.error_handler.call(err); } }'
    aeron = re.sub(r'\s+', ' ', open(os.path.join(core.REPO, 'src', 'aeron.rs')).read())
    ok = want in norm and 'conductor: Arc<Mutex<ClientConductor>>' in aeron and 'use std::sync::{Arc, Mutex}' in aeron.replace('Mutex, Arc', 'Arc, Mutex')
    return [cc.hook_note(),
            (ok, 'K1-reentrant', 'ensure_not_reentrant only reports to the error handler; Aeron holds the conductor as Arc<std::sync::Mutex<ClientConductor>>'
             if ok else 'ensure_not_reentrant or the conductor lock changed: Model/ConductorReent.v no longer describes the source')]


def oracle_expr(case, mode, obs):
    c = case['cfg']
    if isinstance(obs, int) or obs[0] != 'list':
        return 'false'     # the whole case crashed / hung: no per-operation observations
    return 'holds_c10 %s %s %s %s %s %s' % (z(c[0]), z(c[1]), z(c[2]), z(c[3]), cc.ops_expr(case), to_coq(obs))


def nontrivial(case):
    names = [o[0] for o in case['ops']]
    fault = any(n in ('wl', 'wo', 'cl', 'hc') for n in names) or any(o[0] == 'we' and o[1] in ('ct', 'er') for o in case['ops']) \
        or any(o[0] == 'tk' and o[1] > case['cfg'][3] for o in case['ops'])
    return fault and any(n[0] == 'a' for n in names)
