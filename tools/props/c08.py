"""C08 - driver-event broadcast: events arrive in order, intact; any loss is reported."""
import hashlib
import json
import os

from vlib import core
from vlib.term import z, to_coq

ID = 'C08'
PROP_FILE = 'Props/C08.v'
# only what is needed to RUN model and oracle (definitions, no proofs): a change of the compiled constants that breaks the
# proofs (e.g. a trailer offset) must still be judged on concrete inputs by the oracle
EVAL_FILES = ['Oracle/C08Oracle.v']
CRATES = ['c08']
MODES = ['debug', 'release']
IMPORTS = ('Require Import V.Base.MachineInt V.Model.LogBase V.Model.Broadcast V.Model.BroadcastThreads V.Model.BroadcastShow V.Spec.Lossy V.Spec.LossyJump V.Oracle.C08Oracle.')
RULE = ('sequential histories of transmit / receive / dump on a real BroadcastTransmitter + CopyBroadcastReceiver over one buffer whose three '
        'trailer counters are preset to c0: c0 in {0, 2^31-2cap .. 2^31+2cap, 2^32-2cap .. 2^32+2cap, 2^40, random multiples of 8}; cap 32..4096 '
        '(and 65536 for the 4096-byte scratch limit); message lengths 0..cap/8 at every alignment; patterns: ping-pong, bursts that leave the '
        'backlog at cap-8 / cap / cap+8 / several laps, padding at every wrap alignment, late-joining receiver, random mixes, and a malformed stream '
        '(type <= 0, over-long, types unknown to from_command_id); debug and release builds. Scheduled two-thread runs (one transmitter, one copying '
        'receiver under the deterministic scheduler, access traces compared with the pc-machine model): no / one / two pre-emptions, random bursts, '
        'the record in flight being the first after a padded wrap, and - third round - the receiver stopped at every access inside receive_next while '
        'the transmitter, itself stopped at every access of a transmit, overwrites the record under its cursor or behind `latest` (incl. the family of '
        'the recorded witness of lap-inside-receive-next). The model version (W64 = receive_next as found, W64R = fixes/C08-receive-next-revalidate.diff) '
        'is read from the source of the repository under test. Non-trivial = the receiver is lapped at least once, '
        'or padding is inserted, or the counters pass 2^31; distinct = distinct histories')
ASSUMPTIONS = [
    'one transmitter, one receiver; in the sequential part every transmit / receive runs to completion before the next starts',
    'capacity is a power of two >= 32 (16 and 8 are accepted by check_capacity but a maximal record then overlaps its own padding header)',
    'the tail counter handed over by the driver is a multiple of 8 (record alignment)',
]


LEGAL = list(range(3841, 3851)) + list(range(1, 15))

_VERSION = {}


def version():
    """Which receive_next the repository under test has (K1, read from the source on every run; a wrong answer makes every
    scheduled trace differ): 'W64R' = fixes/C08-receive-next-revalidate.diff applied (the header words are validated before they
    are used: two do_validate calls in receive_next), 'W64' = the code without it."""
    if 'w' not in _VERSION:
        path = os.path.join(core.REPO, 'src', 'concurrent', 'broadcast', 'broadcast_receiver.rs')
        try:
            src = open(path).read()
            body = src[src.index('pub fn receive_next'):src.index('pub fn validate')]
            _VERSION['w'] = 'W64R' if body.count('self.do_validate(') >= 2 else 'W64'
        except (OSError, ValueError):
            _VERSION['w'] = 'W64'
    return _VERSION['w']


# K1 source tie (tools/props/src_translate.py, docs/reports/SRC.md): the fragments of receive_next are keyed to the function as it
# is since fix a146cb8 (C08_src_receive_next_revalidated: assembled, they are the model version W64R)
EXTRA_PROP_FILES = ['Props/C08Src.v']


def mode_c(mode):
    return 'Debug' if mode == 'debug' else 'Release'


def align8(x):
    return (x + 7) // 8 * 8


class Sim:
    """positions only (mirrors Spec/Lossy.v), used to aim bursts at a given backlog"""

    def __init__(self, cap, c0):
        self.cap, self.tail, self.latest, self.nr = cap, c0, c0, c0

    def tx(self, ty, ln):
        if ty < 1 or ln > self.cap // 8:
            return
        al = align8(ln + 8)
        te = self.cap - self.tail % self.cap
        pos = self.tail + te if te < al else self.tail
        self.latest = pos
        self.tail = pos + al

    def backlog(self):
        return self.tail - self.nr


def _c0s(rng, cap, big):
    out = [0, 8, 2**40, 2**40 - 8]
    for base in (2**31, 2**32):
        out += [base - 2 * cap, base - cap - 8, base - cap, base - cap + 8, base - 64, base - 8, base, base + 8, base + cap, base + 2 * cap]
        out += [base - 2 * cap + 8 * rng.randrange(0, cap // 2) for _ in range(4 if big else 2)]
    out += [8 * rng.randrange(0, 2**37) for _ in range(3)]
    return out


def _msg(rng, cap, k):
    mx = cap // 8
    ln = rng.choice([0, 1, 7, 8, 9, mx, mx - 1, rng.randrange(0, mx + 1), rng.randrange(0, mx + 1), rng.randrange(0, min(mx, 24) + 1)])
    ln = max(0, min(mx, ln))
    return [rng.choice(LEGAL), k, ln]


def _history(rng, cap, c0, pattern):
    sim = Sim(cap, c0)
    ops = []
    k = [rng.randrange(0, 1000)]

    def tx(m=None):
        m = m or _msg(rng, cap, k[0])
        k[0] += 1
        ops.append(['T'] + m)
        sim.tx(m[0], m[2])

    def rx_all(extra=1):
        # drain (the positions-only simulation does not track deliveries; receive generously)
        for _ in range(extra):
            ops.append(['R'])

    if pattern == 'pingpong':
        for _ in range(rng.randrange(3, 40)):
            tx()
            ops.append(['R'])
            if rng.random() < 0.2:
                ops.append(['R'])
    elif pattern == 'burst':
        for _ in range(rng.randrange(1, 5)):
            target = rng.choice([cap - 16, cap - 8, cap, cap + 8, cap + 16, 2 * cap, 3 * cap + 8, cap // 2])
            start = sim.tail
            n = 0
            while sim.tail - start < target and n < (60 if cap <= 512 else 24):
                room = target - (sim.tail - start)
                m = _msg(rng, cap, k[0])
                if room <= cap // 8 + 8 and room >= 8:
                    m[2] = max(0, min(cap // 8, room - 8 - rng.randrange(0, 8)))
                tx(m)
                n += 1
            rx_all(rng.randrange(1, n + 3))
    elif pattern == 'random':
        for _ in range(rng.randrange(5, 80)):
            r = rng.random()
            if r < 0.55:
                tx()
            elif r < 0.97:
                ops.append(['R'])
            else:
                ops.append(['D'])
    elif pattern == 'malformed':
        for _ in range(rng.randrange(4, 30)):
            r = rng.random()
            if r < 0.15:
                tx([rng.choice([0, -1, -5, -2**31]), k[0], rng.randrange(0, cap // 8 + 1)])
            elif r < 0.3:
                tx([rng.choice(LEGAL), k[0], cap // 8 + rng.choice([1, 2, 8, cap])])
            elif r < 0.36:
                tx([rng.choice([15, 100, 101, 3840, 3851, 2**31 - 1]), k[0], rng.randrange(0, cap // 8 + 1)])
            elif r < 0.65:
                tx()
            else:
                ops.append(['R'])
    ops.append(['R'])
    ops.append(['D'])
    return ops


def _steps_tx(cap, c0, pre, msgs):
    """number of shared accesses of the transmitter thread (independent of the interleaving)"""
    sim = Sim(cap, c0)
    for m in pre:
        sim.tx(m[0], m[2])
    n = 0
    for m in msgs:
        t0 = sim.tail
        sim.tx(m[0], m[2])
        n += 9 if sim.latest != t0 else 7
    return n


def _conc_configs(rng, big):
    cfgs = []
    for cap in (32, 64):
        mx = cap // 8
        for c0 in (0, 2**31 - cap, 2**31 - 8, 2**40 + 8 * rng.randrange(0, cap // 8)):
            for variant in range(2):
                tys = rng.sample(LEGAL, len(LEGAL))   # distinct types: an empty payload must not make two messages identical
                pre = []
                if variant == 1:
                    pre = [[tys.pop(), 900 + i, rng.randrange(0, mx + 1)] for i in range(rng.randrange(1, 4))]
                nmsg = rng.randrange(3, 7) if cap == 32 else rng.randrange(5, 9)
                msgs = [[tys.pop(), 10 + i, rng.choice([mx, mx, rng.randrange(0, mx + 1)])] for i in range(nmsg)]
                cfgs.append((cap, c0, pre, msgs, rng.randrange(2, 5)))
    return cfgs


def _conc_cases(rng, big):
    cases = []
    for cap, c0, pre, msgs, nrecv in _conc_configs(rng, big):
        nt = _steps_tx(cap, c0, pre, msgs)
        nr = 10 * nrecv
        base = {'kind': 'conc', 'cap': cap, 'c0': c0, 'pre': pre, 'msgs': msgs, 'nrecv': nrecv}
        scheds = [[], [1] * nr]
        # at most one pre-emption: one thread runs a steps, the other runs to completion, the first finishes
        for a in range(1, nt):
            scheds.append([0] * a + [1] * nr)
        for a in range(1, nr):
            scheds.append([1] * a + [0] * nt)
        if big:
            for a in range(1, nt, 3):
                for b in range(1, nr, 3):
                    scheds.append([0] * a + [1] * b + [0] * nt)
            for a in range(1, nr, 3):
                for b in range(1, nt, 3):
                    scheds.append([1] * a + [0] * b + [1] * nr)
        # random schedules with bursts (many pre-emptions)
        for _ in range(80 if big else 12):
            sc = []
            while len(sc) < nt + nr:
                sc += [rng.randrange(0, 2)] * rng.choice([1, 1, 2, 3, 5, 8, 13])
            scheds.append(sc)
        if not big:
            # always keep the schedules that stop the receiver inside its first receive while the transmitter runs to the end
            window = [[1] * a + [0] * nt for a in range(1, 11)] if pre else []
            keep = scheds[:2] + window + rng.sample(scheds[2:], min(len(scheds) - 2, 18))
            scheds = keep
        for sc in scheds:
            cases.append(dict(base, sched=sc))
    return cases


def _lag_cases(rng, big):
    """the receiver sleeps while 2^31 .. 2^33 (+cap) bytes go by: the harness advances the counters (J op)"""
    cases = []
    for cap in (32, 64, 1024):
        deltas = [cap, cap + 8, 4 * cap]
        for base in (2**31, 2**32, 2**33):
            deltas += [base - cap, base - 8, base, base + 8, base + cap - 8, base + cap, base + cap + 8, base + 8 * rng.randrange(1, cap // 8)]
        deltas += [2**31 + 8 * rng.randrange(0, 2**28) for _ in range(2)] + [2**32 - 2**20, 3 * 2**31]
        c0s = [0, 2**31 - cap, 2**40] if big else [rng.choice([0, 2**31 - cap, 2**40])]
        for c0 in c0s:
            for d in deltas:
                k = rng.randrange(0, 500)
                mx = cap // 8
                behind = rng.choice([0, 0, 1, 2])      # receiver caught up, or a little behind, when the jump happens
                ops = []
                for i in range(rng.randrange(1, 4)):
                    ops += [['T', rng.choice(LEGAL), k + i, rng.randrange(0, mx + 1)], ['R']]
                for i in range(behind):
                    ops.append(['T', rng.choice(LEGAL), k + 10 + i, rng.randrange(0, min(mx, 4) + 1)])
                ops.append(['J', d, rng.choice(LEGAL), k + 20, rng.randrange(0, mx + 1)])
                ops += [['R'], ['R'], ['T', rng.choice(LEGAL), k + 30, rng.randrange(0, mx + 1)], ['R'], ['R'], ['D']]
                cases.append({'kind': 'lag', 'cap': cap, 'c0': c0, 'pre': [], 'ops': ops})
    return cases


def _wrap_cases(rng, big):
    """the record in flight is the first one after a padded wrap; the receiver is stopped at every point of its
    receives while the transmitter goes round the buffer (exact fill, then a shorter record at offset 0)"""
    cases = []
    for cap in (32, 64):
        mx = cap // 8
        for c0 in ((0, 2**31 - cap, 2**40) if big else (rng.choice([0, 2**40]),)):
            tys = rng.sample(LEGAL, len(LEGAL))
            full = (cap - 8) // 16                       # 16-byte records, then one 8-byte record: tail offset cap - 8
            pre = [[tys.pop(), 900 + i, mx] for i in range(full)] + [[tys.pop(), 950, 0]]
            # offsets: cap 32: 16 + 8 = 24; cap 64: 48 + 8 = 56
            msgs = [[tys.pop(), 10, mx]]                  # does not fit in 8 bytes: padding, record at offset 0
            msgs += [[tys.pop(), 11 + i, mx] for i in range((cap - 16) // 16)]   # fills the buffer exactly to its end
            msgs += [[tys.pop(), 30, 0], [tys.pop(), 31, mx]]                      # a shorter record at offset 0, then more
            nrecv = 3
            nt_first = 9
            nt = _steps_tx(cap, c0, pre, msgs)
            base = {'kind': 'conc', 'cap': cap, 'c0': c0, 'pre': pre, 'msgs': msgs, 'nrecv': nrecv}
            nfill = (cap - 16) // 16
            for b in range(1, 11 * nrecv):
                # the transmitter stops after filling the buffer to its end / after the short record at offset 0,
                # the receiver finishes, then the transmitter does
                for c in (7 * nfill, 7 * nfill + 7):
                    cases.append(dict(base, sched=[0] * nt_first + [1] * b + [0] * c + [1] * (11 * nrecv)))
    return cases


def _steps_list(cap, c0, pre, msgs):
    """shared accesses of the transmitter thread per message (9 with a padding record, 7 without)"""
    sim = Sim(cap, c0)
    for m in pre:
        sim.tx(m[0], m[2])
    out = []
    for m in msgs:
        t0 = sim.tail
        sim.tx(m[0], m[2])
        out.append(9 if sim.latest != t0 else 7)
    return out


def _lapin_cases(rng, big):
    """the receiver is stopped at every point INSIDE receive_next (after the tail read, after the validation, after the
    read of `latest`, between the header reads) while the transmitter overwrites the record it is looking at - or the
    record `latest` points at - and is itself stopped at every point of a transmit (tail-intent published, record half
    written, `latest` not yet updated ...).  On the code without fixes/C08-receive-next-revalidate.diff many of these runs
    are in the class lap-inside-receive-next; the repaired code must report UnableToKeepUp and recover on all of them."""
    cases = []
    for cap in (32, 64):
        mx = cap // 8
        fill = cap // 16                      # maximal records that fill the buffer
        for c0 in ((0, 2**31 - cap, 2**40 + 8) if big else (rng.choice([0, 2**31 - cap, 2**40 + 8]),)):
            tys = rng.sample(LEGAL, len(LEGAL))
            pre = [[tys.pop(), 900, rng.choice([mx, mx, 0])]]
            nmsg = 2 * fill + 3
            msgs = [[tys.pop(), 10 + i, rng.choice([mx, mx, mx, rng.randrange(0, mx + 1)])] for i in range(nmsg)]
            nrecv = 3
            steps = _steps_list(cap, c0, pre, msgs)
            cum = [0]
            for st in steps:
                cum.append(cum[-1] + st)
            nt = cum[-1]
            base = {'kind': 'conc', 'cap': cap, 'c0': c0, 'pre': pre, 'msgs': msgs, 'nrecv': nrecv}
            hot, cold = [], []
            for j in range(0, nmsg - 1):
                for d in range(0, steps[j]):
                    a = cum[j] + d
                    for b in range(1, 8):
                        for c in range(1, sum(steps[j:j + fill + 2]) + 1):
                            sc = [0] * a + [1] * b + [0] * c + [1] * (13 * nrecv) + [0] * nt
                            # hot: the transmitter is inside a transmit when the receiver looks, the receiver is past its
                            # validation, the transmitter then goes a little further
                            (hot if (2 <= b <= 5 and (d >= 2 or c <= 10)) else cold).append(sc)
            if big:
                pick = rng.sample(hot, min(len(hot), 500)) + rng.sample(cold, min(len(cold), 250))
            else:
                pick = rng.sample(hot, min(len(hot), 36)) + rng.sample(cold, min(len(cold), 12))
            for sc in pick:
                cases.append(dict(base, sched=sc))
    # the family of the recorded witness (found by scanning all schedules of the shape above on the real code): the
    # transmitter is stopped two accesses before the end of a transmit that wraps (record written at offset 0, `latest`
    # still pointing at the record it has just overwritten), the lapped receiver reads `latest` and then a length word
    # that is a payload byte.  Whether the garbage makes the receiver deliver a bogus event depends on the bytes:
    # these (start counter, lengths) do on the code as found.
    for c0, prelen, lens, quick in ((2**40 + 8, 4, [1], [(0, 4, 16), (0, 6, 20)]), (0, 0, [1], [(1, 5, 30), (1, 5, None)]),
                                    (0, 0, [2, 1], [(1, 4, 30)])):
        cap = 32
        pre = [[3847, 900, prelen]]
        tys = [t for t in LEGAL if t != 3847]
        msgs = [[tys[i], 10 + i, lens[i % len(lens)]] for i in range(7)]
        steps = _steps_list(cap, c0, pre, msgs)
        cum = [0]
        for st in steps:
            cum.append(cum[-1] + st)
        nt = cum[-1]
        base = {'kind': 'conc', 'cap': cap, 'c0': c0, 'pre': pre, 'msgs': msgs, 'nrecv': 3}
        fam = []
        for j in range(len(msgs) - 1):
            if steps[j] == 9:
                for b in (4, 5, 6):
                    for c in (list(range(14, 33)) + [nt]):
                        if big or (j, b, c) in quick or (c == nt and (j, b, None) in quick):
                            fam.append([0] * (cum[j] + 7) + [1] * b + [0] * c + [1] * 39 + [0] * nt)
        for sc in fam:
            cases.append(dict(base, sched=sc))
    return cases


def generate(rng, tier):
    big = tier == 'thorough'
    cases = _seq_cases(rng, big)
    cases += _lag_cases(rng, big)
    cases += _conc_cases(rng, big)
    cases += _wrap_cases(rng, big)
    cases += _lapin_cases(rng, big)
    return cases


def _seq_cases(rng, big):
    cases = []
    caps = [32, 64, 64, 128, 128, 256, 512, 1024, 4096]
    reps = 4 if big else 1
    for _ in range(reps):
        for cap in caps:
            for c0 in _c0s(rng, cap, big):
                pats = ['pingpong', 'burst', 'burst', 'random', 'malformed'] if cap <= 512 else ['burst', 'random']
                if cap >= 1024 and not big and rng.random() < 0.6:
                    continue
                for pat in pats:
                    pre = []
                    if rng.random() < 0.25:
                        pre = [_msg(rng, cap, 5000 + i) for i in range(rng.randrange(1, 12))]
                    cases.append({'kind': 'seq', 'cap': cap, 'c0': c0, 'pre': pre, 'ops': _history(rng, cap, c0, pat)})
    # padding at every alignment: tail offset cap-8*j, message needs more than that
    for cap in (64, 128):
        for j in range(1, cap // 8 // 2 + 2):
            for c0 in (0, 2**31 - cap, 2**40):
                first = cap - 8 * j - 8       # one message that leaves 8*j bytes to the end (split when too long)
                ops = []
                k = 0
                while first >= 0:
                    ln = min(first, cap // 8)
                    ops.append(['T', 3841, k, ln])
                    ops.append(['R'])
                    first -= align8(ln + 8)
                    k += 1
                    if first < 0:
                        break
                    first -= 0
                for ln in (0, 8 * j - 8, 8 * j - 7, cap // 8):
                    if 0 <= ln <= cap // 8:
                        cases.append({'kind': 'seq', 'cap': cap, 'c0': c0, 'pre': [],
                                      'ops': ops + [['T', 3842, 77, ln], ['R'], ['R'], ['D']]})
    # the 4096-byte scratch buffer of the copying receiver
    for ln in (4095, 4096, 4097, 8192):
        cases.append({'kind': 'seq', 'cap': 65536, 'c0': 2**31 - 4096, 'pre': [],
                      'ops': [['T', 3841, 1, ln], ['R'], ['T', 3842, 2, 16], ['R'], ['R']]})
    if not big:
        rng.shuffle(cases)
        cases = cases[:900]
    return cases


def impl_line(c):
    if c['kind'] in ('seq', 'lag'):
        parts = ['seq', str(c['cap']), str(c['c0'])]
        parts += ['P%d:%d:%d' % tuple(m) for m in c['pre']]
        for o in c['ops']:
            parts.append('T%d:%d:%d' % tuple(o[1:]) if o[0] == 'T' else 'J%d:%d:%d:%d' % tuple(o[1:]) if o[0] == 'J' else o[0])
        return ' '.join(parts)
    if c['kind'] == 'conc':
        parts = ['conc', str(c['cap']), str(c['c0']), str(c['nrecv']), ','.join(str(t) for t in c['sched']) or '-']
        parts += ['P%d:%d:%d' % tuple(m) for m in c['pre']]
        parts += ['M%d:%d:%d' % tuple(m) for m in c['msgs']]
        return ' '.join(parts)
    raise ValueError(c)


def _msgs_coq(ms):
    return '[' + '; '.join('(%s, payload %s %s)' % (z(m[0]), z(m[1]), z(m[2])) for m in ms) + ']'


def normalize(o):
    if o == ('app', 'Crash', []):
        return ('app', 'CCrash', [])
    return o


def _ops_coq(c):
    items = []
    for o in c['ops']:
        if o[0] == 'T':
            items.append('Transmit %s (payload %s %s)' % (z(o[1]), z(o[2]), z(o[3])))
        elif o[0] == 'R':
            items.append('Receive')
        else:
            items.append('Dump')
    return '[' + '; '.join(items) + ']'


def _jops_coq(c):
    items = []
    for o in c['ops']:
        if o[0] == 'T':
            items.append('JOp (Transmit %s (payload %s %s))' % (z(o[1]), z(o[2]), z(o[3])))
        elif o[0] == 'J':
            items.append('JJump %s %s (payload %s %s)' % (z(o[1]), z(o[2]), z(o[3]), z(o[4])))
        elif o[0] == 'R':
            items.append('JOp Receive')
        else:
            items.append('JOp Dump')
    return '[' + '; '.join(items) + ']'


def _pre_coq(c):
    return '[' + '; '.join('(%s, payload %s %s)' % (z(m[0]), z(m[1]), z(m[2])) for m in c['pre']) + ']'


def model_expr(c, mode):
    if c['kind'] == 'seq':
        return 'map show_obs (run_history %s %s true %s %s %s %s)' % (mode_c(mode), version(), z(c['cap']), z(c['c0']), _pre_coq(c), _ops_coq(c))
    if c['kind'] == 'lag':
        return 'map show_obs (jrun_history %s %s true %s %s %s %s)' % (mode_c(mode), version(), z(c['cap']), z(c['c0']), _pre_coq(c), _jops_coq(c))
    if c['kind'] == 'conc':
        return 'show_conc %s (run_conc %s %s true %s %s %s %s %d%%nat %s)' % (
            z(c['cap']), mode_c(mode), version(), z(c['cap']), z(c['c0']), _msgs_coq(c['pre']), _msgs_coq(c['msgs']), c['nrecv'],
            '[' + '; '.join(str(t) for t in c['sched']) + ']')
    raise ValueError(c)


def oracle_expr(c, mode, obs):
    if c['kind'] == 'seq':
        if isinstance(obs, int) or obs[0] != 'list':
            return 'false'
        return 'holds_seq %s %s %s %s %s' % (z(c['cap']), z(c['c0']), _pre_coq(c), _ops_coq(c), to_coq(obs))
    if c['kind'] == 'lag':
        if isinstance(obs, int) or obs[0] != 'list':
            return 'false'
        return 'holds_jseq %s %s %s %s %s' % (z(c['cap']), z(c['c0']), _pre_coq(c), _jops_coq(c), to_coq(obs))
    if c['kind'] == 'conc':
        if isinstance(obs, int) or obs[0] != 'app' or obs[1] not in ('CObs', 'CCrash'):
            return 'false'
        return 'holds_conc %s %s %s %s' % (z(c['cap']), _msgs_coq(c['pre']), _msgs_coq(c['msgs']), to_coq(obs))
    raise ValueError(c)


_KC_CACHE = {}


def known_class(c, mode, obs):
    """lap-inside-receive-next: receive_next of the code without fixes/C08-receive-next-revalidate.diff read a header word
    while a validation of the record it belongs to would have failed (ghost flag h_in of Proofs/BroadcastOrder.v is true
    on this schedule) - exactly the runs C08_interleaved excludes.  The repaired code is never in the class
    (C08_interleaved_repaired holds on every schedule)."""
    if c.get('kind') != 'conc' or version() != 'W64':
        return None
    key = (json.dumps(c, sort_keys=True), mode)
    if 'built' not in _KC_CACHE:
        # the ghost run lives with the proofs; if they do not build (broken K1 tables) no run can be excused as known
        _KC_CACHE['built'] = core.coq_build(['Proofs/BroadcastOrder.vo'])[0]
    if not _KC_CACHE['built']:
        return None
    if key not in _KC_CACHE:
        fuel = 13 * (len(c['msgs']) + c['nrecv']) + 13
        e = ('h_in (hrun %s %s true W64 (hinit %s %s %s %s %d%%nat) (%s ++ repeat 0 %d%%nat ++ repeat 1 %d%%nat))' % (
            z(c['cap']), mode_c(mode), z(c['cap']), z(c['c0']), _msgs_coq(c['pre']), _msgs_coq(c['msgs']), c['nrecv'],
            '[' + '; '.join(str(t) for t in c['sched']) + ']', fuel, fuel))
        tag = 'C08_kc_%s' % hashlib.sha1(key[0].encode()).hexdigest()[:12]
        v = core.coq_eval(tag, IMPORTS + ' Require Import V.Proofs.BroadcastThreadsProofs. Require Import V.Proofs.BroadcastOrder.', [e])
        _KC_CACHE[key] = (v[0] == ('app', 'true', []))
    return 'lap-inside-receive-next' if _KC_CACHE[key] else None


def nontrivial(c):
    if c['kind'] == 'lag':
        return True
    if c['kind'] == 'seq':
        cap = c['cap']
        sim = Sim(cap, c['c0'])
        for m in c['pre']:
            sim.tx(m[0], m[2])
        sim.nr = sim.latest
        pad = lap = False
        for o in c['ops']:
            if o[0] == 'T':
                t0 = sim.tail
                sim.tx(o[1], o[3])
                if sim.latest != t0 and sim.tail != t0:
                    pad = True
            elif o[0] == 'R':
                if sim.backlog() >= cap:
                    lap = True
                sim.nr = sim.tail   # coarse
        return pad or lap or sim.tail >= 2**31
    return True


def shrink(c):
    out = []
    if c['kind'] == 'conc':
        sc = c['sched']
        for i in range(len(sc)):
            out.append(dict(c, sched=sc[:i] + sc[i + 1:]))
        if len(c['msgs']) > 1:
            out.append(dict(c, msgs=c['msgs'][:-1]))
        if c['nrecv'] > 1:
            out.append(dict(c, nrecv=c['nrecv'] - 1))
        if c['pre']:
            out.append(dict(c, pre=c['pre'][:-1]))
        out.sort(key=lambda x: len(str(x)))
        return out
    ops = c['ops']
    for i in range(len(ops)):
        out.append(dict(c, ops=ops[:i] + ops[i + 1:]))
    if c['pre']:
        out.append(dict(c, pre=c['pre'][:-1]))
        out.append(dict(c, pre=[]))
    for i, o in enumerate(ops):
        if o[0] == 'T' and o[3] > 0:
            out.append(dict(c, ops=ops[:i] + [[o[0], o[1], o[2], 0]] + ops[i + 1:]))
    out.sort(key=lambda x: len(str(x)))
    return out
