"""K1 tables shared by C13 and C14 (regenerated from the repository on every run):

  Generated/GenCommands.v  the AeronCommand enum as compiled: variant list, `as i32` of every variant,
                           and the partial map AeronCommand::from_command_id computes (runtime dump of
                           harness/vconsts --commands over a scanned id range; ids that panic are absent)
  Generated/GenLayout.v    field offsets and sizes of the `#[repr(C, packed(4))]` overlay structs in
                           src/command/*.rs, computed from the *source* by the rule of repr(C, packed(4))
                           (field alignment = min(natural alignment, 4)), cross-checked against the sizes
                           the compiler reports (the public *_LENGTH constants dumped in GenConsts.v)
"""
import glob
import os
import re

from vlib import core


def _z(n):
    return '(%d)' % n if n < 0 else '%d' % n


def gen_commands():
    rc, out = core.sh([core.harness_bin('vconsts'), '--commands'], timeout=120)
    if rc != 0:
        return False, 'vconsts --commands failed: ' + out[-400:]
    variants, rows, scan = [], [], None
    for l in out.strip().split('\n'):
        p = l.split()
        if p[0] == 'VARIANT' and len(p) == 3:
            variants.append((p[1], int(p[2])))
        elif p[0] == 'FROM' and len(p) == 3:
            rows.append((int(p[1]), p[2]))
        elif p[0] == 'SCAN' and len(p) == 3:
            scan = (int(p[1]), int(p[2]))
        else:
            return False, 'vconsts --commands: unparsable line %r' % l
    if not variants or scan is None:
        return False, 'vconsts --commands: empty dump'
    names = [v for v, _ in variants]
    for _, v in rows:
        if v not in names:
            return False, 'from_command_id returned a variant outside the dumped list: ' + v
    L = ['(* GENERATED on every run by tools/props/wire_k1.py from the compiled crate (harness/vconsts --commands). *)',
         'Require Import ZArith List.', 'Import ListNotations.', 'Open Scope Z_scope.', '',
         '(* enum AeronCommand, src/command/control_protocol_events.rs *)',
         'Inductive cmd : Set :=', '  ' + '\n  '.join('| ' + n for n in names) + '.', '',
         'Definition all_commands : list cmd :=', '  [' + '; '.join(names) + '].', '',
         '(* `variant as i32` *)',
         'Definition to_id (c : cmd) : Z :=', '  match c with',
         ] + ['  | %s => %s' % (n, _z(v)) for n, v in variants] + ['  end.', '',
         '(* AeronCommand::from_command_id: ids %d..%d were all tried (plus a few far ones); an id not listed panicked *)' % scan,
         'Definition from_id_scan_lo : Z := %s.' % _z(scan[0]),
         'Definition from_id_scan_hi : Z := %s.' % _z(scan[1]),
         'Definition from_id_rows : list (Z * cmd) :=', '  [' + ';\n   '.join('(%s, %s)' % (_z(i), v) for i, v in rows) + '].', '']
    core.write_if_changed(os.path.join(core.COQ, 'Generated', 'GenCommands.v'), '\n'.join(L))
    return True, '%d command variants, %d from_command_id rows' % (len(variants), len(rows))


_PRIM = {'i8': (1, 1), 'u8': (1, 1), 'i16': (2, 2), 'u16': (2, 2), 'i32': (4, 4), 'u32': (4, 4), 'i64': (8, 8), 'u64': (8, 8)}


def parse_structs(src_dir):
    """{name: (pack, [(field, type)])} for every #[repr(C, packed(N))] struct of src/command."""
    structs = {}
    for f in sorted(glob.glob(os.path.join(src_dir, '*.rs'))):
        s = open(f).read()
        s = re.sub(r'/\*.*?\*/', '', s, flags=re.S)
        s = re.sub(r'//[^\n]*', '', s)
        for m in re.finditer(r'#\[repr\(C,\s*packed\((\d+)\)\)\]\s*(?:#\[[^\]]*\]\s*)*(?:pub(?:\([a-z]+\))?\s+)?struct\s+(\w+)\s*\{([^}]*)\}', s):
            pack, name, body = int(m.group(1)), m.group(2), m.group(3)
            fields = []
            for fm in re.finditer(r'(?:pub(?:\([a-z]+\))?\s+)?(\w+)\s*:\s*([^,\n]+)', body):
                fields.append((fm.group(1), fm.group(2).strip()))
            structs[name] = (pack, fields)
    return structs


def layout(structs):
    """sizes/alignments/offsets by the rules of repr(C, packed(N))."""
    done = {}

    def size_align(ty):
        ty = ty.strip()
        if ty in _PRIM:
            return _PRIM[ty]
        m = re.match(r'\[\s*(\w+)\s*;\s*(\d+)\s*\]$', ty)
        if m:
            s, a = size_align(m.group(1))
            return s * int(m.group(2)), a
        if ty in structs:
            return struct(ty)[0:2]
        raise ValueError('unknown field type %r' % ty)

    def struct(name):
        if name in done:
            return done[name]
        pack, fields = structs[name]
        off, offs, align = 0, [], 1
        for fname, ty in fields:
            s, a = size_align(ty)
            a = min(a, pack)
            off = (off + a - 1) // a * a
            offs.append((fname, off, s))
            off += s
            align = max(align, a)
        size = (off + align - 1) // align * align
        done[name] = (size, align, offs)
        return done[name]

    for n in structs:
        struct(n)
    return done


# struct -> name of its public size constant in GenConsts.v (the compiler's size_of)
_SIZE_CONSTS = {
    'ClientTimeoutDefn': 'CLIENT_TIMEOUT_LENGTH', 'CorrelatedMessageDefn': 'CORRELATED_MESSAGE_LENGTH',
    'CounterMessageDefn': 'COUNTER_MESSAGE_LENGTH', 'CounterUpdateDefn': 'COUNTER_READY_LENGTH',
    'ImageBuffersReadyDefn': 'IMAGE_BUFFERS_READY_LENGTH', 'OperationSucceededDefn': 'OPERATION_SUCCEEDED_LENGTH',
    'RemoveMessageDefn': 'REMOVE_MESSAGE_LENGTH', 'SubscriptionReadyDefn': 'SUBSCRIPTION_READY_LENGTH',
    'TerminateDriverDefn': 'TERMINATE_DRIVER_LENGTH',
}


def gen_layout():
    try:
        structs = parse_structs(os.path.join(core.REPO, 'src', 'command'))
        lay = layout(structs)
    except Exception as e:      # noqa
        return False, 'struct layout translation failed: %r' % (e,)
    if not lay:
        return False, 'no packed structs found under src/command'
    # cross-check against the compiler
    consts = {}
    try:
        for l in open(os.path.join(core.COQ, 'Generated', 'GenConsts.v')):
            m = re.match(r'Definition (\w+) : Z := \(?(-?\d+)\)?\.', l)
            if m:
                consts[m.group(1)] = int(m.group(2))
    except FileNotFoundError:
        pass
    bad = []
    for sname, cname in _SIZE_CONSTS.items():
        if sname in lay and cname in consts and lay[sname][0] != consts[cname]:
            bad.append('%s: computed %d, compiler %d' % (sname, lay[sname][0], consts[cname]))
    L = ['(* GENERATED on every run by tools/props/wire_k1.py from src/command/*.rs (repr(C, packed(4)) overlay structs). *)',
         'Require Import ZArith.', 'Open Scope Z_scope.', '']
    n = 0
    for sname in sorted(lay):
        size, align, offs = lay[sname]
        L.append('(* struct %s *)' % sname)
        L.append('Definition SIZEOF_%s : Z := %d.' % (sname, size))
        for fname, off, s in offs:
            L.append('Definition OFF_%s_%s : Z := %d.' % (sname, fname, off))
            n += 1
        L.append('')
    core.write_if_changed(os.path.join(core.COQ, 'Generated', 'GenLayout.v'), '\n'.join(L))
    if bad:
        return False, 'struct sizes computed from the source differ from size_of: ' + '; '.join(bad)
    return True, '%d structs, %d field offsets' % (len(lay), n)


K1_TABLES = [gen_commands, gen_layout]
