"""K1 generator of coq/Generated for the area 'sub' of the general source translator (tools/props/src_translate.py)."""
from props import src_translate


def generate():
    return src_translate.generate_area('sub')


TABLES = [generate]
