"""C02 - concurrent publishers never overlap, lose or reorder each other's messages."""
import os
import random

from vlib import core
from vlib.term import to_coq, z

ID = 'C02'
PROP_FILE = 'Props/C02.v'
EXTRA_PROP_FILES = ['Props/C02Atomic.v']     # K1: fetch-add / CAS accessors are one atomic RMW each (ordering table from the source)
EVAL_FILES = ['Oracle/C02Oracle.v', 'Oracle/C02SoloOracle.v']
CRATES = ['c02']
MODES = ['debug']
IMPORTS = ('Require Import V.Base.MachineInt V.Model.LogBase V.Model.Descriptor V.Model.Sched V.Model.AppenderThreads '
           'V.Oracle.C02Oracle V.Oracle.C02SoloOracle.')
PER_CASE_TIMEOUT = 5.0
RULE = ('2-3 publisher threads (each with its own Publication handle over one in-memory log of 1 KiB / 2 KiB / 4 KiB terms) x 1-4 '
        'messages (unfragmented, fragmented, term-end tripping, several tripping together; lengths 0..max message length and one '
        'too long) under the deterministic H2 scheduler: every schedule with at most one pre-emption (quick) / two pre-emptions '
        '(thorough) of 2 publishers x 1-2 messages, plus random schedules; initial term ids include the i32 wrap; the log is handed '
        'over at term counts 0/1/2/7 and offsets that put the term end within reach; an environment thread moves the publication '
        'limit in some cases. Compared: the trace of shared accesses (accessor, region, offset, length, operands, value read), the '
        'per-attempt results of every thread and the final dump (count, raw tails, every non-zero word of the three partitions). '
        'A case is non-trivial when at least two publishers are pre-empted at least once; distinct = distinct (geometry, messages, schedule). '
        'Single-publisher cases (kind solo) are additionally checked against the SEQUENTIAL model of C01/C04 (theorem C02_collapse): '
        'results and dump of the concurrent harness = Publication.pub_offer folded over the message list')
ASSUMPTIONS = [
    'interleavings are sequentially consistent at the granularity of the accesses hook H2 reports (one AtomicBuffer accessor call = one step)',
    'media driver contract (DESIGN 4.5): a partition is zero when the log rotates into it and no publisher still holds an uncommitted '
    'claim in it (flow control: limit within one term of the slowest uncommitted frame); the generated cases keep the limit '
    '<= (n0+2) * term length so that no partition is reused',
    'raw tail offsets stay below 2^32 (the number of claims in flight past a term end is bounded) and the term count below 2^30',
    'MTU is a multiple of 32; message length <= term length / 8 unless the case is the TooLong one',
    'known finding stalled3: a publisher parked between reading the raw tail and its get_and_add while the log rotates 3 times panics '
    'and leaves a claimed, never written range',
]
TRUSTED = ['deterministic scheduler harness/vcommon/src/sched.rs on hook H2 (src/verif_hook.rs): the trace is what the accessors report']


def coq_nat_list(xs):
    return '[' + '; '.join(str(x) for x in xs) + ']%nat'


def cfg_expr(c):
    return '(mkCfg %s %s %s 11 22 %s %s)' % (z(c['init']), z(c['bits']), z(c['mtu']), z(c['n0']), z(c['off0']))


def thread_expr(t):
    if t['k'] == 'P':
        return 'pub %d [%s]' % (t['budget'], '; '.join('payload %s %s' % (z(k), z(l)) for k, l in t['msgs']))
    if t['k'] == 'E':
        return 'env [%s]' % '; '.join(('SetLimit %s' % z(v)) if o == 'L' else ('Clean %s' % z(v)) for o, v in t['ops'])
    raise ValueError(t)


def offers_expr(c):
    return '[' + '; '.join('[' + '; '.join('payload %s %s' % (z(k), z(l)) for k, l in t['msgs']) + ']' if t['k'] == 'P' else '[]'
                           for t in c['threads']) + ']'


def stops_expr(c):
    st = c.get('stops') or []
    return '[' + '; '.join('None' if s is None else 'Some %d%%nat' % s for s in st) + ']'


def impl_line(c):
    parts = ['run', 'bits=%d' % c['bits'], 'mtu=%d' % c['mtu'], 'init=%d' % c['init'], 'n0=%d' % c['n0'], 'off0=%d' % c['off0'],
             'limit=%d' % c['limit']]
    for t in c['threads']:
        if t['k'] == 'P':
            parts.append('T=P:%d:%s' % (t['budget'], ','.join('%dx%d' % (k, l) for k, l in t['msgs'])))
        else:
            parts.append('T=E:%s' % ','.join('%s%d' % (o, v) for o, v in t['ops']))
    parts.append('S=' + ','.join(str(x) for x in c['sched']))
    st = c.get('stops') or []
    if st:
        parts.append('K=' + ','.join('-' if s is None else str(s) for s in st))
    return ' '.join(parts)


def model_expr(c, mode):
    return 'run_case %s %s [%s] %s %s' % (cfg_expr(c), z(c['limit']), '; '.join(thread_expr(t) for t in c['threads']),
                                          coq_nat_list(c['sched']), stops_expr(c))


def is_solo(c):
    """exactly one thread, a publisher, no crash point: the collapse check (theorem C02_collapse) applies"""
    return (len(c['threads']) == 1 and c['threads'][0]['k'] == 'P' and not any(s is not None for s in (c.get('stops') or []))
            and c['mtu'] <= 2 ** 28)


def oracle_expr(c, mode, obs):
    if obs[0] != 'tuple':
        return 'false'
    e = 'holds_C02 %s %s %s' % (cfg_expr(c), offers_expr(c), to_coq(obs))
    if is_solo(c):
        # the implementation run alone must also agree with the SEQUENTIAL model of C01 / C04 (Publication.pub_offer folded
        # over the message list with the thread's retry loop)
        t = c['threads'][0]
        msgs = '[' + '; '.join('payload %s %s' % (z(k), z(l)) for k, l in t['msgs']) + ']'
        e = '(%s) && solo_ok %s %s %s %d%%nat %s %s' % (e, 'Debug' if mode == 'debug' else 'Release', cfg_expr(c), msgs, t['budget'],
                                                        z(c['limit']), to_coq(obs))
    return e


def nontrivial(c):
    pubs = [i for i, t in enumerate(c['threads']) if t['k'] == 'P' and t['msgs']]
    if len(pubs) < 2:
        return False
    s = [x for x in c['sched'] if x in pubs]
    return any(a != b for a, b in zip(s, s[1:]))


_known_cache = {}


def known_class(c, mode, obs):
    """stalled3: decided by the Coq predicate KnownClass_stalled3 on the implementation's trace."""
    if obs[0] != 'tuple' or 'Panicked' not in to_coq(obs[1][1]):
        return None          # cheap pre-filter: the class always ends with a panicked publisher
    key = to_coq(obs[1][0])
    if key not in _known_cache:
        try:
            v = core.coq_eval('C02_known_%d' % (len(_known_cache) % 8), IMPORTS, ['KnownClass_stalled3 %s' % key])
            _known_cache[key] = v[0] == ('app', 'true', [])
        except Exception:
            _known_cache[key] = False
    return 'stalled3' if _known_cache[key] else None


# ----------------------------------------------------------------------------------------------
# generators

def steps_upper(c, t):
    """generous upper bound of the number of shared accesses of thread t"""
    if t['k'] == 'E':
        return len(t['ops'])
    mp = c['mtu'] - 32
    n = 0
    for k, l in t['msgs']:
        frags = 1 if l <= mp else (l + mp - 1) // mp
        n += 4 + 6 * frags
    return n + t['budget'] * 4 + 12


def base_case(rng, bits=None, npub=2, nmsg=None, env=False, near_end=None):
    bits = bits or rng.choice([10, 10, 11, 12])
    tl = 1 << bits
    mtu = rng.choice([64, 96, 128, 256])
    init = rng.choice([5, 0, -3, 2**31 - 2, 2**31 - 1, -2**31, rng.randrange(-2**31, 2**31)])
    # term counts far from 0 as well: stream positions beyond 2^31 and 2^32 (term count <= 2^30 is the model's domain)
    n0 = rng.choice([0, 0, 1, 2, 7, 2**21, 2**21 + 1, 2**22 + 5, 2**26, 2**30 - 3])
    if near_end is None:
        near_end = rng.random() < 0.6
    maxm = tl // 8
    lens_pool = [0, 1, 31, 32, 33, 40, 64, 96, maxm - 1, maxm, mtu - 32, mtu - 31, mtu]
    threads = []
    kid = 1
    total = 0
    for p in range(npub):
        m = nmsg or rng.choice([1, 1, 2, 2, 3, 4])
        msgs = []
        for _ in range(m):
            l = rng.choice(lens_pool) if rng.random() < 0.8 else rng.randrange(0, maxm + 1)
            l = max(0, min(l, maxm))
            msgs.append([kid, l])
            kid += 1
            total += ((l + 32 + 31) // 32) * 32 + 64
        threads.append({'k': 'P', 'budget': m + rng.choice([1, 2, 3]), 'msgs': msgs})
    off0 = 0
    if near_end:
        back = rng.choice([32, 64, 96, 128, 160, 256, total // 2 // 32 * 32 + 32])
        off0 = max(0, tl - back)
    limit = rng.choice([(n0 + 2) * tl, (n0 + 2) * tl, (n0 + 1) * tl, n0 * tl + off0 + rng.choice([32, 64, 200]), n0 * tl + off0])
    c = {'kind': 'rand', 'bits': bits, 'mtu': mtu, 'init': init, 'n0': n0, 'off0': off0, 'limit': limit, 'threads': threads,
         'sched': [], 'stops': []}
    if env:
        c['threads'].append({'k': 'E', 'ops': [['L', (n0 + 2) * tl], ['L', n0 * tl + off0 + 64]][:rng.choice([1, 2])]})
    return c


def random_schedule(rng, c):
    pool = []
    for i, t in enumerate(c['threads']):
        pool += [i] * steps_upper(c, t)
    style = rng.random()
    if style < 0.5:
        rng.shuffle(pool)
        return pool
    # bursty: runs of random length
    out = []
    n = len(c['threads'])
    total = len(pool)
    while len(out) < total:
        t = rng.randrange(n)
        out += [t] * rng.choice([1, 1, 2, 3, 5, 8, 13])
    return out[:total + 20]


def preempt_schedules(c, k):
    """all schedules of the publisher threads with at most k pre-emptions (a pre-empted thread is resumed after the
    others finished, which the scheduler does by itself when the schedule is exhausted)"""
    n = len(c['threads'])
    ub = [steps_upper(c, t) for t in c['threads']]
    out = []
    order0 = list(range(n))
    for first in range(n):
        others = [t for t in order0 if t != first]
        # 0 pre-emptions: first runs to completion, then the others in id order
        out.append([first] * ub[first] + sum(([t] * ub[t] for t in others), []))
        if k >= 1:
            for i in range(0, ub[first]):
                for second in others:
                    rest = [t for t in others if t != second]
                    base = [first] * i + [second] * ub[second] + sum(([t] * ub[t] for t in rest), [])
                    out.append(base)           # then `first` resumes by default
                    if k >= 2:
                        for j in range(0, ub[second], 2):
                            out.append([first] * i + [second] * j + [first] * ub[first] + [second] * ub[second])
    return out


def stalled3_case(bits=10):
    """DESIGN section 9 #17: A parked between reading the tail and its get_and_add, B fills three terms, A resumes"""
    tl = 1 << bits
    per = tl // 128
    msgs = [[k, 96] for k in range(2, 2 + 3 * per)]
    return {'kind': 'stalled3', 'bits': bits, 'mtu': 256, 'init': 5, 'n0': 0, 'off0': 0, 'limit': 10 * tl,
            'threads': [{'k': 'P', 'budget': 1, 'msgs': [[1, 40]]}, {'k': 'P', 'budget': 3 * per + 3, 'msgs': msgs + [[99, 96]]}],
            'sched': [0, 0, 0] + [1] * (3 * per * 10 + 60), 'stops': []}


def late_cas_case(bits=10, park=10, n0=0, init=5):
    """A trips the term end and is parked right before its CAS on the active term count (after its CAS on the next tail);
    B completes that rotation, fills the next term and rotates again; then A resumes: its CAS must fail and change nothing"""
    tl = 1 << bits
    per = tl // 128
    return {'kind': 'latecas', 'bits': bits, 'mtu': 256, 'init': init, 'n0': n0, 'off0': tl - 64, 'limit': (n0 + 3) * tl,
            'threads': [{'k': 'P', 'budget': 1, 'msgs': [[1, 64]]},
                        {'k': 'P', 'budget': per + 5, 'msgs': [[k, 96] for k in range(2, 2 + per)] + [[98, 96], [99, 40]]}],
            'sched': [0] * park + [1] * (per * 12 + 80), 'stops': []}


def generate(rng, tier):
    big = tier == 'thorough'
    cases = []
    # (1) exhaustive small scope: 2 publishers x 1-2 messages, all schedules with <= 1 (quick) / <= 2 (thorough) pre-emptions
    small = []
    for (bits, mtu, off_back, l1, l2, n0, init, lim_terms) in [
            (10, 256, 0, [40], [10], 0, 5, 2),                  # plain
            (10, 256, 96, [40], [10], 0, 5, 2),                 # second one trips the term end
            (10, 256, 64, [40], [40], 1, 2**31 - 2, 2),         # both trip together, term id wraps
            (10, 64, 0, [100], [70], 0, -3, 2),                 # fragmented
            (10, 64, 160, [100], [10, 20], 2, 0, 2),            # fragmented message trips, two messages
            (10, 256, 32, [0], [1], 7, 5, 2),                   # tiny frames exactly filling / tripping
            (10, 256, 128, [96], [96, 33], 0, 2**31 - 1, 1),    # limit at the end of the term
    ]:
        tl = 1 << bits
        c = {'kind': 'preempt', 'bits': bits, 'mtu': mtu, 'init': init, 'n0': n0, 'off0': tl - off_back if off_back else 0,
             'limit': (n0 + lim_terms) * tl,
             'threads': [{'k': 'P', 'budget': len(l1) + 2, 'msgs': [[i + 1, l] for i, l in enumerate(l1)]},
                         {'k': 'P', 'budget': len(l2) + 2, 'msgs': [[i + 11, l] for i, l in enumerate(l2)]}],
             'sched': [], 'stops': []}
        small.append(c)
    for c in small if big else small[:4]:
        for s in preempt_schedules(c, 2 if big else 1):
            d = dict(c)
            d['sched'] = s
            cases.append(d)
    # (2) random schedules: 2-3 publishers x 1-4 messages
    nrand = 6000 if big else 260
    for i in range(nrand):
        c = base_case(rng, npub=rng.choice([2, 2, 3]), env=(i % 7 == 0))
        c['sched'] = random_schedule(rng, c)
        cases.append(c)
    # (3) several publishers tripping the same term end together
    for i in range(200 if big else 30):
        bits = rng.choice([10, 11])
        tl = 1 << bits
        c = base_case(rng, bits=bits, npub=3, nmsg=1, near_end=True)
        c['off0'] = tl - rng.choice([32, 64, 96])
        c['limit'] = (c['n0'] + 2) * tl
        for t in c['threads']:
            t['msgs'][0][1] = rng.choice([40, 96, 100, 128])
            t['budget'] = 3
        # everybody up to (and including) the get_and_add, then random
        c['sched'] = [0, 1, 2] * 4 + random_schedule(rng, c)
        c['kind'] = 'trip'
        cases.append(c)
    # (4) one too-long message and a malformed stream (zero budget, empty message lists, schedules naming absent threads)
    for i in range(30 if big else 8):
        c = base_case(rng, bits=10, npub=2)
        c['mtu'] = 64
        c['threads'][0]['msgs'][0][1] = 129 + i
        c['threads'][1]['budget'] = rng.choice([0, 1])
        if i % 2:
            c['threads'][1]['msgs'] = []
        c['sched'] = [5, 7] + random_schedule(rng, c)
        c['kind'] = 'malformed'
        cases.append(c)
    # (5) a rotator parked inside rotate_log while the others rotate again (every park point of the rotation)
    for park in (8, 9, 10):
        cases.append(late_cas_case(park=park))
    cases.append(late_cas_case(bits=11, park=10, n0=2, init=2**31 - 2))
    # (6) the known finding
    cases.append(stalled3_case())
    # (7) one publisher alone (collapse onto the sequential model): unfragmented / fragmented / too long messages, term-end
    #     trips with and without padding, up to two rotations, back pressure
    for i in range(400 if big else 40):
        bits = rng.choice([10, 10, 11])
        tl = 1 << bits
        c = base_case(rng, bits=bits, npub=1, nmsg=rng.choice([2, 3, 4, 6, 9]))
        t = c['threads'][0]
        if i % 3 == 0:          # fill the term: many middle-sized messages, the limit two terms ahead
            t['msgs'] = [[k + 1, rng.choice([96, 100, 128, tl // 8, tl // 8 - 1])] for k in range(rng.choice([8, 12, 20]))]
            c['off0'] = rng.choice([0, tl - 256, tl - 64, tl - 32])
            c['limit'] = (c['n0'] + 2) * tl
        if i % 5 == 0:
            t['msgs'][0][1] = tl // 8 + 1 + i      # TooLong (fragmented) or just long
        t['budget'] = len(t['msgs']) + rng.choice([0, 1, 3])
        c['sched'] = [0] * rng.choice([0, 3, 40])
        c['kind'] = 'solo'
        cases.append(c)
    return cases


def shrink(c):
    out = []
    s = c['sched']
    for cut in (len(s) // 2, len(s) - 1):
        if 0 <= cut < len(s):
            d = dict(c)
            d['sched'] = s[:cut]
            out.append(d)
    for ti, t in enumerate(c['threads']):
        if t['k'] == 'P' and len(t['msgs']) > 1:
            d = dict(c)
            d['threads'] = [dict(x) for x in c['threads']]
            d['threads'][ti]['msgs'] = t['msgs'][:-1]
            out.append(d)
    if len(c['threads']) > 2:
        d = dict(c)
        d['threads'] = c['threads'][:-1]
        d['sched'] = [x for x in s if x < len(d['threads'])]
        out.append(d)
    return out


def neighbours(c, rng):
    out = []
    for _ in range(20):
        d = dict(c)
        d['sched'] = random_schedule(rng, c)
        out.append(d)
    return out

K1_DEPENDS = ['c03_translate']   # source/runtime tables this property rests on (tools/vlib/runner.py)
