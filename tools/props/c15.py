"""C15 - counters: ids unique while live, reuse waits for the cool-down, reads are total."""
import itertools

from vlib.term import z, to_coq

ID = 'C15'
PROP_FILE = 'Props/C15.v'
EXTRA_PROP_FILES = ['Props/C15Src.v']     # K1 source tie (tools/props/src_translate.py), see docs/reports/SRC.md
EVAL_FILES = ['Oracle/C15Oracle.v']
CRATES = ['c15']
MODES = ['debug', 'release']
IMPORTS = 'Require Import V.Base.MachineInt V.Model.Counters V.Oracle.C15Oracle.'
RULE = ('histories of allocate_opt / free / set_counter_value / clock-set / dump on a CountersManager over fresh buffers of nm x 512 and '
        'nv x 128 bytes (nm, nv independent). quick: every word of length <= 3 over a 10-letter alphabet {alloc plain, alloc with key, '
        'alloc via a key callback that takes a reader snapshot (for_each ids + counter_state of the id being allocated) while it runs, alloc label 381, alloc key 113, free lowest / highest live, set value, clock to deadline-1, clock to '
        'deadline} on 4 slot-count pairs from 1..3 (thorough: length <= 4 on 8 pairs from 1..4), each ending in a dump; every word of length 4..5 over {alloc, free lowest, late write on the freed id, clock to deadline} on (1,1) and (2,2); plus 72 random histories '
        'of 10..200 operations on 1..16 slots (cool-down 0, 1, 10, 1000, 2^62; labels of 0, 1, 379..381 bytes or with a NUL, 15 % multi-byte UTF-8 labels (2-, 3-, 4-byte characters) of 376..384 bytes or 380 characters; keys of '
        '0, 8, 111..113 bytes by slice, by callback or both; values 0, 1, 2^63, 2^64-1, written through the manager or an UnsafeBufferPosition, one third of them late writes on freed ids during the cool-down; clock moved to just before / at / after a pending '
        'deadline, or backwards) with a dump every few operations and at the end. ids for free/set are taken from a reference '
        'simulation of the live set, so the history stays inside the API contract. At every dump all four reader accessors are called '
        'with ids i32::MIN, -1, 0..max(nm,nv)+1, i32::MAX, for_each and iter are collected, both look-ups of heartbeat_timestamp.rs '
        'are tried for every enumerated counter, and both raw buffers are compared word for word with the model. '
        'A history is non-trivial when it frees a counter and allocates again afterwards, or has an allocation that fails')
ASSUMPTIONS = [
    'buffer capacities are exact multiples of the record lengths (nm x 512, nv x 128) and nm*512+512, nv*128+128 fit i32',
    'free is applied to live ids only, value writes to live ids or to freed ids not handed out again (API contract, boolean predicate contract_step); '
    'clock readings t and the cool-down satisfy 0 <= t, t + timeout < 2^63 (the source compares them as i64)',
    'a key callback writes at most MAX_KEY_LENGTH bytes through the view it is given; the reader snapshot is taken from inside the key callback (the one point where allocate_opt hands control to the caller), on the allocating thread',
    'single-threaded use of the manager (the reader is used from the same thread)',
]
TRUSTED = [
    'the model treats an i32 overflow in an offset computation as a panic in both builds; the theorems show none occurs on the covered domain',
]
PER_CASE_TIMEOUT = 5.0

U64 = 2 ** 64
I63 = 2 ** 63


# ----------------------------------------------------------------------------------------------
# reference simulation of the live set (only used to choose ids that keep a history inside the contract)

class Sim:
    def __init__(self, nm, nv, timeout):
        self.n = min(nm, nv)
        self.timeout = timeout
        self.now = 0
        self.hwm = 0
        self.free = []          # ids, oldest first
        self.deadline = {}
        self.live = []

    def alloc(self, bad):
        if bad:
            return None
        for i, x in enumerate(self.free):
            if self.deadline[x] <= self.now:
                del self.free[i]
                self.live.append(x)
                return x
        if self.hwm < self.n:
            x = self.hwm
            self.hwm += 1
            self.live.append(x)
            return x
        return None

    def do_free(self, x):
        self.live.remove(x)
        self.free.append(x)
        self.deadline[x] = self.now + self.timeout


def op_alloc(type_id, kind, klen, kseed, klen2, kseed2, llen, lseed, nul, w=1):
    """llen is the label's length in BYTES; w > 1: UTF-8 label made of w-byte characters (no NUL)"""
    return ['A', type_id, kind, klen, kseed, klen2, kseed2, llen, lseed, nul, w]


def alloc_is_bad(o):
    _, _t, kind, klen, _ks, _kl2, _ks2, llen, _ls, nul = o[:10]
    w = o[10] if len(o) > 10 else 1
    return (w <= 1 and 0 <= nul < llen) or llen > 380 or kind == 'b' or (kind == 'o' and klen > 112)


def apply_sim(sim, o):
    if o[0] == 'A':
        sim.alloc(alloc_is_bad(o))
    elif o[0] == 'F':
        sim.do_free(o[1])
    elif o[0] == 'C':
        sim.now = o[1]


# ----------------------------------------------------------------------------------------------
# generators

LETTERS = 'akcLKfgsxX'
LETTERS_WIDE = LETTERS + 'Uuw'     # + UTF-8 label of 382 bytes / of 380 bytes, late write on a freed id


def letter_op(sim, ch):
    """One letter of the exhaustive alphabet, resolved against the simulated live set; None when not applicable."""
    if ch == 'a':
        return op_alloc(1, 'n', 0, 0, 0, 0, 3, len(sim.live) + sim.hwm, -1)
    if ch == 'k':
        return op_alloc(2, 'o', 8, 5 + sim.hwm, 0, 0, 1, 9, -1)
    if ch == 'c':       # key callback that also looks at the counters through a reader while it runs
        return op_alloc(-3, 's', 9, 2, 0, 0, 0, 0, -1)
    if ch == 'L':
        return op_alloc(4, 'n', 0, 0, 0, 0, 381, 1, -1)
    if ch == 'K':
        return op_alloc(5, 'o', 113, 1, 0, 0, 2, 1, -1)
    if ch == 'f':
        return ['F', min(sim.live)] if sim.live else None
    if ch == 'g':
        return ['F', max(sim.live)] if len(sim.live) > 1 else None
    if ch == 's':
        return ['S', min(sim.live), 7 + sim.now] if sim.live else None
    if ch == 'U':       # 191 two-byte characters: 382 bytes, must be rejected
        return op_alloc(6, 'n', 0, 0, 0, 0, 382, 3 + sim.hwm, -1, 2)
    if ch == 'u':       # 126 three-byte characters + 2 ASCII: exactly 380 bytes, must be accepted
        return op_alloc(7, 'n', 0, 0, 0, 0, 380, 3 + sim.hwm, -1, 3)
    if ch == 'w':       # the former owner writes the value slot of a freed id during (or after) the cool-down
        return ['S', sim.free[-1], 99 + sim.now, 'p'] if sim.free else None
    if ch == 'x':
        return ['C', sim.now + sim.timeout - 1] if sim.timeout > 0 else None
    if ch == 'X':
        return ['C', sim.now + sim.timeout]
    raise ValueError(ch)


def word_case(nm, nv, timeout, word):
    sim = Sim(nm, nv, timeout)
    ops = []
    for ch in word:
        o = letter_op(sim, ch)
        if o is None:
            return None
        apply_sim(sim, o)
        ops.append(o)
    ops.append(['D'])
    return {'kind': 'word', 'nm': nm, 'nv': nv, 'timeout': timeout, 'ops': ops}


def random_history(rng, nm, nv, timeout, length, dump_every):
    sim = Sim(nm, nv, timeout)
    ops = []
    tmax = I63 - timeout - 1
    for k in range(length):
        r = rng.random()
        o = None
        if r < 0.40:
            llen = rng.choice([0, 1, 2, 3, 5, 17, rng.randrange(0, 40)]) if rng.random() < 0.9 else rng.choice([379, 380, rng.randrange(0, 381)])
            kind = rng.choice(['n', 'n', 'o', 'o', 'f', 's', 's'])
            klen = rng.choice([0, 1, 7, 8, 9, 16]) if rng.random() < 0.9 else rng.choice([111, 112, rng.randrange(0, 113)])
            w = 1
            if rng.random() < 0.15:     # multi-byte UTF-8, mostly just below / at the 380-BYTE limit
                w = rng.choice([2, 3, 4])
                llen = rng.choice([rng.randrange(0, 40), 376, 377, 378, 379, 380, 380])
            o = op_alloc(rng.choice([0, 1, 11, -1, 2 ** 31 - 1, -2 ** 31, rng.randrange(-1000, 1000)]),
                         kind, klen if kind != 'n' else 0, rng.randrange(0, 50), 0, 0, llen, rng.randrange(0, 50), -1, w)
        elif r < 0.50:
            bad = rng.choice(['label', 'utf8', 'nul', 'key', 'both', 'both2'])
            if bad == 'utf8':   # more than 380 bytes in at most 380 characters
                w = rng.choice([2, 3, 4])
                o = op_alloc(1, rng.choice(['n', 'o', 'f']), 8, 1, 0, 0, rng.choice([381, 382, 383, 384, 400, 380 * w]), 2, -1, w)
            elif bad == 'label':
                o = op_alloc(1, rng.choice(['n', 'o', 'f']), 8, 1, 0, 0, rng.choice([381, 382, 500, 4000]), 2, -1)
            elif bad == 'nul':
                ln = rng.randrange(1, 30)
                o = op_alloc(1, 'n', 0, 0, 0, 0, ln, 3, rng.randrange(0, ln))
            elif bad == 'key':
                o = op_alloc(1, 'o', rng.choice([113, 114, 200, 1000]), 4, 0, 0, 5, 4, -1)
            elif bad == 'both':
                o = op_alloc(1, 'b', 8, 5, 8, 6, 5, 5, -1)
            else:
                o = op_alloc(1, 'b', 113, 5, 4, 6, 381, 5, -1)
        elif r < 0.70 and sim.live:
            o = ['F', rng.choice(sim.live)]
        elif r < 0.80 and (sim.live or sim.free):
            # mostly a live counter; sometimes a late write of the former owner on a freed, not yet reused id
            late = sim.free and (not sim.live or rng.random() < 0.35)
            o = ['S', rng.choice(sim.free if late else sim.live),
                 rng.choice([1, 2, I63 - 1, I63, U64 - 1, rng.randrange(1, U64)] + ([] if late else [0]))]
            if rng.random() < 0.5:
                o.append('p')
        elif r < 0.95:
            cands = [sim.now, sim.now + 1, max(0, sim.now - 1), 0, rng.randrange(0, 5000)]
            for x in sim.free[:4]:
                d = sim.deadline[x]
                cands += [max(0, d - 1), d, d + 1]
            t = rng.choice(cands)
            o = ['C', min(max(0, t), tmax)]
        else:
            o = ['D']
        if o is None:
            continue
        apply_sim(sim, o)
        ops.append(o)
        if dump_every and (k + 1) % dump_every == 0 and o[0] != 'D':
            ops.append(['D'])
    if not ops or ops[-1][0] != 'D':
        ops.append(['D'])
    return {'kind': 'random', 'nm': nm, 'nv': nv, 'timeout': timeout, 'ops': ops}


def generate(rng, tier):
    big = tier == 'thorough'
    cases = []
    # boundary histories first
    for nm, nv in [(1, 1), (2, 2), (1, 3), (3, 1)]:
        for word in ['aaa', 'afXa', 'afxa', 'Laa', 'Kaa', 'aafXLa', 'aafXKa', 'aagXafa', 'kcskfXak',
                     'U', 'Ua', 'aU', 'u', 'ua', 'au', 'afwXa', 'asfwxwXa', 'aafwXUa', 'afXwa']:
            c = word_case(nm, nv, 10, word)
            if c:
                c['kind'] = 'boundary'
                cases.append(c)
    pairs = [(1, 1), (1, 2), (2, 1), (2, 2), (2, 3), (3, 2), (3, 3), (4, 4)] if big else [(1, 1), (2, 2), (2, 3), (3, 2)]
    maxlen = 4 if big else 3
    for nm, nv in pairs:
        for ln in range(1, maxlen + 1):
            for word in itertools.product(LETTERS_WIDE if (ln <= 2 or big) and (nm, nv) in ((1, 1), (2, 2)) else LETTERS, repeat=ln):
                c = word_case(nm, nv, 10, word)
                if c:
                    cases.append(c)
    # free / late write / cool-down / reuse: every word of length <= 5 (thorough: 6) over {alloc, free lowest, late write, clock to deadline}
    for nm, nv in [(1, 1), (2, 2)]:
        for ln in range(4, (6 if big else 5) + 1):
            for word in itertools.product('afwX', repeat=ln):
                c = word_case(nm, nv, 10, word)
                if c:
                    c['kind'] = 'reuse-word'
                    cases.append(c)
    nrand = 1500 if big else 72
    for i in range(nrand):
        nm = rng.choice([1, 2, 3, 4, 5, 8, 16])
        nv = nm if rng.random() < 0.6 else rng.choice([1, 2, 3, 4, 5, 8, 16])
        timeout = rng.choice([0, 1, 10, 10, 1000, 2 ** 62])
        length = rng.choice([10, 20, 40, 80] + ([200] if (big or i % 24 == 0) else []))
        cases.append(random_history(rng, nm, nv, timeout, length, rng.choice([5, 10, 20]) if length <= 40 else 20))
    # 2^24 failed allocations on a full manager (the high water mark of the unrepaired code wraps the i32 offsets there)
    cases.append({'kind': 'flood', 'nm': 1, 'nv': 1, 'count': 2 ** 24})
    cases.append({'kind': 'flood', 'nm': 2, 'nv': 3, 'count': 1000})
    # spread the long histories over the evaluation shards
    head, tail = cases[:36], cases[36:]
    rng.shuffle(tail)
    return head + tail


# ----------------------------------------------------------------------------------------------
# rendering

def impl_line(c):
    if c['kind'] == 'flood':
        return 'flood %d %d %d' % (c['nm'], c['nv'], c['count'])
    toks = []
    for o in c['ops']:
        toks.append(','.join(str(x) for x in o))
    return 'seq %d %d %d %s' % (c['nm'], c['nv'], c['timeout'], ' '.join(toks))


def _key(kind, klen, kseed, klen2, kseed2):
    if kind == 'n':
        return 'KNone'
    if kind == 'o':
        return '(KOpt (mk_key %s %s))' % (z(klen), z(kseed))
    if kind == 'f':
        return '(KFunc (mk_key %s %s))' % (z(klen), z(kseed))
    return '(KBoth (mk_key %s %s) (mk_key %s %s))' % (z(klen), z(kseed), z(klen2), z(kseed2))


def op_coq(o):
    if o[0] == 'A':
        _, t, kind, klen, kseed, klen2, kseed2, llen, lseed, nul = o[:10]
        w = o[10] if len(o) > 10 else 1
        label = 'mk_label_u %s %s %s' % (z(llen), z(lseed), z(w)) if w > 1 else 'mk_label %s %s %s' % (z(llen), z(lseed), z(nul))
        if kind == 's':
            return 'AllocSnap %s (mk_key %s %s) (%s)' % (z(t), z(klen), z(kseed), label)
        return 'Alloc %s %s (%s)' % (z(t), _key(kind, klen, kseed, klen2, kseed2), label)
    if o[0] == 'F':
        return 'Free %s' % z(o[1])
    if o[0] == 'S':
        return 'SetVal %s %s' % (z(o[1]), z(o[2]))
    if o[0] == 'C':
        return 'SetClock %s' % z(o[1])
    return 'Dump'


def ops_coq(c):
    return '[' + '; '.join(op_coq(o) for o in c['ops']) + ']'


def mode_c(mode):
    return 'Debug' if mode == 'debug' else 'Release'


def model_expr(c, mode):
    if c['kind'] == 'flood':
        return 'flood_obs %s %s' % (z(c['nm']), z(c['nv']))
    return 'run %s %s (mgr0 %s %s %s)' % (mode_c(mode), ops_coq(c), z(c['nm']), z(c['nv']), z(c['timeout']))


def oracle_expr(c, mode, obs):
    if c['kind'] == 'flood':
        if isinstance(obs, int) or obs[0] != 'tuple':
            return 'false'
        return 'holds_flood %s %s %s' % (z(c['nm']), z(c['nv']), to_coq(obs))
    if isinstance(obs, int) or obs[0] != 'list':
        return 'false'
    return 'holds %s %s %s %s %s' % (z(c['nm']), z(c['nv']), z(c['timeout']), ops_coq(c), to_coq(obs))


def nontrivial(c):
    if c['kind'] == 'flood':
        return True
    freed = False
    for o in c['ops']:
        if o[0] == 'F':
            freed = True
        elif o[0] == 'A' and (freed or alloc_is_bad(o)):
            return True
    return False


def shrink(c):
    if c['kind'] == 'flood':
        return []
    out = []
    ops = c['ops']
    for i in range(len(ops) - 1):
        d = dict(c)
        d['ops'] = ops[:i] + ops[i + 1:]
        out.append(d)
    if len(ops) > 2:
        d = dict(c)
        d['ops'] = ops[:len(ops) // 2] + [['D']]
        out.append(d)
    return out
