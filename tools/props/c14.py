"""C14 - driver events decode to what the driver sent; type codes are a bijection."""
from vlib.term import z, to_coq
from props import wire_k1
from props import c08 as c8     # a slice of the scheduled copy-receiver runs: an event must not be handed over torn (see generate)

ID = 'C14'
PROP_FILE = 'Props/C14.v'
EVAL_FILES = ['Oracle/C14Oracle.v'] + list(c8.EVAL_FILES)
CRATES = ['c14', 'c08']
MODES = ['debug', 'release']
IMPORTS = ('Require Import V.Base.MachineInt V.Model.WireBytes V.Model.WireCodes V.Model.WireEvents V.Oracle.C14Oracle.\n' + c8.IMPORTS)
K1_TABLES = wire_k1.K1_TABLES
RULE = ('code: every AeronCommand variant (as i32, from_command_id of it); fromid: every protocol code, its neighbours, 0xF9, a dense '
        'block around the two code ranges and random i32 ids (all of -1..0x1000 plus 10^4 random in thorough); '
        'ev: one event of each of the 10 event types (publication ready / exclusive, subscription ready, available image, operation '
        'success, unavailable image, error -> publication / subscription / channel endpoint, counter ready, unavailable counter, client '
        'timeout own / foreign id) encoded from the protocol\'s literal offsets, broadcast with the real BroadcastTransmitter and '
        'consumed by a real ClientConductor (CopyBroadcastReceiver -> DriverListenerAdapter -> listener methods -> user callbacks / API '
        'results); i64 fields from {MIN, MIN+1, -1, 0, 1, 2^31-1, 2^31, 2^32-1, 2^32, MAX-1, MAX, random}, i32 fields from {MIN, -1, 0, 1, MAX, '
        '0x01020304, random}, counter ids 0..1023, string lengths {0..9, 199..201, 255..257, 1000, 3000, the largest that fits 4096 '
        'and the three around it, random 0..3900}, log files are real files at relative paths of that length; events longer than 4096 '
        'bytes (refused); raw: unknown / command type ids, truncated counter events, oversize records. '
        'conc (crate c08): a slice of 60 (thorough 600) of C08\'s scheduled transmitter / CopyBroadcastReceiver runs, judged by C08\'s model and oracle - an event is never handed to the listener torn. '
        'A case is non-trivial when it is an event whose string is >= 256 bytes or which has a field outside the i32 range, or a code '
        'case of an event type; distinct = distinct case tuples')
ASSUMPTIONS = [
    'an event "fits a broadcast record" when it fits the receiver\'s 4096-byte scratch buffer (CopyBroadcastReceiver); longer events must be refused with an error',
    'strings are C strings: bytes 1..255 (the harness uses printable ASCII; log file names are existing relative paths)',
    'counter ids inside events are ids valid in the client\'s counters buffer (0..1023): the conductor dereferences them',
    'one event per duty cycle on a fresh client (the scratch buffer beyond the record is zero); truncated / negative-length records are outside the property',
]
TRUSTED = [
    'K1 (C14): harness/vconsts --commands dumps `as i32` of every variant and from_command_id over ids -65536..65536 (+ far ids); ids outside the scanned range are assumed to panic (random i32 ids are compared in K2)',
    'K1 (C14): struct offsets of Generated/GenLayout.v are computed from the source by the repr(C, packed(4)) rule in tools/props/wire_k1.py and cross-checked with the compiler\'s size_of constants',
    'the harness reconstructs the listener call from user-visible effects (user callbacks, find_* results, Image / Publication / Subscription getters); for exclusive publications the limit / status counter ids are read from the ExclusivePublication that find_exclusive_publication (pub(crate), reached through the add-only hook ClientConductor::find_exclusive_publication_for_verif, hooks/cond-find-exclusive.diff) hands out; while the repository lacks the hook they are echoed (extra check "hook ...")',
]
PER_CASE_TIMEOUT = 5.0

MAX64, MIN64 = 2**63 - 1, -2**63
MAX32, MIN32 = 2**31 - 1, -2**31
SCRATCH = 4096

VARIANTS = ['Padding', 'AddPublication', 'RemovePublication', 'AddExclusivePublication', 'AddSubscription', 'RemoveSubscription',
            'ClientKeepAlive', 'AddDestination', 'RemoveDestination', 'AddCounter', 'RemoveCounter', 'ClientClose',
            'AddRcvDestination', 'RemoveRcvDestination', 'TerminateDriver', 'ResponseOnError', 'ResponseOnAvailableImage',
            'ResponseOnPublicationReady', 'ResponseOnOperationSuccess', 'ResponseOnUnavailableImage',
            'ResponseOnExclusivePublicationReady', 'ResponseOnSubscriptionReady', 'ResponseOnCounterReady',
            'ResponseOnUnavailableCounter', 'ResponseOnClientTimeout']
PROTOCOL = [-1] + list(range(1, 15)) + list(range(0xF01, 0xF0B))


def wrap64(x):
    return (x + 2**63) % 2**64 - 2**63


def mode_c(mode):
    return 'Debug' if mode == 'debug' else 'Release'


# ---------------------------------------------------------------------------------------------- generation
def _b64(rng, n=2):
    return [MIN64, MIN64 + 1, -1, 0, 1, 2**31 - 1, 2**31, 2**32 - 1, 2**32, MAX64 - 1, MAX64] + \
           [rng.randrange(MIN64, MAX64 + 1) for _ in range(n)]


def _b32(rng, n=2):
    return [MIN32, -1, 0, 1, MAX32, 0x01020304] + [rng.randrange(MIN32, MAX32 + 1) for _ in range(n)]


def _lens(rng, fixed, lo=0, extra=()):
    """string lengths for a record whose fixed part (incl. the length word) takes `fixed` bytes"""
    top = SCRATCH - fixed
    ls = [0, 1, 2, 3, 4, 5, 7, 8, 9, 199, 200, 201, 255, 256, 257, 1000, 3000, top - 2, top - 1, top] + list(extra)
    ls += [rng.randrange(0, 3901) for _ in range(3)]
    return [l for l in ls if l >= lo]


def _path_ok(n):
    return n >= 1 and n % 200 != 0 and n <= 4090


def generate(rng, tier):
    big = tier == 'thorough'
    cases = [{'kind': 'code', 'name': v} for v in VARIANTS]
    ids = set(PROTOCOL) | {p + d for p in PROTOCOL for d in (-1, 1)} | {0, 0xF9, 0xF0, 0xF00, 0xF0B, 0xFF, 0x65, MIN32, MAX32}
    if big:
        ids |= set(range(-2, 0x1001)) | {rng.randrange(MIN32, MAX32 + 1) for _ in range(10000)}
    else:
        ids |= set(range(-4, 40)) | set(range(0xEF0, 0xF20)) | {rng.randrange(MIN32, MAX32 + 1) for _ in range(150)}
        ids |= {rng.randrange(-1, 0x1001) for _ in range(150)}
    cases += [{'kind': 'fromid', 'id': i} for i in sorted(ids)]

    reps = 6 if big else 1
    ev = []

    def add(**kw):
        kw['kind'] = 'ev'
        ev.append(kw)

    for _ in range(reps):
        b64, b32 = _b64(rng), _b32(rng)
        cid = lambda: rng.choice([0, 1, 1023, rng.randrange(0, 1024)])
        # publication ready (shared / exclusive): registration = c0 + 1
        for corr in b64:
            for excl in (0, 1):
                add(ev='pubready', c0=wrap64(corr - 1), excl=excl, reg=corr if excl else rng.choice(b64), session=rng.choice(b32),
                    stream=rng.choice(b32), limit=cid(), status=rng.choice(b32), pk=rng.randrange(0, 1000), pn=rng.choice([1, 5, 30, 201, 250]))
        for v in b32:
            add(ev='pubready', c0=rng.choice(b64), excl=0, reg=rng.choice(b64), session=v, stream=rng.choice(b32), limit=cid(), status=rng.choice(b32), pk=1, pn=9)
            add(ev='pubready', c0=rng.choice(b64), excl=rng.choice([0, 1]), reg=None, session=rng.choice(b32), stream=v, limit=cid(), status=rng.choice(b32), pk=2, pn=9)
            add(ev='pubready', c0=rng.choice(b64), excl=0, reg=rng.choice(b64), session=rng.choice(b32), stream=rng.choice(b32), limit=cid(), status=v, pk=3, pn=9)
            # exclusive: the limit / status ids are observed through the hook find_exclusive_publication_for_verif (echoed without it)
            add(ev='pubready', c0=rng.choice(b64), excl=1, reg=None, session=v, stream=rng.choice(b32), limit=cid(), status=rng.choice(b32), pk=4, pn=9)
            add(ev='pubready', c0=rng.choice(b64), excl=1, reg=None, session=rng.choice(b32), stream=rng.choice(b32), limit=cid(), status=v, pk=5, pn=9)
        for n in _lens(rng, 36, extra=(SCRATCH - 36 + 1, SCRATCH - 36 + 2, SCRATCH - 36 + 25)):
            if _path_ok(n):
                add(ev='pubready', c0=rng.choice(b64), excl=rng.choice([0, 1]), reg=None, session=rng.choice(b32), stream=rng.choice(b32),
                    limit=cid(), status=rng.choice(b32), pk=rng.randrange(0, 1000), pn=n)
        # subscription ready
        for corr in b64:
            add(ev='subready', c0=wrap64(corr - 1), status=rng.choice(b32))
        for v in b32:
            add(ev='subready', c0=rng.choice(b64), status=v)
        # available image
        for corr in b64:
            add(ev='image', c0=rng.choice(b64), corr=corr, session=rng.choice(b32), stream=rng.choice(b32), subpos=cid(),
                pk=rng.randrange(0, 1000), pn=rng.choice([1, 6, 31, 202]), sk=rng.randrange(0, 1000), sn=rng.choice([0, 1, 13, 40]))
        for sub in b64:
            add(ev='image', c0=wrap64(sub - 1), corr=rng.choice(b64), session=rng.choice(b32), stream=rng.choice(b32), subpos=cid(),
                pk=rng.randrange(0, 1000), pn=rng.choice([1, 6, 31, 202]), sk=rng.randrange(0, 1000), sn=rng.choice([0, 1, 13, 40]))
        for v in b32:
            add(ev='image', c0=rng.choice(b64), corr=rng.choice(b64), session=v, stream=rng.choice(b32), subpos=cid(), pk=5, pn=11, sk=6, sn=3)
            add(ev='image', c0=rng.choice(b64), corr=rng.choice(b64), session=rng.choice(b32), stream=v, subpos=cid(), pk=5, pn=12, sk=6, sn=3)
        # both strings: the log-file length decides where the source identity starts (4-byte alignment)
        for pn in [1, 2, 3, 4, 5, 6, 7, 8, 9, 10, 11, 12, 13, 199, 201, 255, 256, 257, 1001, 1002, 1003]:
            for sn in rng.sample([0, 1, 2, 3, 4, 5, 17, 100, 255, 256], 3):
                add(ev='image', c0=rng.choice(b64), corr=rng.choice(b64), session=rng.choice(b32), stream=rng.choice(b32), subpos=cid(),
                    pk=rng.randrange(0, 1000), pn=pn, sk=rng.randrange(0, 1000), sn=sn)
        for pn in [1, 2, 3, 30, 31, 1201, 2999]:
            a = (pn + 3) // 4 * 4
            top = SCRATCH - 32 - a - 4
            for sn in [top - 1, top, top + 1, top + 2, top + 40]:
                if sn >= 0:
                    add(ev='image', c0=rng.choice(b64), corr=rng.choice(b64), session=rng.choice(b32), stream=rng.choice(b32), subpos=cid(),
                        pk=rng.randrange(0, 1000), pn=pn, sk=rng.randrange(0, 1000), sn=sn)
        for sn in [1, 2]:
            for pn in [SCRATCH - 32 - 4 - sn - 3, SCRATCH - 32 - 4 - sn - 1, SCRATCH - 32 - 4 - sn + 1, 3901, 3999]:
                if _path_ok(pn):
                    add(ev='image', c0=rng.choice(b64), corr=rng.choice(b64), session=rng.choice(b32), stream=rng.choice(b32), subpos=cid(),
                        pk=rng.randrange(0, 1000), pn=pn, sk=rng.randrange(0, 1000), sn=sn)
        # operation success
        for corr in b64:
            add(ev='opsuccess', c0=wrap64(corr - 1))
        # unavailable image
        for corr in b64:
            add(ev='unavimage', c0=rng.choice(b64), corr=corr, stream=rng.choice(b32), ck=rng.randrange(0, 1000), cn=rng.choice([0, 3, 40]))
        for sub in b64:
            add(ev='unavimage', c0=wrap64(sub - 1), corr=rng.choice(b64), stream=rng.choice(b32), ck=rng.randrange(0, 1000), cn=rng.choice([0, 3, 40]))
        for n in _lens(rng, 24, extra=(SCRATCH - 24 + 1, 5000)):
            add(ev='unavimage', c0=rng.choice(b64), corr=rng.choice(b64), stream=rng.choice(b32), ck=rng.randrange(0, 1000), cn=n)
        # error responses
        codes = [MIN32, -1, 0, 1, 2, 3, 5, 6, 7, 8, 9, MAX32, 0x04000000, 260] + [rng.randrange(MIN32, MAX32 + 1) for _ in range(2)]
        for off in b64:
            add(ev='error', target=rng.choice(['pub', 'sub']), c0=wrap64(off - 1), code=rng.choice(codes), mk=rng.randrange(0, 1000), mn=rng.choice([0, 1, 20, 80]))
            add(ev='error', target='endpoint', c0=rng.choice(b64), off=off, mk=rng.randrange(0, 1000), mn=rng.choice([0, 1, 20, 80]))
        for code in codes:
            add(ev='error', target=rng.choice(['pub', 'sub']), c0=rng.choice(b64), code=code, mk=rng.randrange(0, 1000), mn=rng.choice([0, 1, 20, 80]))
        for n in _lens(rng, 16, extra=(SCRATCH - 16 + 1, SCRATCH - 16 + 2, 4500, 8000)):
            add(ev='error', target=rng.choice(['pub', 'sub']), c0=rng.choice(b64), code=rng.choice(codes), mk=rng.randrange(0, 1000), mn=n)
            if n <= SCRATCH - 16:
                add(ev='error', target='endpoint', c0=rng.choice(b64), off=rng.choice(b64), mk=rng.randrange(0, 1000), mn=n)
        # counters, client timeout
        for corr in b64:
            for kind in ('counter', 'uncounter'):
                add(ev=kind, c0=rng.choice(b64), corr=corr, id=rng.choice(b32))
        for v in b32:
            for kind in ('counter', 'uncounter'):
                add(ev=kind, c0=rng.choice(b64), corr=rng.choice(b64), id=v)
        for cid64 in b64:
            add(ev='timeout', c0=cid64, id=cid64)
            for bit in (0, 8, 31, 32, 40, 63):
                add(ev='timeout', c0=cid64, id=wrap64(cid64 ^ (1 << bit)) if cid64 >= 0 else wrap64((cid64 % 2**64) ^ (1 << bit)))
    cases += ev

    # malformed stream: unknown / non-event type ids, truncated counter events, oversize records
    raw = []
    for t in [15, 16, 99, 0xF9, 0xF00, 0xF0B, 0xF10, 0xFFFF, 0x10000, MAX32, 0x65] + list(range(1, 15)) + [rng.randrange(1, MAX32) for _ in range(10)]:
        ln = rng.choice([0, 8, 12, 40])
        raw.append({'kind': 'raw', 'c0': rng.choice([0, 7, MAX64]), 'type': t, 'len': ln,
                    'hex': ''.join('%02x' % rng.randrange(0, 256) for _ in range(min(ln, 16)))})
    for t in (0xF08, 0xF09, 0xF0A):
        for ln in (0, 1, 4, 7, 8, 9, 11):
            raw.append({'kind': 'raw', 'c0': 5, 'type': t, 'len': ln, 'hex': ''.join('%02x' % rng.randrange(1, 256) for _ in range(ln))})
    for t in (0xF01, 0xF03, 0xF08, 99, 3):
        for ln in (4097, 4100, 5000, 8184):
            raw.append({'kind': 'raw', 'c0': 5, 'type': t, 'len': ln, 'hex': '0102030405060708'})
    cases += raw
    rng.shuffle(cases)      # long strings are the expensive cases: spread them over the shards
    return cases + _c08_slice(rng, tier)


# ---------------------------------------------------------------------------------------------- one case
def _c08_slice(rng, tier):
    """"field values identical to those encoded" also while the driver keeps transmitting: the events reach the listener adapter through
    CopyBroadcastReceiver, whose copy into the scratch buffer must be validated after the copy. A slice of C08's scheduled
    transmitter / copy-receiver runs (deterministic scheduler, every access a step) is judged here with C08's model and oracle."""
    import random
    r = random.Random(rng.getrandbits(32) ^ 0xC14)
    cs = c8._conc_cases(r, False)
    r.shuffle(cs)
    cs = cs[:60 if tier != 'thorough' else 600]
    return [dict(c, crate='c08') for c in cs]


def _c08(c):
    return c.get('crate') == 'c08'


def _corr(c):
    return wrap64(c['c0'] + 1)


def fields(c):
    """the event's fields, dependent ones derived (registration ids follow c0)"""
    k = c['ev']
    if k == 'pubready':
        corr = _corr(c)
        reg = corr if (c['excl'] or c['reg'] is None) else c['reg']
        return dict(corr=corr, reg=reg)
    if k == 'subready':
        return dict(corr=_corr(c))
    if k in ('image', 'unavimage'):
        return dict(subreg=_corr(c))
    if k == 'opsuccess':
        return dict(corr=_corr(c))
    if k == 'error':
        if c['target'] == 'endpoint':
            return dict(off=c['off'], code=4)
        code = c['code'] if c['code'] != 4 else 3
        return dict(off=_corr(c), code=code)
    return {}


def impl_line(c):
    if _c08(c):
        return c8.impl_line(c)
    if c['kind'] == 'code':
        return 'code %s' % c['name']
    if c['kind'] == 'fromid':
        return 'fromid %d' % c['id']
    if c['kind'] == 'raw':
        return 'raw %d %d %d %s' % (c['c0'], c['type'], c['len'], c['hex'])
    k, f = c['ev'], fields(c)
    head = 'ev %d %s ' % (c['c0'], k)
    if k == 'pubready':
        return head + '%d %d %d %d %d %d %d %d %d' % (c['excl'], f['corr'], f['reg'], c['session'], c['stream'], c['limit'], c['status'], c['pk'], c['pn'])
    if k == 'subready':
        return head + '%d %d' % (f['corr'], c['status'])
    if k == 'image':
        return head + '%d %d %d %d %d %d %d %d %d' % (c['corr'], c['session'], c['stream'], f['subreg'], c['subpos'], c['pk'], c['pn'], c['sk'], c['sn'])
    if k == 'opsuccess':
        return head + '%d' % f['corr']
    if k == 'unavimage':
        return head + '%d %d %d %d %d' % (c['corr'], f['subreg'], c['stream'], c['ck'], c['cn'])
    if k == 'error':
        return head + '%s %d %d %d %d' % (c['target'], f['off'], f['code'], c['mk'], c['mn'])
    if k in ('counter', 'uncounter'):
        return head + '%d %d' % (c['corr'], c['id'])
    if k == 'timeout':
        return head + '%d' % c['id']
    raise ValueError(c)


def event_term(c):
    k, f = c['ev'], fields(c)
    if k == 'pubready':
        return 'EvPublicationReady %s %s %s %s %s %s %s (pathchars %s %s)' % (
            'true' if c['excl'] else 'false', z(f['corr']), z(f['reg']), z(c['session']), z(c['stream']), z(c['limit']), z(c['status']), z(c['pk']), z(c['pn']))
    if k == 'subready':
        return 'EvSubscriptionReady %s %s' % (z(f['corr']), z(c['status']))
    if k == 'image':
        return 'EvAvailableImage %s %s %s %s %s (pathchars %s %s) (chars %s %s)' % (
            z(c['corr']), z(c['session']), z(c['stream']), z(f['subreg']), z(c['subpos']), z(c['pk']), z(c['pn']), z(c['sk']), z(c['sn']))
    if k == 'opsuccess':
        return 'EvOperationSuccess %s' % z(f['corr'])
    if k == 'unavimage':
        return 'EvUnavailableImage %s %s %s (chars %s %s)' % (z(c['corr']), z(f['subreg']), z(c['stream']), z(c['ck']), z(c['cn']))
    if k == 'error':
        return 'EvError %s %s (chars %s %s)' % (z(f['off']), z(f['code']), z(c['mk']), z(c['mn']))
    if k == 'counter':
        return 'EvCounterReady %s %s' % (z(c['corr']), z(c['id']))
    if k == 'uncounter':
        return 'EvUnavailableCounter %s %s' % (z(c['corr']), z(c['id']))
    if k == 'timeout':
        return 'EvClientTimeout %s' % z(c['id'])
    raise ValueError(c)


def _raw_bytes(c):
    bs = [int(c['hex'][2 * i:2 * i + 2], 16) for i in range(len(c['hex']) // 2)]
    return bs, c['len'] - len(bs)


def model_expr(c, mode):
    if _c08(c):
        return c8.model_expr(c, mode)
    m = mode_c(mode)
    if c['kind'] == 'code':
        return '(to_id %s, from_id (to_id %s))' % (c['name'], c['name'])
    if c['kind'] == 'fromid':
        return 'from_id %s' % z(c['id'])
    if c['kind'] == 'raw':
        bs, pad = _raw_bytes(c)
        return ('let bs := [%s] ++ zeros %s in (sent bs, visible_o %s (adapter_receive %s %s bs))' % (
            '; '.join(str(b) for b in bs), z(pad), z(c['c0']), m, z(c['type'])))
    return ('let e := %s in let bs := encode_event_spec e in '
            '(sent bs, visible_o %s (adapter_receive %s (protocol_code (event_cmd e)) bs))' % (event_term(c), z(c['c0']), m))


def oracle_expr(c, mode, obs):
    if _c08(c):
        return c8.oracle_expr(c, mode, obs)
    if c['kind'] == 'code':
        if isinstance(obs, int) or obs[0] != 'tuple':
            return 'false'
        return 'holds_code %s %s' % (c['name'], to_coq(obs))
    if c['kind'] == 'fromid':
        return 'holds_fromid %s %s' % (z(c['id']), to_coq(obs))
    if c['kind'] == 'raw':
        return None
    if isinstance(obs, int) or obs[0] != 'tuple' or len(obs[1]) != 3:
        return 'false'          # Crash / Hang / unparsable: the client showed nothing sensible
    out = obs[1][2]
    return 'holds_event %s (%s) %s' % (z(c['c0']), event_term(c), to_coq(out))


def nontrivial(c):
    if _c08(c):
        return c8.nontrivial(c)
    if c['kind'] == 'code':
        return c['name'].startswith('Response')
    if c['kind'] != 'ev':
        return False
    big_str = any(c.get(k, 0) >= 256 for k in ('pn', 'sn', 'cn', 'mn'))
    vals = [v for k, v in c.items() if isinstance(v, int) and k not in ('pk', 'sk', 'ck', 'mk')] + list(fields(c).values())
    return big_str or any(not (MIN32 <= v <= MAX32) for v in vals)


def shrink(c):
    if _c08(c):
        return [dict(x, crate='c08') for x in c8.shrink(c)]
    out = []
    if c['kind'] != 'ev':
        return out
    for k, v in c.items():
        if not isinstance(v, int) or k in ('excl',):
            continue
        for nv in (0, 1, v // 2, v - 1):
            if nv == v or (k in ('pn',) and not _path_ok(nv)) or (k in ('sn', 'cn', 'mn', 'limit', 'subpos') and nv < 0):
                continue
            d = dict(c)
            d[k] = nv
            out.append(d)
    return out

K1_DEPENDS = ['wire_k1']   # source/runtime tables this property rests on (tools/vlib/runner.py)


def extra_checks(run):
    """Says in the evidence whether the exclusive-publication ids are observed or echoed (hook present / absent)."""
    import os
    from vlib import core
    try:
        ok = 'fn find_exclusive_publication_for_verif' in open(os.path.join(core.REPO, 'src', 'client_conductor.rs')).read()
    except OSError:
        ok = False
    return [(True, 'hook find_exclusive_publication_for_verif',
             'present: limit / status counter ids, original registration id and log file of exclusive publications are observed through find_exclusive_publication' if ok else
             'ABSENT in the repository under test: limit / status counter ids of exclusive publications are echoed from the event, not observed')]


normalize = c8.normalize      # only rewrites a whole-case Crash of the c08 harness; C14's own observations pass through


def known_class(c, mode, obs):
    return c8.known_class(c, mode, obs) if _c08(c) else None
