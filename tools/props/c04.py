"""C04 - flow control and limits: nothing is appended at or beyond the publication limit."""
from vlib.term import z, to_coq

ID = 'C04'
PROP_FILE = 'Props/C04.v'
EXTRA_PROP_FILES = ['Props/C04Src.v']     # K1 source tie (tools/props/src_translate.py), see docs/reports/SRC.md
EVAL_FILES = ['Model/PubCases.v', 'Model/PubGetters.v', 'Oracle/C04Oracle.v']
CRATES = ['c04']
MODES = ['debug', 'release']
IMPORTS = ('Require Import V.Base.MachineInt V.Model.LogBase V.Model.Appender V.Model.Publication V.Model.ExclPublication '
           'V.Model.PubCases V.Model.PubGetters V.Oracle.C04Oracle.')
RULE = ('histories of 4..40 operations {offer k len | try_claim len then commit / abort | offer_bulk of a split message | set limit | '
        'set connected | close | clean next partition} on a shared Publication and on an ExclusivePublication over an in-memory log '
        '(term length 1 KiB / 4 KiB / 64 KiB, MTU a multiple of 32 in 64..term/8) handed over at (n0, off0): n0 in {0,1,2,5, 2^31-3, 2^31-2, 2^31-1, random}, '
        'off0 in {0, 32, half, TL-64, TL-32, TL, random aligned}, initial term id in {0, 1, -1, MIN, MAX-2..MAX, random}; lengths from '
        '{0,1,31,32,33, payload-1, payload, payload+1, 2 payload, max-1, max, max+1, exactly-fills-the-term, one-frame-too-many, random}; '
        'limits placed below / at / just above the tracked position, at term ends, at the end of the position space, MAX, MIN; '
        'a malformed stream adds operations after close, commits without a claim, over-long claims and offers. '
        'After every operation: result, full dump of the log (count, raw tails, non-zero words of the 3 partitions), position(). '
        'A history is non-trivial when it moves the limit and contains at least one refused and one accepted offer / claim candidate '
        '(>= 5 operations with a limit change); distinct = distinct histories. '
        'Case kind gets (every 6th history once more, plus boundary histories): the same history, observed through the getters instead of the log - '
        'is_closed, is_connected, publication_limit(), available_window(), position(), (exclusive) term_id / term_offset at hand-over and after every '
        'operation, and max_message_length / max_payload_length / term_buffer_length / position_bits_to_shift / initial_term_id / session_id / stream_id once')
ASSUMPTIONS = [
    'sequential semantics of get_and_add_raw_tail / rotate_log (one publisher thread; interleavings belong to C02)',
    'the driver zeroes a partition before the log rotates into it (Clean operations in the histories); lengths are >= 0',
    'theorems: legal geometry = term length 2^10..2^30, MTU a multiple of 32 with 64 <= MTU <= min(term/8, 16 MiB); '
    'publication limit never more than half a term beyond the end of the position space (term_length * 2^31)',
]
PER_CASE_TIMEOUT = 5.0
CHUNK = 8

MAXI = 2**31 - 1
MINI = -2**31
I64MAX = 2**63 - 1
I64MIN = -2**63
SESSION, STREAM = 11, 22


def mode_c(mode):
    return 'Debug' if mode == 'debug' else 'Release'


def align(v, a=32):
    return (v + a - 1) // a * a


def required(length, mpl):
    if length <= mpl:
        return align(length + 32)
    q, r = divmod(length, mpl)
    return q * (mpl + 32) + (align(r + 32) if r > 0 else 0)


GEOMS = [(1024, 64), (1024, 96), (1024, 128), (4096, 64), (4096, 128), (4096, 256), (4096, 512),
         (65536, 1408), (65536, 4096), (65536, 8192), (65536, 64)]


def frag_fit(left, mpl, mm):
    """length of a FRAGMENTED message (> mpl, <= mm) whose frames occupy exactly `left` bytes, or None"""
    out = []
    q = left // (mpl + 32)
    for qq in (q, q - 1):
        if qq < 1:
            continue
        rest = left - qq * (mpl + 32)
        if rest == 0 and qq >= 2:
            out.append(qq * mpl)
        elif 64 <= rest <= mpl + 31 and rest % 32 == 0 and rest - 32 < mpl:
            out.append(qq * mpl + rest - 32)
    out = [t for t in out if mpl < t <= mm and required(t, mpl) == left]
    return out[0] if out else None


class Tracker:
    """Python-side estimate of the publication's position, only used to aim limits and lengths at boundaries."""

    def __init__(self, tlen, mtu, n0, off0):
        self.tlen, self.mpl = tlen, mtu - 32
        self.maxmsg = min(tlen // 8, 16 * 1024 * 1024)
        self.n, self.off = n0, off0
        self.limit, self.closed = 0, False

    @property
    def pos(self):
        return self.n * self.tlen + min(self.off, self.tlen)

    def append(self, length, claim=False):
        if self.closed or self.pos >= self.limit:
            return
        if (claim and length > self.mpl) or (not claim and length > self.maxmsg):
            return
        req = required(length, self.mpl)
        if self.off + req <= self.tlen:
            self.off += req
        elif self.n < 2**31 - 1:
            self.n, self.off = self.n + 1, 0
        else:
            self.off += req


def pick_len(rng, t, claim=False):
    mpl, mm = t.mpl, t.maxmsg
    left = max(0, t.tlen - min(t.off, t.tlen))
    fill = max(0, left - 32)
    ff = frag_fit(left, mpl, mm)
    if ff is not None and not claim and rng.random() < 0.25:
        return ff + rng.choice([0, 0, -1, 1])
    cands = [0, 1, 31, 32, 33, mpl - 1, mpl, mpl + 1, 2 * mpl, 2 * mpl + 1, mm - 1, mm, mm + 1, fill, fill + 1, fill - 31, left, left - 1,
             rng.randrange(0, mpl + 1), rng.randrange(0, mm + 1), rng.randrange(0, 100), rng.randrange(0, 100)]
    if claim:
        cands = [0, 1, 31, 32, 33, mpl - 1, mpl, mpl, mpl + 1, fill, fill + 1, left, left - 1, rng.randrange(0, mpl + 1), rng.randrange(0, mpl + 1),
                 rng.randrange(0, 64)]
    v = rng.choice(cands)
    return max(0, min(v, mm + 40))


def pick_limit(rng, t):
    p = t.pos
    maxpos = t.tlen * 2**31
    cands = [p - 32, p, p + 1, p + 32, p + 64, p + rng.randrange(0, t.tlen), p + rng.randrange(0, 3 * t.tlen), (t.n + 1) * t.tlen,
             (t.n + 1) * t.tlen + 32, p + 3 * t.tlen, maxpos - 32, maxpos, maxpos + t.tlen // 2, 0]
    w = [2, 4, 2, 4, 3, 6, 6, 2, 2, 4, 1, 1, 1, 1]
    return rng.choices(cands, w)[0]


def split_parts(rng, total, mpl):
    n = rng.choice([1, 2, 2, 3, 3, 4, 6])
    if total == 0:
        return [0] * rng.choice([1, 2])
    cuts = sorted(rng.randrange(0, total + 1) for _ in range(n - 1))
    if rng.random() < 0.3 and total > mpl:       # a cut exactly on a fragment boundary
        cuts = sorted(cuts[:-1] + [mpl * rng.randrange(1, total // mpl + 1)]) if cuts else [mpl]
        cuts = [min(c, total) for c in cuts]
    parts, last = [], 0
    for c in cuts:
        parts.append(c - last)
        last = c
    parts.append(total - last)
    return parts


def gen_history(rng, pubkind, malformed=False, nops=None, last_terms=False, with_bulk=True, wild_limits=False):
    tlen, mtu = rng.choice(GEOMS[:7] if rng.random() < 0.8 else GEOMS)
    init = rng.choice([0, 1, -1, MINI, MAXI, MAXI - 1, MAXI - 2, rng.randrange(MINI, MAXI + 1)])
    if last_terms:
        n0 = rng.choice([2**31 - 1, 2**31 - 1, 2**31 - 2, 2**31 - 3])
    else:
        n0 = rng.choice([0, 0, 1, 2, 5, 2**31 - 3, 2**31 - 2, 2**31 - 1, rng.randrange(0, 2**31), rng.randrange(0, 100000)])
    off0 = rng.choice([0, 0, 32, tlen // 2, tlen - 64, tlen - 32, tlen, 32 * rng.randrange(0, tlen // 32 + 1)])
    t = Tracker(tlen, mtu, n0, off0)
    ops = []
    k = rng.randrange(0, 200)
    nops = nops or rng.randrange(4, 28 if tlen <= 4096 else 10)
    # most histories open the window first
    if rng.random() < 0.8:
        t.limit = pick_limit(rng, t) if rng.random() < 0.5 else t.pos + rng.randrange(1, 4 * tlen)
        ops.append(['l', t.limit])
    if rng.random() < 0.5:
        ops.append(['n', 1])
    claimed = None
    while len(ops) < nops:
        r = rng.random()
        k += 1
        if r < 0.38:
            ln = pick_len(rng, t)
            ops.append(['o', k, ln])
            t.append(ln)
            ops.append(['z'])
        elif r < 0.55:
            ln = pick_len(rng, t, claim=True)
            if malformed and rng.random() < 0.3:
                ln = t.mpl + rng.randrange(1, 50)
            ops.append(['c', ln])
            before = (t.n, t.off)
            t.append(ln, claim=True)
            ops.append(['z'])
            # commit / abort only right after a claim the tracker saw accepted (a claim left open is never touched later:
            # its partition may have been cleaned by then)
            if (t.n, t.off) != before and t.n == before[0] and t.off <= t.tlen and rng.random() < 0.85:
                ops.append(['m', k, ln] if rng.random() < 0.7 else ['a'])
                claimed = ln
        elif r < 0.65 and with_bulk and pubkind == 's':
            total = pick_len(rng, t)
            ops.append(['b', k] + split_parts(rng, total, t.mpl))
            t.append(total)
            ops.append(['z'])
        elif r < 0.85:
            if wild_limits and rng.random() < 0.4:
                t.limit = rng.choice([I64MAX, I64MIN, -1, I64MAX - 1])
            else:
                t.limit = pick_limit(rng, t)
            ops.append(['l', t.limit])
        elif r < 0.93:
            ops.append(['n', rng.choice([0, 1])])
        elif r < 0.95 and (malformed or len(ops) > nops - 4):
            ops.append(['x'])
            t.closed = True
        elif malformed and r < 0.98:
            ops.append(rng.choice([['a'], ['m', k, rng.randrange(0, 8)]]) if claimed is None and not any(o[0] == 'c' for o in ops)
                       else ['z'])
        else:
            ops.append(['z'])
    return {'kind': 'hist', 'pub': pubkind, 'geom': [tlen, mtu, init, n0, off0], 'ops': ops}


def generate(rng, tier):
    big = tier == 'thorough'
    n = 5000 if big else 240
    cases = []
    # boundary histories first: one refused / accepted offer around the limit on each geometry and hand-over point
    for pubkind in ('s', 'x'):
        for (tlen, mtu) in (GEOMS[1:2] + GEOMS[5:6] if not big else GEOMS[:3] + GEOMS[5:6]):
            for n0 in (0, 4, 2**31 - 1):
                for off0 in (0, tlen - 64, tlen):
                    p = n0 * tlen + off0
                    for lim in (p, p + 1):
                        cases.append({'kind': 'hist', 'pub': pubkind, 'geom': [tlen, mtu, MAXI, n0, off0],
                                      'ops': [['l', lim], ['o', 1, 40], ['z'], ['n', 1], ['o', 2, 100], ['z'], ['c', 8], ['z'], ['m', 3, 8]]})
    for i in range(n):
        pubkind = 's' if i % 2 == 0 else 'x'
        cases.append(gen_history(rng, pubkind,
                                 malformed=(i % 10 == 9), last_terms=(i % 7 == 3), with_bulk=True, wild_limits=(i % 5 == 4)))
    # the getters: boundary histories around the limit (window 0 / 1 / negative, close, connection flag), then random histories
    gets = []
    for pubkind in ('s', 'x'):
        for (tlen, mtu, n0, off0) in ((1024, 96, 0, 0), (4096, 256, 4, 4096 - 64), (1024, 128, 2**31 - 1, 1024 - 64), (65536, 4096, 2**31 - 1, 65536)):
            p = n0 * tlen + off0
            gets.append({'kind': 'gets', 'pub': pubkind, 'geom': [tlen, mtu, MAXI, n0, off0],
                         'ops': [['n', 1], ['l', p], ['o', 1, 8], ['l', p + 1], ['c', 8], ['z'], ['l', p - 1], ['o', 2, 8], ['l', I64MAX], ['o', 3, 40], ['z'],
                                 ['n', 0], ['l', -1], ['o', 4, 0], ['n', 1], ['x'], ['o', 5, 1], ['l', 5], ['n', 0], ['n', 1]]})
    for i in range(n // 6 if not big else n // 4):
        pubkind = 's' if i % 2 == 0 else 'x'
        h = gen_history(rng, pubkind, malformed=(i % 5 == 4), last_terms=(i % 4 == 1), with_bulk=True, wild_limits=(i % 3 == 2))
        h['kind'] = 'gets'
        gets.append(h)
    return cases + gets


def impl_line(c):
    ops = ' ; '.join(' '.join(str(x) for x in o) for o in c['ops'])
    return '%s %s %s | %s' % (c['kind'], c['pub'], ' '.join(str(x) for x in c['geom']), ops)


def zl(xs):
    return '[' + '; '.join(z(x) for x in xs) + ']'


def op_coq(o):
    t = o[0]
    if t == 'o':
        return 'Offer (payload %s %s)' % (z(o[1]), z(o[2]))
    if t == 'c':
        return 'Claim %s' % z(o[1])
    if t == 'm':
        return 'Commit (payload %s %s)' % (z(o[1]), z(o[2]))
    if t == 'a':
        return 'Abort'
    if t == 'b':
        return 'Bulk (bulk_of %s %s)' % (z(o[1]), zl(o[2:]))
    if t == 'l':
        return 'SetLimit %s' % z(o[1])
    if t == 'n':
        return 'SetConnected %s' % ('true' if o[1] else 'false')
    if t == 'x':
        return 'Close'
    if t == 'z':
        return 'Clean'
    raise ValueError(o)


def oop_coq(o, pubkind):
    t = o[0]
    if t == 'o':
        return 'OAppend KOffer %s' % z(o[2])
    if t == 'c':
        return 'OAppend KClaim %s' % z(o[1])
    if t == 'b':
        if pubkind == 'x':
            return 'OCommit'    # no offer_bulk on the exclusive publication (never generated)
        return 'OAppend KBulk %s' % z(sum(o[2:]))
    return {'m': 'OCommit', 'a': 'OAbort', 'x': 'OClose', 'z': 'OClean'}.get(t) or (
        'OLimit %s' % z(o[1]) if t == 'l' else 'OConn %s' % ('true' if o[1] else 'false'))


def model_expr(c, mode):
    if c['kind'] == 'gets':
        f = 'shared_gets' if c['pub'] == 's' else 'excl_gets'
    else:
        f = 'shared_case' if c['pub'] == 's' else 'excl_case'
    return '%s %s %s [%s]' % (f, mode_c(mode), ' '.join(z(x) for x in c['geom']), '; '.join(op_coq(o) for o in c['ops']))


def oracle_expr(c, mode, obs):
    g = c['geom']
    if c['kind'] == 'gets':
        # (statics, [getters ...]): one observation at hand-over and one per operation
        if isinstance(obs, int) or obs[0] != 'tuple' or len(obs[1]) != 2 or obs[1][1][0] != 'list' or len(obs[1][1][1]) != len(c['ops']) + 1:
            return 'false'
        return 'holds_gets (mkGeom %s %s %s) %s [%s] %s' % (
            ' '.join(z(x) for x in g), z(SESSION), z(STREAM), 'true' if c['pub'] == 'x' else 'false',
            '; '.join(oop_coq(o, c['pub']) for o in c['ops']), to_coq(obs))
    if isinstance(obs, int) or obs[0] != 'list' or len(obs[1]) != len(c['ops']):
        return 'false'
    return 'holds_history2 (mkGeom %s %s %s) [%s] %s' % (
        ' '.join(z(x) for x in g), z(SESSION), z(STREAM), '; '.join(oop_coq(o, c['pub']) for o in c['ops']), to_coq(obs))


def nontrivial(c):
    return len(c['ops']) >= 5 and any(o[0] == 'l' for o in c['ops']) and any(o[0] in 'ocb' for o in c['ops'])


def shrink(c):
    out = []
    ops = c['ops']
    for i in reversed(range(len(ops))):
        out.append(dict(c, ops=ops[:i] + ops[i + 1:]))
    for i, o in enumerate(ops):
        if o[0] == 'o' and o[2] > 1:
            for v in (0, 1, o[2] // 2):
                out.append(dict(c, ops=ops[:i] + [['o', o[1], v]] + ops[i + 1:]))
        if o[0] == 'b' and len(o) > 3:
            out.append(dict(c, ops=ops[:i] + [o[:-1]] + ops[i + 1:]))
            out.append(dict(c, ops=ops[:i] + [['b', o[1], sum(o[2:])]] + ops[i + 1:]))
    g = c['geom']
    for j, v in ((2, 0), (3, 0), (4, 0)):
        if g[j] != v:
            gg = list(g)
            gg[j] = v
            out.append(dict(c, geom=gg))
    return out
