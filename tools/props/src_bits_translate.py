"""K1 generator of coq/Generated for the area 'bits' of the general source translator (tools/props/src_translate.py)."""
from props import src_translate


def generate():
    return src_translate.generate_area('bits')


TABLES = [generate]
