"""C19 - channel URIs: what the builder is told is what the parser reads back."""
import itertools
import os

from vlib import core
from vlib.term import to_coq, z

ID = 'C19'
PROP_FILE = 'Props/C19.v'
EVAL_FILES = ['Oracle/C19Oracle.v', 'Model/UriBuilder.v', 'Generated/GenUriParser.v']
CRATES = ['c19']
MODES = ['debug']     # nothing in the two files depends on overflow checks or optimisation; the model has no mode
IMPORTS = ('Require Import V.Base.MachineInt V.Model.UriTypes V.Generated.GenUriTables V.Model.Uri V.Model.UriBuilder '
           'V.Model.UriSpec V.Oracle.C19Oracle V.Model.UriParserSem V.Generated.GenUriParser.')
K1_DEPENDS = ['c19parser_translate']    # Generated/GenUriParser.v (parse / fmt / add_session_id as syntax trees)
PER_CASE_TIMEOUT = 5.0
RULE = ('kinds: pv = string of the URI grammar built from (prefix in {"", aeron-spy}, media, 0..20 key=value pairs with duplicate keys, '
        'empty values, "=" "?" ":" and non-ASCII characters inside keys and values); p = malformed stream (boundary strings around the two '
        'prefixes, single-character edits / truncations / duplications of valid URIs, random strings over the URI alphabet, arbitrary Unicode '
        'scalar values incl. U+0000, U+10FFFF and 2/3/4-byte characters); s = add_session_id on valid and malformed strings with session ids '
        '{MIN,-1,0,1,MAX,random}; a = put/remove/get/get_or_default/contains_key sequences on a parsed uri; b = builder: every ordered pair '
        'of the 28 setters after media(), every setter alone with each of its boundary values, and random sequences of 0..14 setters '
        '(values: boundary integers of each range check, legal and illegal prefix/media/control-mode, strings with ":" "=" "?" and non-ASCII; '
        'a few with "|", outside the property, for the correspondence only). Corners, generated systematically (CORNERS, counted in the '
        'evidence): duplicate keys (adjacent, separated, threefold), empty values (first / middle / last), "=" ":" "?" inside values (at '
        'the start, in the middle, at the end, doubled; IPv6 endpoints), "?" ":" inside keys, 2/3/4-byte characters in key, value and '
        'media, values longer than 48 characters, every pair of those; malformed: "|" at the end / doubled / first, "?" doubled or '
        'trailing, key without "=", separators in the media; and every string of length <= 3 (thorough: 5) over {a ? = | :} appended to '
        '"aeron:", "aeron:udp?", "aeron:udp?k=" (each parser state exhaustively at small scope). Non-trivial: a parse case whose string is accepted with at '
        'least one parameter, a builder case with at least two distinct setters. Distinct = distinct case tuples.')
ASSUMPTIONS = [
    'builder string arguments contain no "|" (the builder does not escape; such calls are outside the property and only compared with the model)',
    'build() is only required to produce a parsable string once media() has been accepted (without it the code panics by design: expect)',
    'which term lengths are legal is taken from check_term_length as it is (log-buffer properties own that predicate)',
    'the iteration order of the HashMap is unconstrained: theorems hold for every permutation, the harness observes the one that occurred',
]
TRUSTED = [
    'K1 (C19, parser side): tools/props/c19parser_translate.py transcribes the syntax of ChannelUri::parse / Display::fmt / add_session_id '
    '(statement forms only; fails closed on anything else, emitting a stuck placeholder); what the statements mean is the Coq interpreter '
    'Model/UriParserSem.v (HashMap::insert = association-list insert, std::mem::take, String::push, str::strip_prefix, chars().enumerate(), '
    '.len() of an ASCII constant, the From conversions of utils/errors.rs into the two error classes)',
    'K1 (C19): tools/props/c19_translate.py - a parser for the subset of Rust the two files are written in; it fails (never guesses) on '
    'any statement it does not understand; the fixed parts of build() and the helpers bool_to_string / prefix_tag / Value::new are compared token by token',
    'harness/c19 enumerates the keys of a parsed ChannelUri through contains_key() on every substring (short inputs) and every '
    'delimiter-bounded substring of the input and of the printed form; the printed form itself is compared too',
]

SPY = 'aeron-spy'
SPECIAL = '?=|:'


def enc(s):
    return ','.join(str(ord(c)) for c in s) if s else '-'


def cstr(s):
    return '[' + '; '.join(str(ord(c)) for c in s) + ']'


def cparams(kvs):
    return '[' + '; '.join('(%s, %s)' % (cstr(k), cstr(v)) for k, v in kvs) + ']'


# ------------------------------------------------------------------------------------------------
# generators

UNI = ['é', '€', '\U0001d11e', '\U0010ffff', '\x00', 'Ā', '߿', 'ࠀ', '￿', '\x7f', '\x80', ' ', '\t']
KEYPOOL = ['endpoint', 'interface', 'control', 'control-mode', 'tags', 'alias', 'cc', 'reliable', 'ttl', 'mtu', 'term-length',
           'init-term-id', 'term-id', 'term-offset', 'session-id', 'linger', 'sparse', 'eos', 'tether', 'group', 'rejoin', 'a', 'b', 'ab']


def rstr(rng, alphabet, lo, hi):
    return ''.join(rng.choice(alphabet) for _ in range(rng.randint(lo, hi)))


def gen_key(rng):
    r = rng.random()
    if r < 0.6:
        return rng.choice(KEYPOOL)
    if r < 0.8:
        return rstr(rng, 'abc-?:. ' + ''.join(UNI), 1, 6)
    return rstr(rng, 'abcdefghijklmnopqrstuvwxyz0123456789-_', 1, 12)


def gen_value(rng):
    r = rng.random()
    if r < 0.15:
        return ''
    if r < 0.4:
        return rng.choice(['localhost:9999', '224.10.9.8:777', 'true', 'false', 'manual', 'dynamic', 'tag:5', '0', '-1', '65536'])
    if r < 0.7:
        return rstr(rng, 'ab=?:., -' + ''.join(UNI), 0, 8)
    return rstr(rng, 'abcdefghijklmnopqrstuvwxyz0123456789.:=', 0, 16)


def gen_valid(rng, nmax=20):
    prefix = rng.choice(['', '', SPY])
    n = rng.choice([0, 0, 1, 1, 2, 3, 5, rng.randint(0, nmax)])
    r = rng.random()
    if r < 0.8 or n == 0:
        media = rng.choice(['udp', 'ipc'])
    elif r < 0.9:
        media = ''
    else:
        media = rstr(rng, 'udpic-x ' + ''.join(UNI[:4]), 0, 6)
    kvs = [[gen_key(rng), gen_value(rng)] for _ in range(n)]
    return {'kind': 'pv', 'prefix': prefix, 'media': media, 'kvs': kvs}


def valid_string(c):
    s = (c['prefix'] + ':' if c['prefix'] else '') + 'aeron:' + c['media']
    if c['kvs']:
        s += '?' + '|'.join(k + '=' + v for k, v in c['kvs'])
    return s


BOUNDARY_STRINGS = [
    '', 'a', 'aeron', 'aeron:', 'aeron:?', 'aeron:udp', 'aeron:ipc', 'aeron:udp?', 'aeron:udp?a', 'aeron:udp?a=', 'aeron:udp?a=b',
    'aeron:udp?a=b|', 'aeron:udp?a=b|c', 'aeron:udp?=b', 'aeron:udp?a=b|=c', 'aeron:udp?|', 'aeron:udp?a|b=c', 'aeron:udp|a=b',
    'aeron:udp:', 'aeron:udp=', 'aeron:ud?p', 'aeron:?a=b', 'aeron:xyz', 'aeron:xyz?a=b', 'aeron:ipcsdfgfdhfgf', ':udp', 'aron:', 'eeron:',
    'aeron-spy:', 'aeron-spy:aeron', 'aeron-spy:aeron:', 'aeron-spy:aeron:udp', 'aeron-spy:udp', 'aeron-spy:aeron-spy:aeron:udp',
    'aeron:aeron:udp', 'aeron-spy:aeron:aeron:udp', 'aeron-spy:aeron:udp?a=b', 'aeron-spy:aeron:ud:p', 'aeron-spy:aeron:udp?=',
    'AERON:udp', 'aeron:UDP', ' aeron:udp', 'aeron:udp ', 'aeron:udp?a=b=c', 'aeron:udp?a==', 'aeron:udp?a=b||c=d', 'aeron:udp?a=b|c=d|a=e',
    'aeron:udp?a?b=c', 'aeron:udp?a:b=c:d', 'aeron:udp?endpoint=localhost:4652|-~@{]|=??#s!£$%====', 'aeron:ipc|sparse=true',
    'aeron:udp?é=€', 'aeron:\U0001d11e', 'aeron:\U0001d11e?k=v', 'aeron:u\x00dp', 'aeron-spyé:aeron:udp', 'aeroné:udp',
    'aeron:udp?k=' + 'v' * 120, 'aeron:udp?' + '|'.join('k%d=%d' % (i, i) for i in range(40)),
]


def gen_malformed(rng):
    r = rng.random()
    if r < 0.55:
        s = valid_string(gen_valid(rng, 6))
        for _ in range(rng.choice([1, 1, 1, 2, 3])):
            e = rng.random()
            pos = rng.randint(0, len(s))
            ch = rng.choice(SPECIAL * 3 + 'aeronspyudpic-' + ''.join(UNI))
            if e < 0.3 and s:
                pos = min(pos, len(s) - 1)
                s = s[:pos] + s[pos + 1:]
            elif e < 0.6:
                s = s[:pos] + ch + s[pos:]
            elif e < 0.8 and s:
                pos = min(pos, len(s) - 1)
                s = s[:pos] + ch + s[pos + 1:]
            elif e < 0.9:
                s = s[:pos]
            else:
                s = s[:pos] + s[pos // 2:]
        return s
    if r < 0.8:
        return rng.choice(['', 'aeron:', 'aeron-spy:', 'aeron-spy:aeron:', 'aeron:udp', 'aeron:udp?']) + rstr(rng, 'aeronspyudpic-:?=|', 0, 14)
    if r < 0.9:
        return rng.choice(['aeron:', 'aeron:udp?', '']) + rstr(rng, ''.join(UNI) + SPECIAL + 'ab', 0, 12)
    return ''.join(chr(rng.choice([rng.randrange(0, 0x80), rng.randrange(0x80, 0x800), rng.randrange(0x800, 0xd800),
                                   rng.randrange(0xe000, 0x10000), rng.randrange(0x10000, 0x110000)])) for _ in range(rng.randint(0, 10)))


I32 = [-2**31, -1, 0, 1, 2**31 - 1, 777, -2**31 + 1, 2**31 - 2]
SETTERS = {
    'clear': [None], 'reset_prefix': [None], 'reset_reliable': [None], 'reset_rejoin': [None],
    'prefix': ['', SPY, 'aeron', 'foo', SPY + ':', 'manual', 'é'],
    'media': ['udp', 'ipc', 'tcp', '', 'UDP', 'udp '],
    'endpoint': ['localhost:9999', '224.10.9.8:777', '', 'a=b', 'x?y:z', '€\U0001d11e', 'a|b', 'host?', '?'],
    'network_interface': ['192.168.0.3', '', 'eth0:1', 'if=0', 'a|'],
    'control_endpoint': ['localhost:7777', '', '\x00', '|'],
    'control_mode': ['manual', 'dynamic', 'auto', '', 'Manual', 'manual '],
    'tags': ['1,2', '', 'tag:7', 'a=b=c', 't|u'],
    'alias': ['alpha', '', 'an alias', 'é€', 'a?b', 'who-is-there?', '=', ':'],
    'congestion_control': ['cubic', 'static', '', 'c:c'],
    'reliable': [True, False], 'sparse': [True, False], 'eos': [True, False], 'tether': [True, False], 'group': [True, False],
    'rejoin': [True, False], 'is_session_tagged': [True, False],
    'ttl': [0, 1, 9, 255],
    'mtu': [0, 31, 32, 33, 64, 1408, 4096, 65504, 65503, 65505, 65536, 2**32 - 1],
    'term_length': [0, -1, -2**31, 65535, 65536, 65537, 131072, 3 * 65536, 2**30, 2**30 + 1, 2**31 - 1],
    'initial_term_id': I32, 'term_id': I32, 'session_id': I32,
    'term_offset': [0, 31, 32, 64, 2**30, 2**30 - 32, 2**30 + 32, 2**30 + 1, 2**32 - 1, 2**32 - 32],
    'linger': [0, -1, 1, 5000000000, 2**63 - 1, -2**63],
}
LEGAL_FIRST = {'prefix': SPY, 'media': 'udp', 'control_mode': 'manual', 'mtu': 4096, 'term_length': 131072, 'term_offset': 64, 'linger': 7,
               'initial_term_id': 777, 'term_id': 999, 'session_id': -5, 'ttl': 9, 'endpoint': 'localhost:9999', 'tags': '1,2',
               'alias': 'alpha', 'network_interface': '192.168.0.3', 'control_endpoint': 'localhost:7777', 'congestion_control': 'cubic'}


def legal_value(name, rng=None):
    if name in LEGAL_FIRST:
        return LEGAL_FIRST[name]
    return SETTERS[name][0]


def rand_value(name, rng):
    vals = SETTERS[name]
    v = rng.choice(vals)
    if isinstance(v, str) and rng.random() < 0.25:
        v = rstr(rng, 'ab:=?.-, ' + ''.join(UNI[:5]), 0, 8) + rng.choice(['', '', '?', ':', '=', '??'])
    if name in ('initial_term_id', 'term_id', 'session_id') and rng.random() < 0.5:
        v = rng.randrange(-2**31, 2**31)
    if name == 'linger' and rng.random() < 0.3:
        v = rng.randrange(-2**63, 2**63)
    if name == 'mtu' and rng.random() < 0.3:
        v = 32 * rng.randrange(0, 2100) + rng.choice([0, 0, 0, 1])
    if name == 'term_offset' and rng.random() < 0.3:
        v = 32 * rng.randrange(0, 2**25 + 3) + rng.choice([0, 0, 0, 5])
    if name == 'term_length' and rng.random() < 0.4:
        v = 1 << rng.randrange(0, 31)
    return v


def gen_builder(rng, tier):
    names = list(SETTERS)
    cases = []
    # every setter alone with each of its boundary values, after media()
    for n in names:
        for v in SETTERS[n]:
            cases.append({'kind': 'b', 'ops': [['media', 'udp'], [n, v]]})
    # every ordered pair of setters (legal values), the media set first or last
    for a, b in itertools.product(names, names):
        ops = [[a, legal_value(a)], [b, legal_value(b) if b != a else rand_value(b, rng)]]
        if rng.random() < 0.5 and 'clear' not in (a, b):
            cases.append({'kind': 'b', 'ops': [['media', rng.choice(['udp', 'ipc'])]] + ops})
        else:
            cases.append({'kind': 'b', 'ops': ops + [['media', rng.choice(['udp', 'ipc'])]]})
    # random sequences
    for _ in range(500 if tier != 'thorough' else 10000):
        k = rng.choice([0, 1, 2, 3, 4, 6, 8, 10, 14])
        ops = []
        for _ in range(k):
            n = rng.choice(names)
            if n == 'clear' and rng.random() < 0.7:
                n = rng.choice(names)
            ops.append([n, rand_value(n, rng) if rng.random() < 0.6 else legal_value(n)])
        if rng.random() < 0.85:
            ops.insert(rng.randint(0, len(ops)), ['media', rng.choice(['udp', 'ipc'])])
        cases.append({'kind': 'b', 'ops': ops})
    # legal string values that end in / consist of the characters build() and the parser treat specially ('|' excepted):
    # as the last printed parameter (nothing after it), and followed by another parameter
    tricky = ['?', 'who-is-there?', '??', 'a?b?', ':', 'a:', '=', 'x=', '=?', '?=:', 'aeron:', '?a']
    string_setters = ['endpoint', 'network_interface', 'control_endpoint', 'tags', 'alias', 'congestion_control']
    for n in string_setters:
        for v in tricky:
            cases.append({'kind': 'b', 'ops': [['media', rng.choice(['udp', 'ipc'])], [n, v]]})
        for v in rng.sample(tricky, 4):
            cases.append({'kind': 'b', 'ops': [[n, v], ['media', 'udp'], ['rejoin', True]]})
            cases.append({'kind': 'b', 'ops': [['prefix', SPY], [n, v], ['media', 'ipc'], [rng.choice(string_setters), rng.choice(tricky)]]})
    # a reused builder: every stateful setter, then clear(), then the setters whose output depends on that state
    for tagged in (True, False):
        cases.append({'kind': 'b', 'ops': [['is_session_tagged', tagged], ['clear', None], ['media', 'udp'], ['session_id', 5]]})
        cases.append({'kind': 'b', 'ops': [['media', 'udp'], ['is_session_tagged', tagged], ['session_id', 3], ['clear', None],
                                           ['media', 'ipc'], ['session_id', 4]]})
        cases.append({'kind': 'b', 'ops': [['is_session_tagged', tagged], ['session_id', 3], ['clear', None], ['session_id', 4],
                                           ['is_session_tagged', not tagged], ['media', 'udp']]})
    for n in names:
        if n not in ('clear', 'media'):
            cases.append({'kind': 'b', 'ops': [['is_session_tagged', True], [n, legal_value(n)], ['clear', None], ['media', 'udp'],
                                               ['session_id', 5], ['prefix', '']]})
    for _ in range(150 if tier != 'thorough' else 3000):
        first = [[n, rand_value(n, rng) if rng.random() < 0.3 else legal_value(n)] for n in rng.sample(names, rng.randint(1, 8))]
        if rng.random() < 0.7:
            first.append(['is_session_tagged', True])
        second = [[n, legal_value(n)] for n in rng.sample([x for x in names if x != 'clear'], rng.randint(0, 5))]
        second += [['media', rng.choice(['udp', 'ipc'])]]
        if rng.random() < 0.7:
            second.append(['session_id', rng.choice(I32)])
        rng.shuffle(second)
        cases.append({'kind': 'b', 'ops': first + [['clear', None]] + second})
    # clear() must wipe every field: set everything, clear, set a few again
    everything = [[n, legal_value(n)] for n in names if n not in ('clear', 'reset_prefix', 'reset_reliable', 'reset_rejoin')]
    cases.append({'kind': 'b', 'ops': everything + [['clear', None], ['media', 'ipc']]})
    cases.append({'kind': 'b', 'ops': everything + [['clear', None], ['media', 'udp'], ['ttl', 1], ['is_session_tagged', False], ['session_id', 3]]})
    for n in names:
        if n not in ('clear', 'media'):
            cases.append({'kind': 'b', 'ops': [[n, legal_value(n)], ['clear', None], ['media', 'udp']]})
    # all parameters at once, both tagged and untagged
    for tagged in (True, False):
        ops = [['media', 'udp'], ['prefix', SPY], ['is_session_tagged', tagged]] + \
              [[n, legal_value(n)] for n in names if n not in ('clear', 'reset_prefix', 'reset_reliable', 'reset_rejoin', 'media', 'prefix', 'is_session_tagged')]
        cases.append({'kind': 'b', 'ops': ops})
        rops = list(ops)
        rng.shuffle(rops)
        cases.append({'kind': 'b', 'ops': rops})
    return cases


def gen_api(rng):
    c = gen_valid(rng, 5)
    s = valid_string(c) if rng.random() < 0.9 else gen_malformed(rng)
    keys = [k for k, _ in c['kvs']] + ['session-id', 'x', '']
    ops = []
    for _ in range(rng.randint(0, 8)):
        k = rng.choice(keys) if rng.random() < 0.8 else gen_key(rng)
        o = rng.choice(['put', 'put', 'remove', 'get', 'getd', 'has'])
        if o == 'put':
            v = gen_value(rng) if rng.random() < 0.8 else 'a|b=c'
            ops.append(['put', k, v])
            keys.append(k)
        elif o == 'getd':
            ops.append(['getd', k, gen_value(rng)])
        else:
            ops.append([o, k])
    return {'kind': 'a', 's': s, 'ops': ops}

# ---- corners of the grammar, generated systematically --------------------------------------------------------------
LONGV = 'v' * 30 + ':' + 'w' * 30
CORNERS = {
    'dup-adjacent': [['a', '1'], ['a', '2']],
    'dup-separated': [['a', '1'], ['b', 'x'], ['a', '2']],
    'dup-threefold': [['k', '1'], ['k', ''], ['z', '0'], ['k', '3']],
    'dup-same-value': [['a', '1'], ['a', '1']],
    'empty-value-first': [['e', ''], ['b', '2']],
    'empty-value-middle': [['a', '1'], ['e', ''], ['b', '2']],
    'empty-value-last': [['a', '1'], ['e', '']],
    'empty-value-only': [['e', '']],
    'eq-in-value-start': [['x', '=b']],
    'eq-in-value-middle': [['x', 'a=b'], ['y', '1']],
    'eq-in-value-end': [['x', 'a=']],
    'eq-in-value-doubled': [['x', '=='], ['y', 'a==b=']],
    'colon-in-value': [['endpoint', 'localhost:40123']],
    'colon-in-value-ipv6': [['endpoint', '[fe80::1]:40123'], ['interface', '[::1]']],
    'colon-in-value-start': [['x', ':a']],
    'colon-in-value-end': [['x', 'a:'], ['y', '::']],
    'colon-only-value': [['x', ':']],
    'qmark-in-value-start': [['x', '?a']],
    'qmark-in-value-middle': [['x', 'a?b'], ['alias', 'who?me']],
    'qmark-in-value-end': [['x', 'a?']],
    'qmark-in-value-doubled': [['x', '??'], ['y', '?']],
    'qmark-in-key': [['a?b', '1'], ['?', '2']],
    'colon-in-key': [['a:b', '1'], [':', '2']],
    'utf8-2byte': [['\u00e9', 'caf\u00e9'], ['k', '\u07ff']],
    'utf8-3byte': [['\u20ac', '1\u20ac'], ['k', '\u0800\uffff']],
    'utf8-4byte': [['\U0001d11e', '\U0010ffff'], ['k', 'a\U0001d11eb']],
    'utf8-combining-nul': [['e\u0301', '\x00'], ['\x00', 'e\u0301']],
    'long-value': [['endpoint', LONGV], ['a', '1']],
    'long-key': [['k' * 60, 'v']],
    'all-separators-in-value': [['x', '?=:?=:'], ['y', ':=?']],
}
MALFORMED_CORNERS = {
    'bar-at-end': ['aeron:udp?a=b|', 'aeron:udp?a=|', 'aeron:udp?a=b|c=d|', 'aeron-spy:aeron:ipc?a=b|'],
    'bar-doubled': ['aeron:udp?a=b||c=d', 'aeron:udp?a=b||'],
    'bar-first': ['aeron:udp?|a=b', 'aeron:udp|', 'aeron:|udp'],
    'qmark-doubled': ['aeron:udp??a=b', 'aeron:udp?a=b?c=d', 'aeron:udp??'],
    'qmark-trailing': ['aeron:udp?', 'aeron:ipc?', 'aeron-spy:aeron:udp?', 'aeron:?'],
    'key-without-eq': ['aeron:udp?a', 'aeron:udp?a=b|c', 'aeron:udp?a:b'],
    'eq-trailing': ['aeron:udp?a=', 'aeron:udp?a=b|c='],
    'separator-in-media': ['aeron:udp:', 'aeron:u:dp', 'aeron:udp=', 'aeron:=udp', 'aeron::', 'aeron-spy:aeron:udp:?a=b'],
    'utf8-media': ['aeron:\u00e9', 'aeron:\u00e9?a=b', 'aeron:ud\u00e9:', 'aeron:\U0001d11e=', 'aeron:\u20ac\U0001d11e|'],
    'utf8-near-prefix': ['a\u00e9ron:udp', 'aeron\uff1audp', 'aeron-spy\uff1aaeron:udp', '\ufeffaeron:udp'],
    'empty-key': ['aeron:udp?=', 'aeron:udp?=v', 'aeron:udp?a=b|=', 'aeron:udp?a=b|=c'],
}
SMALL_ALPHABET = 'a?=|:'
SMALL_HEADS = ['aeron:', 'aeron:udp?', 'aeron:udp?k=']


def gen_corners(rng, tier):
    cases = []
    names = sorted(CORNERS)
    for n in names:
        for prefix, media in (('', 'udp'), (SPY, 'ipc'), ('', '')):
            cases.append({'kind': 'pv', 'prefix': prefix, 'media': media, 'kvs': [list(x) for x in CORNERS[n]], 'corner': [n]})
    # every pair of corners in one URI (one order; both orders in the thorough tier)
    for i, a in enumerate(names):
        for b in names[i + 1:]:
            first, second = (a, b) if rng.random() < 0.5 else (b, a)
            cases.append({'kind': 'pv', 'prefix': rng.choice(['', SPY]), 'media': rng.choice(['udp', 'ipc']),
                          'kvs': [list(x) for x in CORNERS[first] + CORNERS[second]], 'corner': [a, b]})
            if tier == 'thorough':
                cases.append({'kind': 'pv', 'prefix': rng.choice(['', SPY]), 'media': rng.choice(['udp', 'ipc']),
                              'kvs': [list(x) for x in CORNERS[second] + CORNERS[first]], 'corner': [a, b]})
    for n in sorted(MALFORMED_CORNERS):
        for s in MALFORMED_CORNERS[n]:
            cases.append({'kind': 'p', 's': s, 'corner': [n]})
    # add_session_id and the map API on the corner URIs
    for n in names:
        s = valid_string({'prefix': '', 'media': 'udp', 'kvs': CORNERS[n]})
        cases.append({'kind': 's', 's': s, 'sid': rng.choice(I32), 'corner': [n]})
        k = CORNERS[n][0][0]
        cases.append({'kind': 'a', 's': s, 'ops': [['get', k], ['has', k], ['put', k, 'new:=?'], ['get', k], ['remove', k], ['has', k]], 'corner': [n]})
    # each parser state exhaustively at small scope
    depth = 5 if tier == 'thorough' else 3
    for head in SMALL_HEADS:
        for n in range(depth + 1):
            for t in itertools.product(SMALL_ALPHABET, repeat=n):
                cases.append({'kind': 'p', 's': head + ''.join(t), 'corner': ['small-scope']})
    return cases


LAST_CORNERS = {}


def corner_counts(cases):
    cnt = {}
    for c in cases:
        for n in c.get('corner', []):
            cnt[n] = cnt.get(n, 0) + 1
    return cnt


def generate(rng, tier):
    big = tier == 'thorough'
    cases = []
    for s in BOUNDARY_STRINGS:
        cases.append({'kind': 'p', 's': s})
    for s in BOUNDARY_STRINGS[::3]:
        cases.append({'kind': 's', 's': s, 'sid': rng.choice(I32)})
    for prefix in ('', SPY):
        for media in ('udp', 'ipc'):
            cases.append({'kind': 'pv', 'prefix': prefix, 'media': media, 'kvs': []})
            cases.append({'kind': 'pv', 'prefix': prefix, 'media': media, 'kvs': [['endpoint', 'localhost:9999']]})
            cases.append({'kind': 'pv', 'prefix': prefix, 'media': media, 'kvs': [['a', '1'], ['b', ''], ['a', '2']]})
    for _ in range(700 if not big else 20000):
        cases.append(gen_valid(rng))
    for _ in range(1200 if not big else 30000):
        cases.append({'kind': 'p', 's': gen_malformed(rng)})
    for _ in range(250 if not big else 3000):
        s = valid_string(gen_valid(rng, 6)) if rng.random() < 0.8 else gen_malformed(rng)
        sid = rng.choice(I32) if rng.random() < 0.6 else rng.randrange(-2**31, 2**31)
        cases.append({'kind': 's', 's': s, 'sid': sid})
    for _ in range(200 if not big else 3000):
        cases.append(gen_api(rng))
    cases += gen_corners(rng, tier)
    cases += gen_builder(rng, tier)
    LAST_CORNERS.clear()
    LAST_CORNERS.update(corner_counts(cases))
    return cases


# ------------------------------------------------------------------------------------------------
# harness line / model / oracle

def case_string(c):
    return valid_string(c) if c['kind'] == 'pv' else c['s']


def arg_tok(v):
    if v is None:
        return '_'
    if v is True:
        return '1'
    if v is False:
        return '0'
    if isinstance(v, int):
        return str(v)
    return enc(v)


def impl_line(c):
    k = c['kind']
    if k in ('p', 'pv'):
        return 'p ' + enc(case_string(c))
    if k == 's':
        return 's %s %d' % (enc(c['s']), c['sid'])
    if k == 'a':
        return 'a ' + enc(c['s']) + ''.join(' ' + o[0] + ''.join(' ' + enc(x) for x in o[1:]) for o in c['ops'])
    if k == 'b':
        return 'b' + ''.join(' %s %s' % (n, arg_tok(v)) for n, v in c['ops'])
    raise ValueError(c)


def carg(v):
    if v is None:
        return 'AUnit'
    if v is True:
        return '(ABool true)'
    if v is False:
        return '(ABool false)'
    if isinstance(v, int):
        return '(AInt %s)' % z(v)
    return '(AStr %s)' % cstr(v)


def cops(ops):
    return '[' + '; '.join('("%s"%%string, %s)' % (n, carg(v)) for n, v in ops) + ']'


API = {'put': 'ApiPut', 'remove': 'ApiRemove', 'get': 'ApiGet', 'getd': 'ApiGetD', 'has': 'ApiHas'}


def capi(ops):
    return '[' + '; '.join('%s %s' % (API[o[0]], ' '.join(cstr(x) for x in o[1:])) for o in ops) + ']'


# C19_MODEL=generated: the model of the `p` / `pv` cases is the interpreter run on the translated trees (equal to parse_obs by
# C19_k1_observations on an unchanged tree). Used to test the interpreter: on a changed source that still translates it must
# agree with the changed implementation (docs/reports/C19.md, "fidelity of the interpreter").
GENERATED_MODEL = os.environ.get('C19_MODEL') == 'generated'


def model_expr(c, mode):
    k = c['kind']
    if k in ('p', 'pv'):
        if GENERATED_MODEL:
            return 'gparse_obs gen_parser gen_display %s' % cstr(case_string(c))
        return 'parse_obs %s' % cstr(case_string(c))
    if k == 's':
        return 'sid_obs %s %s' % (cstr(c['s']), z(c['sid']))
    if k == 'a':
        return 'api_obs %s %s' % (cstr(c['s']), capi(c['ops']))
    if k == 'b':
        return 'builder_obs gen_tables %s' % cops(c['ops'])
    raise ValueError(c)


def oracle_expr(c, mode, obs):
    if isinstance(obs, int) or obs[0] != 'tuple' or len(obs[1]) != 3:
        return 'false'          # Crash / Hang / unparsable
    a, b, d = (to_coq(x) for x in obs[1])
    k = c['kind']
    if k == 'p':
        return 'holds_parse_any %s %s %s %s' % (cstr(c['s']), a, b, d)
    if k == 'pv':
        return 'holds_parse_valid %s %s %s %s %s %s %s' % (cstr(valid_string(c)), cstr(c['prefix']), cstr(c['media']),
                                                           cparams(c['kvs']), a, b, d)
    if k == 's':
        return 'holds_sid %s %s %s %s %s' % (cstr(c['s']), z(c['sid']), a, b, d)
    if k == 'a':
        return 'holds_api %s %s %s %s' % (capi(c['ops']), a, b, d)
    if k == 'b':
        return 'holds_builder %s %s %s %s' % (cops(c['ops']), a, b, d)
    raise ValueError(c)


def _canon_display(cps):
    """Bring `...?k1=v1|k2=v2` into key order (the HashMap's iteration order is not part of the observation)."""
    if 63 not in cps:
        return cps
    q = cps.index(63)
    head, tail = cps[:q + 1], cps[q + 1:]
    segs, cur = [], []
    for x in tail:
        if x == 124:
            segs.append(cur)
            cur = []
        else:
            cur.append(x)
    segs.append(cur)

    def key(seg):
        return (seg[:seg.index(61)] if 61 in seg else seg, seg)
    segs.sort(key=key)
    out = list(head)
    for i, sg in enumerate(segs):
        if i:
            out.append(124)
        out += sg
    return out


def normalize(o):
    if isinstance(o, int):
        return o
    if o[0] == 'app':
        if o[1] == 'Disp' and len(o[2]) == 1 and o[2][0][0] == 'list' and all(isinstance(x, int) for x in o[2][0][1]):
            return ('app', 'Disp', [('list', _canon_display(o[2][0][1]))])
        return ('app', o[1], [normalize(x) for x in o[2]])
    if o[0] in ('tuple', 'list'):
        return (o[0], [normalize(x) for x in o[1]])
    return o


def nontrivial(c):
    k = c['kind']
    if k == 'pv':
        return len(c['kvs']) >= 1
    if k in ('p', 's', 'a'):
        return '?' in c['s'] and '=' in c['s']
    return len({n for n, _ in c['ops']}) >= 2


def shrink(c):
    out = []
    k = c['kind']
    if k == 'b':
        ops = c['ops']
        for i in range(len(ops)):
            out.append({'kind': 'b', 'ops': ops[:i] + ops[i + 1:]})
        for i, (n, v) in enumerate(ops):
            if isinstance(v, str) and len(v) > 1 and n not in ('media', 'prefix', 'control_mode'):
                out.append({'kind': 'b', 'ops': ops[:i] + [[n, v[:len(v) // 2]]] + ops[i + 1:]})
    elif k == 'pv':
        kvs = c['kvs']
        for i in range(len(kvs)):
            out.append(dict(c, kvs=kvs[:i] + kvs[i + 1:]))
        for i, (kk, v) in enumerate(kvs):
            if len(v) > 0:
                out.append(dict(c, kvs=kvs[:i] + [[kk, v[:len(v) // 2]]] + kvs[i + 1:]))
            if len(kk) > 1:
                out.append(dict(c, kvs=kvs[:i] + [[kk[:len(kk) // 2], v]] + kvs[i + 1:]))
    else:
        s = c['s']
        for i in range(len(s)):
            out.append(dict(c, s=s[:i] + s[i + 1:]))
        if k == 'a':
            for i in range(len(c['ops'])):
                out.append(dict(c, ops=c['ops'][:i] + c['ops'][i + 1:]))
        if k == 's' and c['sid'] not in (0, 1):
            out.append(dict(c, sid=c['sid'] // 2))
    return out


def neighbours(c, rng):
    return [x for x in shrink(c)][:20]


def extra_checks(run):
    """K1: the generated tables must satisfy the specification's table condition (also a theorem of Props/C19.v)."""
    if not run.eval_ok:
        return []
    vals = core.coq_eval('C19_tables', IMPORTS, ['(tables_ok gen_tables, bad_setters gen_tables, shared_fields gen_tables, bad_emits gen_tables)'])
    v = vals[0]
    ok = v[1][0] == ('app', 'true', [])
    from vlib import term
    detail = 'tables_ok gen_tables = %s; setter rows not as specified: %s; fields assigned by more than one parameter setter: %s; emit rows / parameters not printed under their protocol name: %s' % (
        term.show(v[1][0]), term.show(v[1][1]), term.show(v[1][2]), term.show(v[1][3]))
    out = [(ok, 'K1 tables_ok (setter and emit tables read off channel_uri_string_builder.rs)', detail)]
    # K1, parser side: the three functions of channel_uri.rs were translated (the proof that the translated trees are the model
    # is C19_k1_parser / C19_k1_display / C19_k1_session_id of Props/C19.v)
    vals = core.coq_eval('C19_parser_k1', IMPORTS,
                         ['(gen_parser_ok, gen_display_ok, sid_ok gen_sid, gen_accessors_ok)'])
    flags = [x == ('app', 'true', []) for x in vals[0][1]]
    out.append((all(flags), 'K1 parser side translated (ChannelUri::parse, Display::fmt, add_session_id -> Generated/GenUriParser.v)',
                'parse: %s; fmt: %s; add_session_id: %s; accessors prefix/media/get/get_or_default/put/remove/contains_key: %s' % tuple(
                    'as expected' if f else 'CHANGED / NOT UNDERSTOOD' for f in flags)))
    # the corners of the grammar the task names were all generated
    want = sorted(CORNERS) + sorted(MALFORMED_CORNERS) + ['small-scope']
    missing = [n for n in want if not LAST_CORNERS.get(n)]
    out.append((not missing, 'generated corners of the URI grammar',
                '%d corner classes, missing: %s; cases per class min %d; small-scope strings %d; classes: %s' % (
                    len(want), missing or 'none', min([LAST_CORNERS.get(n, 0) for n in want] or [0]), LAST_CORNERS.get('small-scope', 0),
                    ' '.join(want))))
    return out
