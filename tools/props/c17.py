"""C17 - position / term arithmetic is consistent, including term-id wrap-around.

Two ties between the theorems and the code:
  K1  tools/props/c17_translate.py translates the bodies of the thirteen arithmetic functions from the Rust source of the
      repository under check into Gallina (coq/Generated/GenDescriptor.v) on every run; Proofs/GenDescriptorProofs.v proves
      them equal to the hand-written model on the whole typed domain and Props/C17.v states the property for them
      (theorems C17_src_...).  A change of the source that changes the arithmetic breaks `make Props/C17.vo`.
  K2  the differential run executes the hand-written model of Model/Descriptor.v and the compiled functions on the same
      inputs and applies the oracle to what the implementation returned (this finds the concrete failing input).
"""
import os
import re

from vlib.term import z

ID = 'C17'
PROP_FILE = 'Props/C17.v'
# what the differential run needs: deliberately NOT the generated file, so that a source change that breaks the
# translation or the proofs about it still leaves model and oracle runnable and a failing input is searched for.
# Proofs/GenDescriptorProofs.v and Generated/GenDescriptor.v are built through the Requires of PROP_FILE.
EVAL_FILES = ['Oracle/C17Oracle.v']
K1_PROOF_FILES = ['Base/MachineInt2.v', 'Generated/GenDescriptor.v', 'Proofs/SrcNorm.v', 'Proofs/GenDescriptorProofs.v']
CRATES = ['c17']
MODES = ['debug', 'release']
IMPORTS = 'Require Import V.Base.MachineInt V.Model.Descriptor V.Oracle.C17Oracle.'
RULE = ('boundary-centred grid: initial term id in {MIN, MIN+1, -1, 0, 1, MAX-65536..MAX dense, random}, elapsed terms n in '
        '{0,1,2,3,65535,65536,2^31-2,2^31-1, random}, all 15 legal term lengths (bits 16..30), offsets {0,32,TL-32,TL,random aligned}; '
        'kinds: pos (5 descriptor functions), hdr (Header::position on a crafted frame), rot (rotate_log on crafted meta data), rotl (a late rotate_log call on meta data already rotated k = 1..7 times: nothing may change; theorems C17_oracle_rotate_late and C17_oracle_rotate_late_k), '
        'pub / xpub (real Publication / ExclusivePublication offer on an in-memory log handed over at (n0, off0), n0 up to the last term 2^31-1), '
        'ppos (position() of both publication flavours with the tail counter at, before and beyond the end of the term); debug and release builds. '
        'A case is non-trivial when init + n leaves the i32 range (the term id has wrapped) or n >= 2^16; distinct = distinct argument tuples. '
        'Before the cases run, the bodies of index_by_term, index_by_term_count, index_by_position, compute_position, '
        'compute_term_begin_position, term_id, term_offset, next_partition_index, previous_partition_index, rotate_log '
        '(log_buffer_descriptor.rs), align (bit_utils.rs), compute_max_message_length (frame_descriptor.rs) and Header::position '
        '(header.rs) are translated from the working tree into Generated/GenDescriptor.v and the C17_src_... theorems are re-proved for them')
ASSUMPTIONS = [
    'term lengths are powers of two 2^16..2^30 (bits 16..30); pub cases use 2^10..2^16 in-memory logs which LogBuffers::new accepts',
    'rotate_log is modelled (and translated) without interference from a concurrent rotator: the loop body runs once and the tail CAS '
    'that compares with the value just read succeeds (interleavings belong to C02)',
    'position_bits_to_shift is in 0..63 wherever the generated functions are equated with the hand-written model (outside, a Debug build '
    'panics on the shift: theorem C17_src_shift_panics); the C17 statements themselves need 0..31',
    'the getters Header::term_offset / frame_length / term_id and the fields initial_term_id / position_bits_to_shift are inputs of the '
    'translated Header::position (their types are read from header.rs; that they read the frame is checked by the hdr cases of the differential run)',
]
TRUSTED = [
    'K1 source translator tools/props/c17_translate.py (Python, ~950 lines): lexer, precedence parser and typed emitter for the arithmetic '
    'subset of Rust described in its docstring; it fails closed (function left out, K1 reported broken, proofs about it fail) outside that subset. '
    'Trusted to read the Rust operators, operand types, casts, literals and evaluation order as rustc does for that subset',
    'coq/Base/MachineInt2.v: definitions of the shift (amount-checked), division / remainder (panic on 0 and MIN / -1) and i32 shift operators, '
    'and the reading of & | ^ ! as Z.land Z.lor Z.lxor Z.lnot',
    'the three meta-data accessors raw_tail_by_partition_index / cas_raw_tail / cas_active_term_count are compared token by token with their '
    'expected text (read at, CAS at TERM_TAIL_COUNTER_OFFSET + index * 8; CAS at LOG_ACTIVE_TERM_COUNT_OFFSET), not translated',
]

MAXI = 2**31 - 1
MINI = -2**31


def mode_c(mode):
    return 'Debug' if mode == 'debug' else 'Release'


def wrap32(x):
    return (x + 2**31) % 2**32 - 2**31


def generate(rng, tier):
    big = tier == 'thorough'
    inits = [MINI, MINI + 1, -1, 0, 1, MAXI, MAXI - 1, MAXI - 2, MAXI - 65535, MAXI - 65536]
    inits += [MAXI - rng.randrange(0, 65537) for _ in range(20 if not big else 40)]
    inits += [rng.randrange(MINI, MAXI + 1) for _ in range(10 if not big else 30)]
    ns = [0, 1, 2, 3, 4, 65535, 65536, 2**31 - 2, 2**31 - 1] + [rng.randrange(0, 2**31) for _ in range(4 if not big else 8)] \
        + [rng.randrange(0, 70000) for _ in range(4 if not big else 8)]
    cases = []
    for init in inits:
        for n in ns:
            bits_list = range(16, 31) if big else rng.sample(range(16, 31), 3)
            for bits in bits_list:
                tl = 1 << bits
                for off in rng.sample([0, 32, tl - 32, tl, 32 * rng.randrange(0, tl // 32)], 2):
                    cases.append({'kind': 'pos', 'args': [init, n, bits, off]})
            bits = rng.randrange(16, 31)
            tl = 1 << bits
            ln = rng.choice([32, 33, 64, 100, 1408, 4096 + 32])
            off = 32 * rng.randrange(0, (tl - 8192) // 32)
            cases.append({'kind': 'hdr', 'args': [init, n, bits, off, ln]})
            if n < 2**31 - 1:
                cases.append({'kind': 'rot', 'args': [init, n, 32 * rng.randrange(0, 1000), 32 * rng.randrange(0, 1000), 32 * rng.randrange(0, 1000)]})
            if n < 2**31 - 10:     # a late caller: the log is already k >= 1 rotations further and the terms may hold data - nothing may change
                for k in (1, rng.choice([2, 3, 4, 5, 6, 7])):
                    cases.append({'kind': 'rotl', 'args': [init, n, 32 * rng.randrange(0, 1000), 32 * rng.randrange(0, 1000), 32 * rng.randrange(0, 1000), k]})
    # a real publication on a log handed over by the driver at (n0, off0)
    for init in inits[:12] + inits[-6:]:
        for n0 in [0, 1, 2, 5, 65536, 2**31 - 3] + [rng.randrange(0, 2**31 - 2)]:
            bits = rng.choice([10, 12, 16])
            tl = 1 << bits
            for off0, ln in [(0, 40), (64, 100), (tl - 64, 100), (tl - 96, 30), (tl - 256, 200)]:
                cases.append({'kind': 'pub', 'args': [init, n0, bits, off0, ln]})
    if not big:
        rng.shuffle(cases)
        keep = [c for c in cases if c['kind'] != 'pos'][:1200] + [c for c in cases if c['kind'] == 'pos'][:2500]
        cases = keep
    # position() of a publication whose tail counter lies at / beyond the end of the term (tripped append, nobody rotated
    # yet; the last term), exclusive publications, and offers in the very last term (n0 = 2^31 - 1): no rotation there
    extra = []
    for init in [MINI, -1, 0, 5, MAXI - 1, MAXI] + [rng.randrange(MINI, MAXI + 1) for _ in range(3 if not big else 12)]:
        for n0 in [0, 1, 2, 65536, 2**31 - 2, 2**31 - 1] + [rng.randrange(0, 2**31)]:
            bits = rng.choice([10, 12, 16])
            tl = 1 << bits
            for off0 in [0, 64, tl - 32, tl, tl + 32, tl + 96, tl + 32 * rng.randrange(1, 64), 32 * rng.randrange(0, tl // 32)]:
                extra.append({'kind': 'ppos', 'args': [init, n0, bits, off0]})
            for off0, ln in [(0, 40), (tl - 64, 100), (tl - 96, 30), (tl - 128, 96), (32 * rng.randrange(0, tl // 32), rng.randrange(0, 120))]:
                extra.append({'kind': 'xpub', 'args': [init, n0, bits, off0, ln]})
                if n0 >= 2**31 - 2:
                    extra.append({'kind': 'pub', 'args': [init, n0, bits, off0, ln]})
    return cases + extra


def impl_line(c):
    return c['kind'] + ' ' + ' '.join(str(a) for a in c['args'])


def _ok(e):
    return '(Ok (%s))' % e


def model_expr(c, mode):
    m = mode_c(mode)
    a = c['args']
    if c['kind'] == 'pos':
        init, n, bits, off = a
        t = 'wrap32 (%s + %s)' % (z(init), z(n))
        return ('(compute_position %s (%s) %s %s %s, %s, %s, %s, %s)' % (
            m, t, z(off), z(bits), z(init),
            _ok('compute_term_begin_position (%s) %s %s' % (t, z(bits), z(init))),
            _ok('index_by_term %s (%s)' % (z(init), t)),
            _ok('index_by_term_count %s' % z(n)),
            _ok('index_by_position (%s * 2 ^ %s + %s) %s' % (z(n), z(bits), z(off), z(bits)))))
    if c['kind'] == 'hdr':
        init, n, bits, off, ln = a
        return 'header_position %s %s %s (wrap32 (%s + %s)) %s %s' % (m, z(init), z(bits), z(init), z(n), z(off), z(ln))
    if c['kind'] == 'rot':
        init, n, o0, o1, o2 = a
        return ('let s := c17_meta %s %s %s %s %s in (meta_tuple s, match rotate_log %s s %s (wrap32 (%s + %s)) with '
                'Ok s1 => Ok (meta_tuple s1) | Err e => Err e | Panic => Panic | Hang => Hang | Crash => Crash end)' % (
                    z(init), z(n), z(o0), z(o1), z(o2), m, z(n), z(init), z(n)))
    if c['kind'] == 'rotl':
        init, n, o0, o1, o2, k = a
        return ('let s := c17_meta %s %s %s %s %s in (meta_tuple s, match rotate_log %s s %s (wrap32 (%s + %s)) with '
                'Ok s1 => Ok (meta_tuple s1) | Err e => Err e | Panic => Panic | Hang => Hang | Crash => Crash end)' % (
                    z(init), z(n + k), z(o0), z(o1), z(o2), m, z(n), z(init), z(n)))
    if c['kind'] == 'ppos':
        init, n0, bits, off0 = a
        e = 'model_ppos %s %s %s %s %s' % (m, z(init), z(n0), z(bits), z(off0))
        return '(%s, %s)' % (e, e if off0 <= (1 << bits) else 'Skipped')
    if c['kind'] in ('pub', 'xpub'):
        return None     # the publication path is modelled in C01/C04; here the oracle alone judges it
    raise ValueError(c)


def oracle_expr(c, mode, obs):
    from vlib.term import to_coq
    a = c['args']
    if c['kind'] == 'pos':
        init, n, bits, off = a
        parts = obs[1]
        return 'holds_position %s %s %s %s %s' % (z(init), z(n), z(bits), z(off), ' '.join(to_coq(p) for p in parts))
    if c['kind'] == 'hdr':
        init, n, bits, off, ln = a
        return 'holds_header %s %s %s %s %s %s' % (z(init), z(n), z(bits), z(off), z(ln), to_coq(obs))
    if c['kind'] == 'rot':
        init, n = a[0], a[1]
        before, after = ('tuple', obs[1][:4]), obs[1][4]
        after_c = to_coq(after) if after[1] != 'Ok' else '(Ok (tuple_meta %s))' % to_coq(after[2][0])
        return 'holds_rotate %s %s (tuple_meta %s) %s' % (z(init), z(n), to_coq(before), after_c)
    if c['kind'] == 'rotl':
        before, after = ('tuple', obs[1][:4]), obs[1][4]
        after_c = to_coq(after) if after[1] != 'Ok' else '(Ok (tuple_meta %s))' % to_coq(after[2][0])
        return 'holds_rotate_late (tuple_meta %s) %s' % (to_coq(before), after_c)
    if c['kind'] in ('pub', 'xpub'):
        init, n0, bits, off0, ln = a
        return 'holds_pub %s %s %s %s %s %s' % (z(init), z(n0), z(bits), z(off0), z(ln), to_coq(obs))
    if c['kind'] == 'ppos':
        init, n0, bits, off0 = a
        sh, ex = obs[1][0], obs[1][1]
        e = 'holds_ppos %s %s %s %s %s' % (z(init), z(n0), z(bits), z(off0), to_coq(sh))
        if ex != ('app', 'Skipped', []):
            e += ' && holds_ppos %s %s %s %s %s' % (z(init), z(n0), z(bits), z(off0), to_coq(ex))
        return e
    raise ValueError(c)


def nontrivial(c):
    init, n = c['args'][0], c['args'][1]
    return not (MINI <= init + n <= MAXI) or n >= 65536


def shrink(c):
    out = []
    a = c['args']
    for i in range(1, len(a)):
        for v in (0, a[i] // 2, a[i] - 1):
            if v != a[i] and v >= 0:
                b = list(a)
                b[i] = v
                if c['kind'] in ('pos', 'hdr', 'pub', 'xpub', 'ppos') and i == 2:
                    continue
                out.append({'kind': c['kind'], 'args': b})
    return out


def extra_checks(run):
    """K1 bookkeeping: the proofs about the translated source are really part of what Props/C17.v rests on, and the
    translator produced all thirteen functions (a function it did not understand is missing from the generated file)."""
    from vlib import core
    from props import c17_translate
    out = []
    missing = [f for f in K1_PROOF_FILES if f not in run.dep_files]
    out.append((not missing, 'K1 proof files are dependencies of ' + PROP_FILE, 'missing: %s' % missing if missing else 'all required'))
    try:
        gen = open(os.path.join(core.COQ, 'Generated', 'GenDescriptor.v')).read()
    except OSError as e:
        gen = ''
    names = re.findall(r'(?m)^Definition (src_\w+) \(m : mode\)', gen)
    want = [c17_translate.COQ_NAME.get(n, 'src_' + n) for n, _, _ in c17_translate.FUNCTIONS]
    lost = [n for n in want if n not in names]
    out.append((not lost, 'K1 translated every function of the list', 'not translated: %s' % lost if lost else '%d functions' % len(names)))
    return out
