"""C01 - stream fidelity: what the subscriber's FragmentAssembler delivers is exactly the sequence of messages the publisher
got accepted, in order, each once, byte for byte."""
import os
import sys

if __name__ == '__main__':
    sys.path.insert(0, os.path.dirname(os.path.dirname(os.path.abspath(__file__))))

from vlib.term import z, to_coq

ID = 'C01'
PROP_FILE = 'Props/C01.v'
EXTRA_PROP_FILES = ['Props/C01Src.v']     # K1 source tie (tools/props/src_translate.py), see docs/reports/SRC.md
EVAL_FILES = ['Model/StreamSys.v', 'Oracle/C01Oracle.v']
CRATES = ['c01']
MODES = ['debug', 'release']
IMPORTS = 'Require Import V.Base.MachineInt V.Model.LogBase V.Model.Publication V.Model.StreamSys V.Oracle.C01Oracle.'
RULE = ('histories of 5..60 operations on one publisher (shared Publication / ExclusivePublication, alternating), one real Image over '
        'the SAME in-memory log and a real FragmentAssembler behind the image\'s handler: {offer k len (every fourth one on the shared publication as a vectored offer_bulk of the same bytes, cut anywhere - modelled as the offer of the concatenation, which C18 justifies) | try_claim len, later commit k / abort | '
        'poll limit | driver: set publication limit, zero partition i, set connected | close}. Geometry: term length 1 KiB / 4 KiB / 64 KiB, '
        'MTU a multiple of 32 in 64..term/8; hand-over at (n0, off0) with n0 in {0,1,2,5, 2^31-3, random}, off0 in {0, half, TL-64, TL-32, TL, '
        'random aligned}; initial term id in {0, -1, MIN, MAX-2..MAX, random}. Message lengths from {0,1,31,32,33, payload-1, payload, payload+1, '
        '2 payload, k payload, max-1, max, exactly-fills-the-term, one-frame-too-many, random}; poll limits {1,2,10,MAX, 0, -1}; phases in which '
        'the subscriber lags (back pressure) and phases in which it drains; a message refused with AdminAction at a term end is usually '
        're-offered; about half of the histories end with polls until two polls in a row return 0. A Python tracker simulates both positions and '
        'keeps the environment contract (env_ok of Model/StreamSys.v) for these "judged" histories; every 10th history is malformed on purpose '
        '(offers while a claim is open, limit beyond the window, cleaning a partition in use, commit without a claim / twice, the last terms of '
        'the position space, operations after close) and only compared with the model. After every operation: result, every fragment the image '
        'handed to the assembler (offset, length, flags, Header::position(), session, term id, reserved value, hash of the bytes), every '
        'message the assembler handed on (session, length, hash), publication.position(), image.position(). '
        'non-trivial = a judged history of >= 5 operations with at least one offer / claim and one poll; distinct = distinct histories')
ASSUMPTIONS = [
    'one publisher thread and one subscriber thread whose operations are observed sequentially (interleavings inside an append / a poll belong to C02 / C03)',
    'limit_within_window: the driver never sets the publication limit beyond subscriber position + term length',
    'clean_before_reuse: whenever the publisher is below its limit the partition the log rotates into next is zero; the driver never zeroes the '
    'active partition nor a partition the subscriber has not left',
    'the application commits or aborts its one BufferClaim exactly once and publishes nothing else while the claim is open; lengths are >= 0',
    'the publication limit is never more than half a term beyond the end of the position space (C04 limit_ok); the last term of the position space is included',
]
PER_CASE_TIMEOUT = 5.0
CHUNK = 8

# holds_c01 geometry flavour ops observations: the second argument is `true` for the exclusive publication
ORACLE_WITH_FLAVOUR = False

MAXI = 2**31 - 1
MINI = -2**31
I64MAX = 2**63 - 1
I64MIN = -2**63
SESSION, STREAM = 11, 22
MAXN = 2**31 - 1          # the last term of the position space (the contract includes it)

GEOMS = [(1024, 64), (1024, 96), (1024, 128), (4096, 64), (4096, 128), (4096, 512), (65536, 1408), (65536, 4096), (65536, 64)]


def mode_c(mode):
    return 'Debug' if mode == 'debug' else 'Release'


def align(v, a=32):
    return (v + a - 1) // a * a


def required(length, mpl):
    if length <= mpl:
        return align(length + 32)
    q, r = divmod(length, mpl)
    return q * (mpl + 32) + (align(r + 32) if r > 0 else 0)


# ---------------------------------------------------------------------------------------------
# the tracker: positions of publisher and subscriber, frames per term, the environment contract

class Term:
    __slots__ = ('frames', 'at', 'end')

    def __init__(self, start):
        self.frames = []        # [span, kind]  kind: data | pad | claimed
        self.at = {}            # offset -> index into frames
        self.end = start

    def add(self, span, kind):
        self.at[self.end] = len(self.frames)
        self.frames.append([span, kind])
        self.end += span
        return len(self.frames) - 1


class Tracker:
    """Exact arithmetic of the composed system for histories that keep the contract (and a fair estimate otherwise)."""

    def __init__(self, tlen, mtu, n0, off0):
        self.tlen, self.mtu, self.mpl = tlen, mtu, mtu - 32
        self.maxmsg = min(tlen // 8, 16 * 1024 * 1024)
        self.n, self.off = n0, off0
        self.limit, self.closed, self.connected = 0, False, False
        self.open = False            # sy_open of the model
        self.claim = None            # (term, frame index) the BufferClaim points at
        self.claim_valid = False     # ... and that frame is still in the log
        self.terms = {n0: Term(off0)}
        self.sp = n0 * tlen + off0
        self.dirty = [False, False, False]
        self.dirty[n0 % 3] = True    # hand-over: treated as written from the start
        self.st = {'ops': 0, 'appends': 0, 'accepted': 0, 'trips': 0, 'bp': 0, 'toolong': 0, 'closed': 0, 'polls': 0, 'frags': 0,
                   'claims': 0, 'commits': 0, 'aborts': 0, 'cleans': 0, 'limits': 0, 'multi3_trips': 0, 'empty_polls': 0}
        self.sp0 = self.sp
        self.n_start = n0

    # -- publisher
    def pos(self):
        return self.n * self.tlen + min(self.off, self.tlen)

    def below(self):
        return (not self.closed) and self.pos() < self.limit

    def outcome(self, ln, claim):
        """what an offer / claim of ln bytes would do now: closed | toolong | bp | ok | trip"""
        if claim and ln > self.mpl:
            return 'toolong'
        if self.closed:
            return 'closed'
        if self.pos() >= self.limit:
            return 'bp'
        if not claim and ln > self.maxmsg:
            return 'toolong'
        return 'ok' if self.off + required(ln, self.mpl) <= self.tlen else 'trip'

    def _append(self, ln, claim):
        self.st['appends'] += 1
        r = self.outcome(ln, claim)
        if r in ('closed', 'toolong', 'bp'):
            self.st[r] += 1
            return r
        T = self.terms.setdefault(self.n, Term(self.off))
        if r == 'ok':
            if claim:
                idx = T.add(align(ln + 32), 'claimed')
                self.claim, self.claim_valid, self.open = (self.n, idx), True, True
                self.st['claims'] += 1
            elif ln <= self.mpl:
                T.add(align(ln + 32), 'data')
            else:
                q, rem = divmod(ln, self.mpl)
                for _ in range(q):
                    T.add(self.mtu, 'data')
                if rem > 0:
                    T.add(align(rem + 32), 'data')
            self.off += required(ln, self.mpl)
            self.dirty[self.n % 3] = True
            self.st['accepted'] += 1
            return 'ok'
        # the message does not fit: padding to the end of the term, rotation
        if self.n >= MAXI:                       # last term of the position space: padding, no rotation, MaxPositionExceeded;
            if self.off < self.tlen:             # the publication is at the end of the position space from now on
                T.add(self.tlen - self.off, 'pad')
                self.dirty[self.n % 3] = True
            self.off = self.tlen
            self.st['lastterm_trips'] = self.st.get('lastterm_trips', 0) + 1
            return 'maxpos'
        if self.off < self.tlen:
            T.add(self.tlen - self.off, 'pad')
            self.dirty[self.n % 3] = True
        self.n, self.off = self.n + 1, 0
        self.terms[self.n] = Term(0)
        self.st['trips'] += 1
        if not claim and ln > 2 * self.mpl:
            self.st['multi3_trips'] += 1
        return 'trip'

    def _claim_frame(self):
        if self.claim is None or not self.claim_valid:
            return None
        T = self.terms.get(self.claim[0])
        if T is None or self.claim[1] >= len(T.frames):
            return None
        return T.frames[self.claim[1]]

    # -- subscriber
    def poll(self, limit):
        k, o = divmod(self.sp, self.tlen)
        T = self.terms.get(k)
        cnt = 0
        if T is not None:
            while cnt < limit and o < self.tlen:
                idx = T.at.get(o)
                if idx is None:
                    break
                span, kind = T.frames[idx]
                if kind == 'claimed':
                    break
                o += span
                if kind == 'data':
                    cnt += 1
        self.sp = k * self.tlen + o
        self.st['polls'] += 1
        self.st['frags'] += cnt
        if cnt == 0:
            self.st['empty_polls'] += 1
        return cnt

    # -- environment contract (env_ok of Model/StreamSys.v; `dirty` is a conservative stand-in for "partition not empty")
    def clean_allowed(self, i):
        if not (0 <= i < 3) or i == self.n % 3:
            return False
        k = self.sp // self.tlen
        for d in (1, 2):
            if k <= self.n - d and i == (self.n - d) % 3:
                return False
        return True

    def env_ok(self, op):
        t = op[0]
        if t in ('o', 'c'):
            ln = op[2] if t == 'o' else op[1]
            if not (0 <= ln <= 2**30) or self.open:
                return False
            return (not self.below()) or (not self.dirty[(self.n + 1) % 3])
        if t in ('m', 'a'):
            return self.open
        if t == 'l':
            return op[1] <= self.sp + self.tlen and op[1] <= self.tlen * 2**31 + self.tlen // 2
        if t == 'z':
            return self.clean_allowed(op[1])
        return t in ('p', 'n', 'x')

    def apply(self, op):
        self.st['ops'] += 1
        t = op[0]
        if t == 'o':
            return self._append(op[2], False)
        if t == 'c':
            return self._append(op[1], True)
        if t in ('m', 'a'):
            self.open = False
            if self.claim is None:
                return 'panic'
            f = self._claim_frame()
            if f is not None:
                if t == 'a':
                    f[1] = 'pad'
                elif f[1] == 'claimed':
                    f[1] = 'data'
            self.st['commits' if t == 'm' else 'aborts'] += 1
            return 'ok'
        if t == 'p':
            return self.poll(op[1])
        if t == 'l':
            self.limit = op[1]
            self.st['limits'] += 1
            return 'ok'
        if t == 'z':
            i = op[1]
            if 0 <= i < 3:
                self.dirty[i] = False
                for k in [k for k in self.terms if k % 3 == i]:
                    if k == self.n:
                        self.terms[k] = Term(min(self.off, self.tlen))
                    else:
                        del self.terms[k]
                if self.claim is not None and self.claim[0] % 3 == i:
                    self.claim_valid = False
            self.st['cleans'] += 1
            return 'ok'
        if t == 'n':
            self.connected = bool(op[1])
            return 'ok'
        if t == 'x':
            self.closed = True
            return 'ok'
        raise ValueError(op)


def check_contract(case):
    """re-simulate: does every operation of the history meet env_ok?"""
    tlen, mtu, init, n0, off0 = case['geom']
    if not (tlen > 0 and mtu >= 64 and 0 <= n0 and 0 <= off0 <= tlen and off0 % 32 == 0):
        return False
    t = Tracker(tlen, mtu, n0, off0)
    for op in case['ops']:
        if not t.env_ok(op):
            return False
        t.apply(op)
    return True


def simulate(case):
    tlen, mtu, init, n0, off0 = case['geom']
    t = Tracker(tlen, mtu, n0, off0)
    res = []
    for op in case['ops']:
        res.append(t.apply(op))
    return t, res


# ---------------------------------------------------------------------------------------------
# generation

def exact_len(left, mtu, mpl, maxmsg):
    """a message length whose required length is exactly `left` bytes (a multiple of 32), or None"""
    if left < 32:
        return None
    out = []
    if left - 32 <= mpl:
        out.append(left - 32)
    q, r = divmod(left, mtu)
    if q >= 1:
        if r == 0 and q >= 2:
            out.append(q * mpl)
        elif r > 32:
            out.append(q * mpl + (r - 32))
    out = [v for v in out if 0 <= v <= maxmsg]
    return out[-1] if out else None


def pick_len(rng, t, claim=False):
    mpl, mm = t.mpl, t.maxmsg
    left = max(0, t.tlen - min(t.off, t.tlen))
    fill = exact_len(left, t.mtu, mpl, mpl if claim else mm)
    over = exact_len(left + 32, t.mtu, mpl, mpl if claim else mm)
    toolong = False
    if claim:
        cands = [0, 1, 31, 32, 33, mpl - 1, mpl, mpl, rng.randrange(0, mpl + 1), rng.randrange(0, mpl + 1), rng.randrange(0, 64)]
        if rng.random() < 0.05:
            cands, toolong = [mpl + 1], True
    else:
        cands = [0, 1, 31, 32, 33, mpl - 1, mpl, mpl + 1, 2 * mpl, 2 * mpl + 1, 3 * mpl, rng.randrange(2, 6) * mpl, 3 * mpl + 5, mm - 1, mm,
                 rng.randrange(0, mpl + 1), rng.randrange(0, mm + 1), rng.randrange(0, mm + 1), rng.randrange(0, 100), rng.randrange(0, 100)]
        if rng.random() < 0.03:
            cands, toolong = [mm + 1, mm + 40], True
    if fill is not None:
        cands += [fill, fill]
    if over is not None:
        cands += [over]
    v = rng.choice(cands)
    if not toolong:
        v = min(v, mpl if claim else mm)
    return max(0, min(v, mm + 40))


def pick_limit(rng, t, lastlen=64):
    w = min(t.sp + t.tlen, t.tlen * 2**31 + t.tlen // 2)
    p = t.pos()
    cands = [(w, 10), (t.sp + t.tlen // 2, 2), (w - 32, 2), (p + 32, 2), (p, 1), (p + required(lastlen, t.mpl), 2), (p + required(lastlen, t.mpl) - 32, 1),
             (t.sp + 32 * rng.randrange(0, t.tlen // 32 + 1), 3), (t.sp + rng.randrange(0, t.tlen + 1), 1), (rng.choice([0, 1, 32, -1, I64MIN]), 1)]
    cands = [(v, wgt) for v, wgt in cands if v <= w and v <= t.tlen * 2**31 + t.tlen // 2]
    return rng.choices([c[0] for c in cands], [c[1] for c in cands])[0]


def pick_poll_limit(rng):
    return rng.choice([1, 1, 2, 2, 10, 10, 10, MAXI, MAXI, 3, 0, -1] if rng.random() < 0.3 else [1, 2, 10, 10, MAXI])


def gen_history(rng, pubkind, malformed=False, last_terms=False, geom=None, nops=None, end_drain=None):
    if geom is None:
        tlen, mtu = rng.choice(GEOMS[:6]) if rng.random() < 0.85 else rng.choice(GEOMS[6:])
        init = rng.choice([0, rng.randrange(MINI, MAXI + 1), MAXI - 2, MAXI - 1, MAXI, MINI, -1])
        if last_terms:
            n0 = rng.choice([2**31 - 1, 2**31 - 2])
        else:
            n0 = rng.choice([0, 1, 2, 5, 2**31 - 3, rng.randrange(0, 2**31 - 3), rng.randrange(0, 1000)])
        off0 = rng.choice([0, align(tlen // 2), tlen - 64, tlen - 32, tlen, 32 * rng.randrange(0, tlen // 32 + 1)])
    else:
        tlen, mtu, init, n0, off0 = geom
    big = tlen > 4096
    t = Tracker(tlen, mtu, n0, off0)
    ops = []
    judged = not malformed
    if nops is None:
        nops = rng.randrange(5, 26 if big else 53)
    if end_drain is None:
        end_drain = rng.random() < 0.5
    k = rng.randrange(0, 200)
    pending = None               # message refused with AdminAction, to be offered again
    lastlen = 64
    hard_cap = nops + 14

    def emit(op):
        if judged and not t.env_ok(op):
            raise AssertionError('generator broke the contract: %r after %r' % (op, ops))
        r = t.apply(op)
        ops.append(op)
        return r

    def do_poll(lim=None):
        before = t.sp
        r = emit(['p', pick_poll_limit(rng) if lim is None else lim])
        if t.sp != before and rng.random() < 0.5 and not t.closed:
            emit(['l', pick_limit(rng, t, lastlen)])       # the driver moves the window after the subscriber
        return r

    def do_append(claim):
        nonlocal pending, k, lastlen
        if claim:
            ln = pick_len(rng, t, True)
            op = ['c', ln]
        else:
            if pending is not None and rng.random() < 0.75:
                kk, ln = pending
            else:
                k += 1
                kk, ln = k, pick_len(rng, t, False)
            op = ['o', kk, ln]
        if t.below():
            i = (t.n + 1) % 3
            if t.dirty[i]:
                if t.clean_allowed(i) or malformed:
                    emit(['z', i])
                else:
                    return do_poll()                       # the subscriber still sits in that partition
        r = emit(op)
        lastlen = ln
        if not claim:
            pending = (op[1], ln) if r == 'trip' else None
        return r

    def do_clean():
        cands = [i for i in range(3) if t.clean_allowed(i)]
        if not cands:
            return do_poll()
        return emit(['z', rng.choice(cands)])

    def inject():
        """one deliberate breach of the contract (malformed histories only)"""
        nonlocal k
        c = rng.randrange(8)
        k += 1
        if c == 0 and t.open:
            if t.below() and t.dirty[(t.n + 1) % 3]:
                emit(['z', (t.n + 1) % 3])
            emit(rng.choice([['o', k, pick_len(rng, t)], ['c', pick_len(rng, t, True)]]))
        elif c == 1:
            emit(['l', rng.choice([t.sp + 3 * tlen, t.sp + tlen + 32, t.pos() + 4 * tlen, I64MAX, t.sp + 2 * tlen])])
        elif c == 2 and not t.open:
            emit(['z', t.n % 3])
        elif c == 3 and not t.open:
            emit(['z', (t.sp // tlen) % 3])
        elif c == 4 and not t.open and (t.claim is None or t.claim_valid):
            emit(rng.choice([['m', k], ['m', k], ['a']]))
        elif c == 5:
            emit(['x'])
        elif c == 6:
            emit(['n', 0])
        else:
            emit(['p', rng.choice([0, -1, MINI, MAXI])])

    # most histories open the window and connect first
    if rng.random() < 0.95:
        emit(['l', min(t.sp + tlen, tlen * 2**31 + tlen // 2) if rng.random() < 0.75 else pick_limit(rng, t)])
    if rng.random() < 0.7:
        emit(['n', 1])
    phase = rng.choice(['lag', 'drain', 'mixed', 'mixed'])
    while len(ops) < nops:
        if rng.random() < 0.07:
            phase = rng.choice(['lag', 'drain', 'mixed'])
        ppoll = {'lag': 0.05, 'drain': 0.42, 'mixed': 0.2}[phase]
        if malformed and rng.random() < 0.15:
            inject()
            continue
        r = rng.random()
        if t.open:
            if malformed and not t.claim_valid:
                t.open = False
            elif r < 0.55:
                k += 1
                emit(['m', k])
            elif r < 0.70:
                emit(['a'])
            elif r < 0.88:
                do_poll()
            elif r < 0.95:
                emit(['l', pick_limit(rng, t, lastlen)])
            else:
                do_clean()
            continue
        if r < ppoll:
            do_poll()
            continue
        r2 = rng.random()
        if r2 < 0.56:
            do_append(False)
        elif r2 < 0.75:
            do_append(True)
        elif r2 < 0.86:
            emit(['l', pick_limit(rng, t, lastlen)])
        elif r2 < 0.90:
            emit(['n', rng.choice([0, 1, 1])])
        elif r2 < 0.96:
            do_clean()
        elif len(ops) > nops - 6 and rng.random() < 0.3:
            emit(['x'])
            if malformed or rng.random() < 0.5:
                k += 1
                emit(['o', k, pick_len(rng, t)])
        else:
            do_poll()
    drained = False
    if end_drain:
        if t.open and (judged or t.claim_valid):
            k += 1
            emit(['m', k] if rng.random() < 0.8 else ['a'])
        zeros = 0
        while zeros < 2 and len(ops) < hard_cap:
            before = t.sp
            r = emit(['p', rng.choice([10, 10, MAXI, 2])])
            zeros = zeros + 1 if (r == 0 and t.sp == before) else 0
        drained = zeros >= 2
    case = {'kind': 'malformed' if malformed else 'hist', 'pub': pubkind, 'geom': [tlen, mtu, init, n0, off0], 'ops': ops, 'judged': judged}
    return case, t, drained


def _with_cleans(pubkind, geom, script, kind='hist'):
    """hand-written history: `script` without the driver's cleaning; the needed `z` operations are inserted"""
    tlen, mtu, init, n0, off0 = geom
    t = Tracker(tlen, mtu, n0, off0)
    ops = []
    for op in script:
        if op[0] in ('o', 'c') and t.below() and t.dirty[(t.n + 1) % 3] and t.clean_allowed((t.n + 1) % 3):
            z_op = ['z', (t.n + 1) % 3]
            t.apply(z_op)
            ops.append(z_op)
        t.apply(op)
        ops.append(list(op))
    return {'kind': kind, 'pub': pubkind, 'geom': list(geom), 'ops': ops, 'judged': True}


def boundary_cases():
    out = []
    for pk in ('s', 'x'):
        # the worked example of the model (1 KiB terms, MTU 64, hand-over at term count 2 near the term end); with the limit two
        # terms ahead of the subscriber (outside limit_within_window: compared with the model only) and with the limit on the window's edge
        for lim, judged in ((4928, False), (2880 + 1024, True)):
            out.append({'kind': 'hist' if judged else 'malformed', 'pub': pk, 'geom': [1024, 64, MAXI, 2, 832], 'judged': judged,
                        'ops': [['l', lim], ['n', 1], ['o', 1, 40], ['p', 10], ['o', 2, 100], ['o', 3, 70], ['p', 1], ['p', 10], ['p', 10],
                                ['z', 1], ['o', 4, 8], ['p', 10], ['p', 10]]})
        # 64 KiB terms, MTU 4096, term count 2, 8 KiB before the term end: a 3-fragment message (8192 = max) crosses it
        g = [65536, 4096, -1, 2, 65536 - 8192]
        sp = 2 * 65536 + 65536 - 8192
        out.append(_with_cleans(pk, g, [['l', sp + 65536], ['n', 1], ['o', 1, 100], ['p', 10], ['o', 2, 8192], ['p', 1], ['o', 2, 8192], ['p', 2],
                                       ['l', 3 * 65536 + 65536], ['p', 10], ['c', 4064], ['p', 10], ['m', 3], ['p', 10], ['p', 10]]))
        # empty messages, a claim aborted, a claim committed late, exact fill of the term, hand-over at the very end of a term
        g = [1024, 96, 0, 0, 1024]
        out.append(_with_cleans(pk, g, [['l', 2048], ['n', 1], ['o', 1, 0], ['c', 0], ['p', 10], ['a'], ['p', 10], ['c', 64], ['p', 10], ['m', 2],
                                       ['p', 1], ['o', 3, 128], ['o', 4, 128], ['p', 2], ['p', 10], ['p', 10]]))
        # back pressure: the subscriber does not move, the publisher runs into the limit, then the window moves
        g = [1024, 128, MINI, 5, 0]
        sp = 5 * 1024
        out.append(_with_cleans(pk, g, [['l', sp + 1024], ['n', 1]] + [['o', i, 128] for i in range(1, 8)] + [['p', 3], ['l', sp + 1024 + 320]] +
                                [['o', 8, 128], ['o', 9, 128], ['o', 10, 128], ['p', MAXI], ['p', MAXI], ['l', sp + 2048], ['o', 9, 1], ['p', MAXI], ['p', 10], ['p', 10]]))
        # the last term a judged history may enter: term count 2^31 - 3 -> 2^31 - 2
        g = [1024, 64, MAXI - 1, 2**31 - 3, 960]
        sp = (2**31 - 3) * 1024 + 960
        out.append(_with_cleans(pk, g, [['l', sp + 1024], ['o', 1, 32], ['o', 2, 33], ['o', 2, 33], ['p', 10], ['p', 10], ['p', 10]]))
    return out


LAST_STATS = {}
LAST_CASES = []


def generate(rng, tier):
    big = tier == 'thorough'
    import random
    global BULK_RNG
    BULK_RNG = random.Random(rng.getrandbits(32) ^ 0xB01C)
    n = 4000 if big else 300
    cases = boundary_cases()
    agg = {}
    info = {'histories': 0, 'judged': 0, 'malformed': 0, 'drained': 0, 'sub_term_crossings': 0, 'hist_crossing_terms': 0, 'hist_with_bp': 0,
            'hist_with_multi3_trip': 0, 'max_ops': 0, 'min_ops': 10**9}
    for i in range(n):
        pubkind = 's' if i % 2 == 0 else 'x'
        malformed = (i % 10 == 9)
        case, t, drained = gen_history(rng, pubkind, malformed=malformed, last_terms=(i % 20 == 19 or i % 8 in (3, 4)))
        case = _with_bulk(BULK_RNG, case)     # own stream: the histories stay what they were
        cases.append(case)
        for key, v in t.st.items():
            agg[key] = agg.get(key, 0) + v
        info['histories'] += 1
        info['malformed' if malformed else 'judged'] += 1
        info['drained'] += 1 if drained else 0
        cross = t.sp // t.tlen - t.sp0 // t.tlen
        info['sub_term_crossings'] += cross
        info['hist_crossing_terms'] += 1 if t.n > t.n_start else 0
        info['hist_with_bp'] += 1 if t.st['bp'] else 0
        info['hist_with_multi3_trip'] += 1 if t.st['multi3_trips'] else 0
        info['max_ops'] = max(info['max_ops'], len(case['ops']))
        info['min_ops'] = min(info['min_ops'], len(case['ops']))
    LAST_STATS.clear()
    LAST_STATS.update(agg)
    LAST_STATS.update(info)
    del LAST_CASES[:]
    LAST_CASES.extend(cases)
    return cases


# ---------------------------------------------------------------------------------------------
# encoding

BULK_RNG = None


def _impl_op(o):
    # an offer carrying a split (['o', k, len, l1, l2, ...], l1 + l2 + ... = len) goes through offer_bulk; the model and the
    # oracle see the offer of the concatenation (op_coq reads k and len only) - C18 is what makes the two the same
    if o[0] == 'o' and len(o) > 3:
        return ' '.join(str(x) for x in ['b', o[1]] + list(o[3:]))
    return ' '.join(str(x) for x in o)


def _split(rng, total, mpl):
    """buffers for a vectored offer: cuts anywhere, also inside a fragment and exactly on fragment boundaries, empty buffers too"""
    if total <= 0:
        return rng.choice([[0], [0, 0]])
    cuts = sorted(rng.randrange(0, total + 1) for _ in range(rng.choice([1, 1, 2, 3, 5])))
    if rng.random() < 0.3 and total > mpl:
        cuts = sorted(set(cuts + [mpl * rng.randrange(1, total // mpl + 1)]))
    parts, prev = [], 0
    for c in cuts:
        parts.append(c - prev)
        prev = c
    parts.append(total - prev)
    return parts


def _with_bulk(rng, case):
    """every fourth offer of a history on a shared publication becomes a vectored offer of the same message"""
    if case.get('pub') != 's':
        return case
    mpl = case['geom'][1] - 32
    ops = []
    for o in case['ops']:
        if o[0] == 'o' and len(o) == 3 and o[2] >= 0 and rng.random() < 0.25:
            o = list(o) + _split(rng, o[2], max(1, mpl))
        ops.append(o)
    return dict(case, ops=ops)


def impl_line(c):
    ops = ' ; '.join(_impl_op(o) for o in c['ops'])
    return 'hist %s %s | %s' % (c['pub'], ' '.join(str(x) for x in c['geom']), ops)


def op_coq(o):
    t = o[0]
    if t == 'o':
        return 'SOffer %s %s' % (z(o[1]), z(o[2]))
    if t == 'c':
        return 'SClaim %s' % z(o[1])
    if t == 'm':
        return 'SCommit %s' % z(o[1])
    if t == 'a':
        return 'SAbort'
    if t == 'p':
        return 'SPoll %s' % z(o[1])
    if t == 'l':
        return 'SSetLimit %s' % z(o[1])
    if t == 'z':
        return 'SClean %s' % z(o[1])
    if t == 'n':
        return 'SSetConnected %s' % ('true' if o[1] else 'false')
    if t == 'x':
        return 'SClose'
    raise ValueError(o)


def ops_coq(c):
    return '[' + '; '.join(op_coq(o) for o in c['ops']) + ']'


def model_expr(c, mode):
    f = 'c01_shared' if c['pub'] == 's' else 'c01_exclusive'
    return '%s %s %s %s' % (f, mode_c(mode), ' '.join(z(x) for x in c['geom']), ops_coq(c))


def contract_expr(c, mode='debug'):
    """the model's own verdict on the environment contract of a history (Model/StreamSys.v `contract`)"""
    tlen, mtu, init, n0, off0 = c['geom']
    args = '%s %s %s %s %s %s %s' % (z(init), z(tlen), z(mtu), z(SESSION), z(STREAM), z(n0), z(off0))
    if c['pub'] == 's':
        return 'contract shared %s harness_rv (sys0_shared %s) %s' % (mode_c(mode), args, ops_coq(c))
    return 'match sys0_exclusive %s with Ok s => contract exclusive %s harness_rv s %s | _ => false end' % (args, mode_c(mode), ops_coq(c))


def oracle_expr(c, mode, obs):
    if not c.get('judged'):
        return None
    if isinstance(obs, int) or obs[0] != 'list' or len(obs[1]) != len(c['ops']):
        return 'false'
    g = c['geom']
    geom = '(mkC01Geom %s %s %s %s %s %s)' % (z(g[0]), z(g[1]), z(g[2]), z(g[3]), z(g[4]), z(SESSION))
    if ORACLE_WITH_FLAVOUR:
        return 'holds_c01 %s %s %s %s' % (geom, 'false' if c['pub'] == 's' else 'true', ops_coq(c), to_coq(obs))
    return 'holds_c01 %s %s %s' % (geom, ops_coq(c), to_coq(obs))


def nontrivial(c):
    ops = c['ops']
    return c.get('judged') is True and len(ops) >= 5 and any(o[0] in ('o', 'c') for o in ops) and any(o[0] == 'p' for o in ops)


def shrink(c):
    out = []
    ops = c['ops']
    judged = c.get('judged') is True

    def keep(d):
        if (not judged) or check_contract(d):
            out.append(d)

    for i in reversed(range(len(ops))):
        keep(dict(c, ops=ops[:i] + ops[i + 1:]))
    for i, o in enumerate(ops):
        if o[0] == 'o' and o[2] > 1:
            for v in (0, 1, o[2] // 2):
                keep(dict(c, ops=ops[:i] + [['o', o[1], v]] + ops[i + 1:]))
        if o[0] == 'o' and len(o) > 4:      # a vectored offer: fewer buffers
            keep(dict(c, ops=ops[:i] + [list(o[:3]) + [o[3] + o[4]] + list(o[5:])] + ops[i + 1:]))
        if o[0] == 'c' and o[1] > 1:
            for v in (0, 1, o[1] // 2):
                keep(dict(c, ops=ops[:i] + [['c', v]] + ops[i + 1:]))
        if o[0] == 'p' and o[1] not in (1, 10):
            keep(dict(c, ops=ops[:i] + [['p', 10]] + ops[i + 1:]))
    g = c['geom']
    if g[2] != 0:
        keep(dict(c, geom=[g[0], g[1], 0, g[3], g[4]]))
    if g[3] != 0:      # term count 0: limits are absolute positions and move along
        d = g[3] * g[0]
        keep(dict(c, geom=[g[0], g[1], g[2], 0, g[4]], ops=[(['l', o[1] - d] if o[0] == 'l' else o) for o in ops]))
    if g[4] != 0:
        keep(dict(c, geom=[g[0], g[1], g[2], g[3], 0], ops=[(['l', o[1] - g[4]] if o[0] == 'l' else o) for o in ops]))
    return out


def extra_checks(run):
    """the generator's judged histories meet the model's own `contract` (Debug; the tracker is only arithmetic, this ties it to the model)"""
    from vlib import core
    cases = [c for c in LAST_CASES if c.get('judged') is True]
    if not cases or not getattr(run, 'eval_ok', False):
        return []
    try:
        vals = core.coq_eval('C01_contract', IMPORTS, [contract_expr(c) for c in cases])
    except core.MachineryError as e:
        return [(False, 'generator keeps the environment contract (Model/StreamSys.v contract)', str(e)[-300:])]
    bad = [c for c, v in zip(cases, vals) if v != ('app', 'true', [])]
    detail = '%d judged histories, %d outside the contract' % (len(cases), len(bad))
    if bad:
        detail += '; smallest: ' + impl_line(min(bad, key=lambda c: len(c['ops'])))
    return [(not bad, 'generator keeps the environment contract (Model/StreamSys.v contract)', detail)]


# ---------------------------------------------------------------------------------------------

def self_test():
    import random
    import time
    t0 = time.time()
    cases = generate(random.Random(20260925), 'quick')
    dt = time.time() - t0
    judged = [c for c in cases if c.get('judged')]
    bad = [c for c in judged if not check_contract(c)]
    print('C01 generator, quick tier: %d cases (%d judged, %d malformed, %d hand-written) in %.2fs' % (
        len(cases), len(judged), len(cases) - len(judged), len(boundary_cases()), dt))
    print('  judged histories failing the tracker\'s own contract check: %d' % len(bad))
    print('  non-trivial: %d   distinct: %d' % (sum(1 for c in cases if nontrivial(c)), len({impl_line(c) for c in cases})))
    s = LAST_STATS
    print('  generated histories: %d   ops total %d (min %d, max %d per history)' % (s['histories'], s['ops'], s['min_ops'], s['max_ops']))
    print('  offers+claims %d: accepted %d, trips (AdminAction) %d [of which by a 3+-fragment message: %d], back-pressured %d, too long %d, closed %d' % (
        s['appends'], s['accepted'], s['trips'], s['multi3_trips'], s['bp'], s['toolong'], s['closed']))
    print('  claims accepted %d, commits %d, aborts %d; limit moves %d; cleans %d' % (s['claims'], s['commits'], s['aborts'], s['limits'], s['cleans']))
    print('  polls %d (empty %d), fragments read %d' % (s['polls'], s['empty_polls'], s['frags']))
    print('  histories: drained at the end %d, publisher crossed >= 1 term end %d, with back pressure %d, with a 3+-fragment trip %d; '
          'term ends crossed by the subscriber (sum) %d' % (s['drained'], s['hist_crossing_terms'], s['hist_with_bp'], s['hist_with_multi3_trip'],
                                                            s['sub_term_crossings']))
    kinds = {}
    for c in cases:
        key = (c['geom'][0], c['geom'][1])
        kinds[key] = kinds.get(key, 0) + 1
    print('  geometries: %s' % ', '.join('%dx%d:%d' % (a, b, n) for (a, b), n in sorted(kinds.items())))
    return 0 if not bad else 1


if __name__ == '__main__':
    sys.exit(self_test())
