"""K1 for C03: the ordering table of the buffer accessors.

For every accessor of src/concurrent/atomic_buffer.rs that carries the H2 hook line, for the fence helpers of
src/concurrent/atomics.rs and for the two raw-pointer tail accessors of
src/concurrent/logbuffer/exclusive_term_appender.rs, extract - in program order - the fence(Ordering::X) calls,
the plain accesses, the atomic operations with their Ordering arguments and the calls of other accessors, and
write them to coq/Generated/GenOrdering.v:

    Definition ordering_table (a : accessor) : list mop := match a with | PutOrdered => [Fence Release; Call Put] ...

The access *class* used by the happens-before theorem and by the race detector of C03 is computed in Coq from
this table (Model/Sched.v class_of), so a fence removed inside an accessor breaks the lemma
`put_ordered_is_release` even though the hook line is unchanged.

The grammar is strict: a body containing a memory-ordering relevant construct that is not recognised makes the
translation fail loudly (handled like a broken correspondence by the runner)."""
import os
import re

from vlib import core

KINDS = ['Get', 'Put', 'GetVolatile', 'PutOrdered', 'PutAtomicI64', 'CompareAndSetI32', 'CompareAndSetI64', 'GetAndAddI64',
         'AddI64Ordered', 'PutBytes', 'GetBytes', 'CopyFrom', 'SetMemory', 'RegionRead', 'RegionWrite', 'View', 'ExclRawTail',
         'ExclPutRawTailOrdered']
ORDERINGS = {'Relaxed', 'Acquire', 'Release', 'AcqRel', 'SeqCst'}

# accessor methods another accessor may call on self -> the kind they report
CALLS = {'get': 'Get', 'put': 'Put', 'get_volatile': 'GetVolatile', 'put_ordered': 'PutOrdered', 'put_bytes': 'PutBytes',
         'get_string_without_length': 'RegionRead'}

TOKENS = [
    (r'fence\(Ordering::(\w+)\)', lambda m: 'Fence %s' % _ord(m.group(1))),
    (r'atomic::fence\(atomic::Ordering::(\w+)\)', lambda m: 'Fence %s' % _ord(m.group(1))),
    (r'\.compare_exchange\([^;]*?Ordering::(\w+)\s*,\s*Ordering::(\w+)\)', lambda m: 'AtomicRmw %s' % _ord(m.group(1))),
    (r'\.fetch_add\([^;]*?Ordering::(\w+)\)', lambda m: 'AtomicRmw %s' % _ord(m.group(1))),
    (r'\.store\([^;]*?Ordering::(\w+)\)', lambda m: 'AtomicStore %s' % _ord(m.group(1))),
    (r'\.load\(Ordering::(\w+)\)', lambda m: 'AtomicLoad %s' % _ord(m.group(1))),
    (r'\.read_unaligned\(\)', lambda m: 'PlainRead'),
    (r'\.write_unaligned\(', lambda m: 'PlainWrite'),
    (r'std::ptr::copy\(\s*ptr\s*,', lambda m: 'PlainRead'),                         # the buffer is the source (get_bytes)
    (r'std::ptr::copy\(\s*src\.as_ptr\(\)\s*,\s*ptr\s*,', lambda m: 'PlainWrite'),     # the buffer is the destination (put_bytes)
    (r'std::ptr::copy_nonoverlapping\(\s*src_ptr\s*,\s*dest_ptr\s*,', lambda m: 'PlainRead; PlainWrite'),   # copy_from
    (r'slice::from_raw_parts_mut\(', lambda m: 'PlainWrite'),
    (r'slice::from_raw_parts\(', lambda m: 'PlainRead'),
    (r'\*byte = value', lambda m: 'PlainWrite'),
    (r'&\*\(self\.at\(\w+\) as \*const T\)', lambda m: 'PlainRead'),
    (r'unsafe \{ self\.at\(\w+\) as \*mut T \}', lambda m: 'PlainWrite'),
    (r'\*\(self\.tail_addr as \*mut i64\) =', lambda m: 'PlainWrite'),
    (r'unsafe \{ \*self\.tail_addr \}', lambda m: 'PlainRead'),
    (r'self\.(get|put|get_volatile|put_ordered|put_bytes|get_string_without_length)(?:::<[^>]*>)?\(',
     lambda m: 'Call %s' % CALLS[m.group(1)]),
]
# anything that could change the memory-ordering behaviour and is not covered above
SUSPICIOUS = re.compile(r'Ordering::|fence\(|\.store\(|\.load\(|\.swap\(|fetch_\w+\(|compare_exchange|read_unaligned|write_unaligned|'
                        r'read_volatile|write_volatile|ptr::|from_raw_parts|\*self\.|\*\(self')


class TranslateError(Exception):
    pass


def _ord(x):
    if x not in ORDERINGS:
        raise TranslateError('unknown ordering %s' % x)
    return x


def strip_comments(src):
    src = re.sub(r'/\*.*?\*/', '', src, flags=re.S)
    return re.sub(r'//[^\n]*', '', src)


def functions(src):
    """(name, body) of every `fn name(...) ... { body }` at any nesting level (brace matched)."""
    out = []
    for m in re.finditer(r'\bfn\s+(\w+)\s*(?:<[^>{}]*>)?\s*\(', src):
        i = src.find('{', m.end())
        semi = src.find(';', m.end())
        if i < 0 or (0 <= semi < i):
            continue
        depth, j = 0, i
        while j < len(src):
            if src[j] == '{':
                depth += 1
            elif src[j] == '}':
                depth -= 1
                if depth == 0:
                    break
            j += 1
        out.append((m.group(1), src[i + 1:j]))
    return out


def ops_of(body, where):
    """the memory operations of one function body in program order"""
    body = re.sub(r'#\[cfg\(unitedtraders_aeron_rs_verif\)\]\s*let _verif = [^;]*;', '', body)
    body = re.sub(r'self\.bounds_check\([^;]*;', '', body)
    body = re.sub(r'\w+\.bounds_check\([^;]*;', '', body)
    found = []
    rest = body
    for pat, f in TOKENS:
        for m in re.finditer(pat, body):
            found.append((m.start(), f(m)))
        rest = re.sub(pat, ' ', rest)
    bad = SUSPICIOUS.search(rest)
    if bad:
        raise TranslateError('%s: unrecognised construct near %r' % (where, rest[max(0, bad.start() - 30):bad.end() + 30].strip()))
    found.sort()
    ops = []
    for _, o in found:
        ops += o.split('; ')
    return ops


CANON = {'Get': 'get', 'Put': 'put', 'GetVolatile': 'get_volatile', 'PutOrdered': 'put_ordered', 'PutAtomicI64': 'put_atomic_i64',
         'CompareAndSetI32': 'compare_and_set_i32', 'CompareAndSetI64': 'compare_and_set_i64', 'GetAndAddI64': 'get_and_add_i64',
         'AddI64Ordered': 'add_i64_ordered', 'PutBytes': 'put_bytes', 'GetBytes': 'get_bytes', 'CopyFrom': 'copy_from',
         'SetMemory': 'set_memory', 'RegionRead': 'as_sub_slice', 'RegionWrite': 'overlay_struct', 'View': 'view',
         'ExclRawTail': 'raw_tail', 'ExclPutRawTailOrdered': 'put_raw_tail_ordered'}


def gen_ordering():
    repo = core.REPO
    table = {}
    secondary = []
    ab = strip_comments(open(os.path.join(repo, 'src/concurrent/atomic_buffer.rs')).read())
    ab = ab.split('#[cfg(test)]')[0]
    ex = strip_comments(open(os.path.join(repo, 'src/concurrent/logbuffer/exclusive_term_appender.rs')).read())
    for fname, src in (('atomic_buffer.rs', ab), ('exclusive_term_appender.rs', ex)):
        for name, body in functions(src):
            hm = re.search(r'verif_hook::enter\(\s*crate::verif_hook::AccessKind::(\w+)', body)
            if not hm:
                continue
            kind = hm.group(1)
            if kind not in KINDS:
                raise TranslateError('%s::%s reports unknown access kind %s' % (fname, name, kind))
            ops = ops_of(body, '%s::%s' % (fname, name))
            if CANON[kind] == name:
                if kind in table:
                    raise TranslateError('two accessors named %s' % name)
                table[kind] = (ops, '%s::%s' % (fname, name))
            else:
                secondary.append((name, kind, ops))
    for need in KINDS:
        if need not in table:
            raise TranslateError('no accessor %s reporting %s any more' % (CANON[need], need))
    at = strip_comments(open(os.path.join(repo, 'src/concurrent/atomics.rs')).read())
    helpers = []
    for name, body in functions(at):
        if name == 'cpu_pause':
            continue
        helpers.append((name, ops_of(body, 'atomics.rs::' + name)))

    lines = ['(* GENERATED on every run by tools/props/c03_translate.py from src/concurrent/atomic_buffer.rs, atomics.rs and',
             '   logbuffer/exclusive_term_appender.rs: what every hooked accessor does to memory, in program order. *)',
             'Require Import V.Base.MachineInt.', 'Require Import V.Model.Sched.', 'From Coq Require Import String.', 'Open Scope string_scope.',
             '', 'Definition ordering_table (a : accessor) : list mop :=', '  match a with']
    for k in KINDS:
        ops, src = table[k]
        lines.append('  | %s => [%s]    (* %s *)' % (k, '; '.join(ops), src))
    lines.append('  end.')
    lines.append('')
    lines.append('(* other functions that report one of the kinds above: (function, kind reported, body) *)')
    lines.append('Definition secondary_table : list (string * accessor * list mop) :=')
    lines.append('  [' + ';\n   '.join('("%s", %s, [%s])' % (n, k, '; '.join(o)) for n, k, o in secondary) + '].')
    lines.append('')
    lines.append('Definition atomics_table : list (string * list mop) :=')
    lines.append('  [' + '; '.join('("%s", [%s])' % (n, '; '.join(o)) for n, o in helpers) + '].')
    # which header fields HeaderWriter::write assigns through the overlay_struct pointer (the hook can only report
    # the whole 32-byte header as escaping; the bytes actually written are the union of these fields)
    hd = strip_comments(open(os.path.join(repo, 'src/concurrent/logbuffer/header.rs')).read())
    hw = [b for n, b in functions(hd) if n == 'write' and 'overlay_struct' in b]
    if len(hw) != 1:
        raise TranslateError('HeaderWriter::write not found')
    body = hw[0]
    if not re.search(r'term_buffer\.put_ordered::<i32>\(offset,\s*-\(length\)\);\s*unsafe\s*\{\s*let hdr = term_buffer\.overlay_struct::<DataFrameHeaderDefn>\(offset\);', body):
        raise TranslateError('HeaderWriter::write: the negative length is no longer stored (put_ordered) before the header burst')
    fields = re.findall(r'\(\*hdr\)\.(\w+)\s*=', body)
    rest = re.sub(r'\(\*hdr\)\.(\w+)\s*=[^;]*;', '', body)
    if 'hdr' in rest.replace('let hdr = term_buffer.overlay_struct::<DataFrameHeaderDefn>(offset);', ''):
        raise TranslateError('HeaderWriter::write uses the header pointer in an unrecognised way')
    known = {'frame_length', 'version', 'flags', 'frame_type', 'term_offset', 'session_id', 'stream_id', 'term_id', 'reserved_value'}
    for f in fields:
        if f not in known:
            raise TranslateError('HeaderWriter::write assigns unknown field %s' % f)
    lines.append('')
    lines.append('(* fields HeaderWriter::write assigns through the overlay_struct pointer, in order *)')
    lines.append('Definition header_burst_fields : list string := [' + '; '.join('"%s"' % f for f in fields) + '].')
    core.write_if_changed(os.path.join(core.COQ, 'Generated', 'GenOrdering.v'), '\n'.join(lines) + '\n')
    return True, 'ordering table: %d accessors, %d secondary, %d fence helpers' % (len(table), len(secondary), len(helpers))


def gen_ordering_safe():
    try:
        return gen_ordering()
    except TranslateError as e:
        # keep a table that makes every class Unknown so that the theorems visibly break instead of going stale
        lines = ['(* GENERATED: translation FAILED: %s *)' % str(e).replace('*)', '* )'),
                 'Require Import V.Base.MachineInt.', 'Require Import V.Model.Sched.', 'From Coq Require Import String.',
                 'Definition ordering_table (a : accessor) : list mop := [Fence Relaxed; Fence Relaxed].',
                 'Definition secondary_table : list (string * accessor * list mop) := nil.',
                 'Definition atomics_table : list (string * list mop) := nil.',
                 'Definition header_burst_fields : list string := ("frame_length"%string :: nil).']
        core.write_if_changed(os.path.join(core.COQ, 'Generated', 'GenOrdering.v'), '\n'.join(lines) + '\n')
        return False, 'ordering table K1: ' + str(e)


TABLES = [gen_ordering_safe]
