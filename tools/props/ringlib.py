"""Shared pieces of the C06 / C07 drivers (command ring)."""
import itertools

from vlib.term import z

INF = 2**31 - 1
CMDS = list(range(1, 15)) + [0xF01, 0xF02, 0xF03, 0xF04, 0xF05, 0xF06, 0xF07, 0xF08, 0xF0A]


def mode_c(mode):
    return 'Debug' if mode == 'debug' else 'Release'


# ---- sequential op sequences -------------------------------------------------------------------
# op = ['w', typ, len, k] | ['r', limit] | ['u'] | ['s'] | ['i'] | ['h', t] | ['d']

def op_token(o):
    return ':'.join(str(x) for x in o)


def op_coq(o):
    k = o[0]
    if k == 'w':
        return 'OpWrite %s (payload %s %s)' % (z(o[1]), z(o[3]), z(o[2]))
    if k == 'r':
        return 'OpRead %s' % z(o[1])
    if k == 'u':
        return 'OpUnblock'
    if k == 's':
        return 'OpSize'
    if k == 'i':
        return 'OpNextId'
    if k == 'h':
        return 'OpHeartbeat %s' % z(o[1])
    if k == 'd':
        return 'OpDump'
    raise ValueError(o)


def ops_coq(ops):
    return '[' + '; '.join(op_coq(o) for o in ops) + ']'


def seq_line(c):
    return 'seq %d %d %d %d %s' % (c['cap'], c['p0'], c['hc0'], c['c0'], ' '.join(op_token(o) for o in c['ops']))


def seq_init(c):
    return '(init %s %s %s %s)' % (z(c['cap']), z(c['p0']), z(c['hc0']), z(c['c0']))


def number_writes(ops):
    """give every write its own payload number k (its index in the sequence)"""
    out = []
    for i, o in enumerate(ops):
        if o[0] == 'w':
            out.append(['w', o[1], o[2], i])
        else:
            out.append(list(o))
    return out


def with_dumps(ops):
    out = []
    for o in ops:
        out.append(o)
        out.append(['d'])
    return out


def normalize(t):
    """dumps are compared as sets of (offset, word): sort every OD list by offset"""
    if isinstance(t, int):
        return t
    k = t[0]
    if k == 'app':
        if t[1] == 'OD' and len(t[2]) == 1 and not isinstance(t[2][0], int) and t[2][0][0] == 'list':
            items = sorted(t[2][0][1], key=lambda p: p[1][0] if not isinstance(p, int) and p[0] == 'tuple' else 0)
            return ('app', 'OD', [('list', items)])
        return ('app', t[1], [normalize(x) for x in t[2]])
    if k in ('tuple', 'list'):
        return (k, [normalize(x) for x in t[1]])
    return t


def align8(v):
    return (v + 7) // 8 * 8


# ---- concurrent cases ------------------------------------------------------------------------------
# case: kind 'conc'; pre/post = sequential ops; limits = consumer read limits; progs = [[ [typ, len, k], ..], ..];
#       sched = [tid..] (0 = consumer, i+1 = producer i); stops = [k or -1 per thread]

def conc_line(c):
    def ops(l):
        return ','.join(op_token(o) for o in l)
    parts = ['conc', str(c['cap']), str(c['p0']), str(c['hc0']), str(c['c0']), 'pre=' + ops(c['pre']),
             'cons=' + ','.join(str(x) for x in c['limits'])]
    for p in c['progs']:
        parts.append('prod=' + ','.join('w:%d:%d:%d' % (w[0], w[1], w[2]) for w in p))
    parts.append('sched=' + ','.join('%d*%d' % (t, n) for t, n in c['sched']))
    parts.append('stops=' + ','.join('-' if s < 0 else str(s) for s in c['stops']))
    parts.append('post=' + ops(c['post']))
    return ' '.join(parts)


def conc_args(c):
    progs = '[' + '; '.join('[' + '; '.join('(%s, payload %s %s)' % (z(w[0]), z(w[2]), z(w[1])) for w in p) + ']' for p in c['progs']) + ']'
    return '%s %s %s %s (unrle %s) %s %s' % (
        seq_init(c), ops_coq(c['pre']), '[' + '; '.join(z(x) for x in c['limits']) + ']', progs,
        '[' + '; '.join('(%d, %d)' % (t, n) for t, n in c['sched']) + ']', '[' + '; '.join(z(s) for s in c['stops']) + ']', ops_coq(c['post']))


def progs_coq(c):
    return '[' + '; '.join('[' + '; '.join('(%s, payload %s %s)' % (z(w[0]), z(w[2]), z(w[1])) for w in p) + ']' for p in c['progs']) + ']'


def conc_model(c, mode):
    return 'run_conc %s %s' % (mode_c(mode), conc_args(c))


def fresh_types(rng, n):
    return rng.sample(CMDS, n)


def rle(sched):
    """explicit list of thread ids -> [[tid, count], ..]"""
    out = []
    for t in sched:
        if out and out[-1][0] == t:
            out[-1][1] += 1
        else:
            out.append([t, 1])
    return out


def one_preemption_schedules(nthreads, max_steps=40, every=1):
    """all schedules (run-length encoded) with at most one pre-emption: an order of the threads, and
    optionally one thread interrupted after j steps by another thread that then runs to completion"""
    BIG = 400
    out = []
    for order in itertools.permutations(range(nthreads)):
        out.append([[t, BIG] for t in order])
    for a in range(nthreads):
        for b in range(nthreads):
            if a == b:
                continue
            for j in range(1, max_steps, every):
                rest = [t for t in range(nthreads) if t not in (a, b)]
                for order in itertools.permutations(rest):
                    out.append([[a, j], [b, BIG], [a, BIG]] + [[t, BIG] for t in order])
    return out


# ---- uconc: the consumer-side agent (reads and unblock() calls) under the scheduler --------------------
# case: kind 'uconc'; as 'conc' but 'agent' = ['u' | limit, ..] replaces 'limits'

def uconc_line(c):
    def ops(l):
        return ','.join(op_token(o) for o in l)
    parts = ['uconc', str(c['cap']), str(c['p0']), str(c['hc0']), str(c['c0']), 'pre=' + ops(c['pre']),
             'cons=' + ','.join(str(x) for x in c['agent'])]
    for p in c['progs']:
        parts.append('prod=' + ','.join('w:%d:%d:%d' % (w[0], w[1], w[2]) for w in p))
    parts.append('sched=' + ','.join('%d*%d' % (t, n) for t, n in c['sched']))
    parts.append('stops=' + ','.join('-' if s < 0 else str(s) for s in c['stops']))
    parts.append('post=' + ops(c['post']))
    return ' '.join(parts)


def agent_coq(c):
    return '[' + '; '.join('CoUnblock' if x == 'u' else 'CoRead %s' % z(x) for x in c['agent']) + ']'


def stops_coq(c):
    return '[' + '; '.join(z(s) for s in c['stops']) + ']'


def uconc_model(c, mode):
    return 'run_uconc %s %s %s %s %s (unrle %s) %s %s' % (
        mode_c(mode), seq_init(c), ops_coq(c['pre']), agent_coq(c), progs_coq(c),
        '[' + '; '.join('(%d, %d)' % (t, n) for t, n in c['sched']) + ']', stops_coq(c), ops_coq(c['post']))
