"""C07 - command ring survives a producer dying mid-write; unblock never corrupts it."""
from vlib.term import z, to_coq
from props import ringlib as R

ID = 'C07'
PROP_FILE = 'Props/C07.v'
EXTRA_PROP_FILES = ['Props/C07Src.v']     # K1 source tie (tools/props/src_translate.py), see docs/reports/SRC.md
EVAL_FILES = ['Oracle/C07Oracle.v', 'Oracle/C07UOracle.v', 'Model/RingThreads.v', 'Model/RingAgent.v']
CRATES = ['c06']
MODES = ['debug', 'release']
IMPORTS = ('Require Import V.Base.MachineInt V.Model.LogBase V.Model.Ring V.Model.RingThreads V.Spec.Fifo '
           'V.Oracle.C06Oracle V.Oracle.C07Oracle V.Model.RingAgent V.Oracle.C07UOracle.')
RULE = ('crash: the real write() of a producer thread is stopped for ever (deterministic scheduler on the access hook) after k = 0..12 granted '
        'shared accesses, for claim placements {middle, flush with the end of the data area, wrapped with 24 or 8 bytes of padding, '
        'wrapped on a later lap} x {nothing / one committed record in front} x {0,1,2 commands of a survivor behind} x '
        '{consumer idle / reading during the run}; epilogue on the same ring: dump, unblock, dump, read, dump, unblock, dump, read, dump, '
        'write by a survivor, dump, unblock, dump, read, read, dump. Plus random programs / schedules with 1-2 producers stopped at random points. '
        'uconc: unblock() itself under the scheduler - thread 0 is the consumer-side agent (reads, then unblock() calls), a producer is '
        'stopped after its compare-and-set / header / copy, survivors are inside write while unblock scans: every split of the survivor\'s '
        'and the agent\'s accesses (a steps of the survivor, b of the agent, c of the survivor, rest) for claims in the middle, flush with the '
        'end and wrapped; a third producer committed behind a blank live claim (scan_back_to_confirm_still_zeroed fails or the live claim is '
        'swept); random programs and schedules. '
        'non-trivial = a producer was actually stopped inside write (after its first access and before its commit)')
ASSUMPTIONS = [
    'conc cases: unblock runs in the sequential epilogue; uconc cases: unblock is interleaved with surviving producers, and a padding that covers '
    'the claim of a producer that is still alive (the algorithm assumes it dead) ends the judgement of that case (counted in the evidence)',
    'every write of a case carries its own message type id, so that a delivered message identifies the write call it came from',
]

POST = [['d'], ['u'], ['d'], ['r', R.INF], ['d'], ['u'], ['d'], ['r', R.INF], ['d'], ['w', 14, 5, 77], ['d'], ['u'], ['d'],
        ['r', R.INF], ['r', R.INF], ['d']]


def _case(cap, p0, pre, limits, progs, sched, stops, post=None):
    return {'kind': 'conc', 'cap': cap, 'p0': p0, 'hc0': p0, 'c0': 0, 'pre': pre, 'limits': limits, 'progs': progs,
            'sched': sched, 'stops': stops, 'post': POST if post is None else post}


def grid():
    cases = []
    cap = 128
    BIG = 400
    # (index at which the dying producer's claim starts, payload length)
    placements = [('middle', 16, 8), ('flush', 112, 8), ('wrap24', 104, 24), ('wrap8', 120, 3), ('wrap24-lap', 104 + 3 * 128, 24),
                  ('wrap24-2^32', 104 + 2**32, 24)]
    for name, x, ln in placements:
        for before in (0, 1):
            for after in (0, 1, 2):
                for cons in (0, 1):
                    for k in range(0, 13):
                        p0 = x - 8 * before
                        progs = [[[1, ln, 0]],                                   # the producer that dies
                                 [[2, 0, 1]] if before else [],                  # traffic in front
                                 [[3, 0, 2], [4, 3, 3]][:after]]                 # traffic behind
                        sched = [[2, BIG], [1, BIG], [3, BIG], [0, BIG]]
                        limits = [R.INF] if cons else []
                        cases.append(_case(cap, p0, [], limits, progs, sched, [-1, k, -1, -1]))
    # the placement of DESIGN section 9 #8 on the smallest ring that admits it: 24 bytes left, claim wraps
    for k in range(0, 13):
        cases.append(_case(64, 40, [], [], [[[1, 24, 0]], [[3, 0, 2]]], [[1, BIG], [2, BIG]], [-1, k, -1]))
    return cases


def _ucase(cap, p0, agent, progs, sched, stops, post=None, pre=None, hc0=None):
    return {'kind': 'uconc', 'cap': cap, 'p0': p0, 'hc0': p0 if hc0 is None else hc0, 'c0': 0, 'pre': pre or [], 'agent': agent, 'progs': progs,
            'sched': sched, 'stops': stops, 'post': POST if post is None else post}


def ugrid(rng, big):
    """unblock() interleaved with producers: thread 1 dies at kd, thread 2 (and 3) survive"""
    BIG = 400
    cap = 64
    cases = []
    # A: dead claim at the consumer position, a survivor behind it; every split survivor a / agent b / survivor c
    fam = []
    for name, x, ln in (('middle', 8, 8), ('flush', 48, 8), ('wrap', 56, 8), ('middle-short', 16, 0)):
        for kd in (3, 4, 5):
            for a in (0, 3, 4, 5, 6, 9):
                for b in range(1, 13):
                    for c in (1, 2, 3, BIG):
                        agent = ['u', 'u'] if name != 'wrap' else [R.INF, 'u', 'u']
                        progs = [[[1, ln, 0]], [[2, 3, 1], [3, 0, 2]]]
                        sched = [[1, BIG], [2, a], [0, b], [2, c], [0, BIG], [2, BIG]]
                        fam.append(_ucase(cap, x, agent, progs, sched, [-1, kd, -1]))
    cases += fam if big else rng.sample(fam, 260)
    # B: blank live claim between the dead claim and a committed record: the forward scan passes over it, the live
    #    producer writes its header before / during / after the backward scan
    fam = []
    for x in (8, 24):
        for kd in (3,):
            for b in range(3, 16):
                for c in (1, 2, 3):
                    for b2 in (1, 2, BIG):
                        progs = [[[1, 0, 0]], [[2, 8, 1]], [[3, 0, 2]]]
                        sched = [[1, BIG], [2, 3], [3, BIG], [0, b], [2, c], [0, b2], [2, BIG], [0, BIG]]
                        fam.append(_ucase(cap, x, ['u', 'u'], progs, sched, [-1, kd, -1, -1]))
                        # the same with the middle producer dead as well: the padding covers both claims
                        fam.append(_ucase(cap, x, ['u', 'u'], progs, sched, [-1, kd, 3 + (c if c < 3 else 0), -1]))
    cases += fam if big else rng.sample(fam, 200)
    # C: nobody is dead (a slow producer is taken for a dead one)
    for b in range(1, 8):
        for a in (3, 4, 5):
            cases.append(_ucase(cap, 8, ['u'], [[[1, 8, 0]], [[2, 0, 1]]], [[1, a], [2, BIG], [0, b], [1, 2], [0, BIG], [1, BIG]], [-1, -1, -1]))
    return cases


def urandom(rng, n):
    cases = []
    for i in range(n):
        cap = rng.choice([32, 64, 64, 128])
        nprod = rng.choice([2, 3, 3])
        nw = [rng.randrange(1, 3) for _ in range(nprod)]
        types = R.fresh_types(rng, sum(nw) + 1)
        progs, k = [], 0
        for nn in nw:
            prog = []
            for _ in range(nn):
                prog.append([types[k], rng.choice([0, 1, 7, 8, cap // 8, rng.randrange(0, cap // 8 + 1)]), k])
                k += 1
            progs.append(prog)
        # reads first, then unblock() calls: a read after a padding that covered a live claim would let that producer
        # write into space already handed back, which the slot model does not describe
        agent = [rng.choice([1, 2, R.INF]) for _ in range(rng.randrange(0, 3))] + ['u'] * rng.randrange(1, 4)
        p0 = rng.choice([0, cap - 8, cap - 16, cap - 24, 8 * rng.randrange(0, cap // 8), 2**32 - 16])
        nthreads = nprod + 1
        sched = []
        for _ in range(rng.randrange(4, 18)):
            sched.append([rng.choice([0, 0] + list(range(nthreads))), rng.randrange(1, 9)])
        stops = [-1] * nthreads
        for t in rng.sample(range(1, nthreads), rng.choice([1, 1, 2])):
            stops[t] = rng.randrange(2, 8)
        post = [list(o) for o in POST]
        post[9] = ['w', types[-1], rng.randrange(0, cap // 8 + 1), 77]
        cases.append(_ucase(cap, p0, agent, progs, sched, stops, post))
    return cases


def generate(rng, tier):
    big = tier == 'thorough'
    cases = grid()
    cases += ugrid(rng, big)
    cases += urandom(rng, 140 if not big else 6000)
    for i in range(150 if not big else 6000):
        cap = rng.choice([32, 64, 64, 128])
        nprod = rng.choice([2, 3, 3])
        nw = [rng.randrange(1, 3) for _ in range(nprod)]
        types = R.fresh_types(rng, sum(nw) + 1)
        progs, k = [], 0
        for n in nw:
            prog = []
            for _ in range(n):
                prog.append([types[k], rng.choice([0, 1, 7, 8, cap // 8, rng.randrange(0, cap // 8 + 1)]), k])
                k += 1
            progs.append(prog)
        limits = [rng.choice([1, 2, R.INF]) for _ in range(rng.randrange(0, 3))]
        p0 = rng.choice([0, cap - 8, cap - 16, cap - 24, 8 * rng.randrange(0, cap // 8), 2**32 - 16])
        nthreads = nprod + 1
        sched = []
        for _ in range(rng.randrange(3, 14)):
            sched.append([rng.randrange(0, nthreads), rng.randrange(1, 12)])
        stops = [-1] * nthreads
        for t in rng.sample(range(1, nthreads), rng.choice([1, 1, 2])):
            stops[t] = rng.randrange(0, 14)
        post = [list(o) for o in POST]
        post[9] = ['w', types[-1], rng.randrange(0, cap // 8 + 1), 77]
        cases.append(_case(cap, p0, [], limits, progs, sched, stops, post))
    return cases


def impl_line(c):
    return R.uconc_line(c) if c['kind'] == 'uconc' else R.conc_line(c)


def model_expr(c, mode):
    return R.uconc_model(c, mode) if c['kind'] == 'uconc' else R.conc_model(c, mode)


def oracle_expr(c, mode, obs):
    if c['kind'] == 'uconc':
        return 'holds_uconc %s %s %s %s %s %s %s' % (z(c['cap']), z(c['p0']), R.ops_coq(c['pre']), R.progs_coq(c), R.stops_coq(c),
                                                    R.ops_coq(c['post']), to_coq(obs))
    return 'holds_crash %s %s %s %s %s %s' % (z(c['cap']), z(c['p0']), R.ops_coq(c['pre']), R.progs_coq(c), R.ops_coq(c['post']), to_coq(obs))


normalize = R.normalize


def nontrivial(c):
    return any(1 <= s <= 10 for s in c['stops'])


def shrink(c):
    out = []
    # fewer threads' programs, shorter epilogue, shorter schedule
    for i in range(len(c['progs'])):
        if c['progs'][i] and c['stops'][i + 1] < 0:
            d = dict(c)
            d['progs'] = [p if j != i else p[:-1] for j, p in enumerate(c['progs'])]
            out.append(d)
    if len(c['post']) > 4:
        d = dict(c)
        d['post'] = c['post'][:len(c['post']) - 4] + [['d']] if c['post'][-1] == ['d'] else c['post'][:-1]
        out.append(d)
        d = dict(c)
        d['post'] = c['post'][:5]
        out.append(d)
        d = dict(c)
        d['post'] = c['post'][:3]
        out.append(d)
    if c.get('limits'):
        d = dict(c)
        d['limits'] = c['limits'][:-1]
        out.append(d)
    if c.get('agent') and len(c['agent']) > 1:
        for i in range(len(c['agent'])):
            d = dict(c)
            d['agent'] = c['agent'][:i] + c['agent'][i + 1:]
            out.append(d)
    for i in range(len(c['sched'])):
        d = dict(c)
        d['sched'] = c['sched'][:i] + c['sched'][i + 1:]
        out.append(d)
    return out
