"""C07 - command ring survives a producer dying mid-write; unblock never corrupts it."""
from vlib.term import z, to_coq
from props import ringlib as R

ID = 'C07'
PROP_FILE = 'Props/C07.v'
EXTRA_PROP_FILES = ['Props/C07Src.v']     # K1 source tie (tools/props/src_translate.py), see docs/reports/SRC.md
EVAL_FILES = ['Oracle/C07Oracle.v', 'Model/RingThreads.v']
CRATES = ['c06']
MODES = ['debug', 'release']
IMPORTS = ('Require Import V.Base.MachineInt V.Model.LogBase V.Model.Ring V.Model.RingThreads V.Spec.Fifo '
           'V.Oracle.C06Oracle V.Oracle.C07Oracle.')
RULE = ('crash: the real write() of a producer thread is stopped for ever (deterministic scheduler on the access hook) after k = 0..12 granted '
        'shared accesses, for claim placements {middle, flush with the end of the data area, wrapped with 24 or 8 bytes of padding, '
        'wrapped on a later lap} x {nothing / one committed record in front} x {0,1,2 commands of a survivor behind} x '
        '{consumer idle / reading during the run}; epilogue on the same ring: dump, unblock, dump, read, dump, unblock, dump, read, dump, '
        'write by a survivor, dump, unblock, dump, read, read, dump. Plus random programs / schedules with 1-2 producers stopped at random points. '
        'non-trivial = a producer was actually stopped inside write (after its first access and before its commit)')
ASSUMPTIONS = [
    'no surviving producer is inside write while unblock scans (the algorithm\'s documented assumption): unblock runs in the sequential epilogue',
    'every write of a case carries its own message type id, so that a delivered message identifies the write call it came from',
]

POST = [['d'], ['u'], ['d'], ['r', R.INF], ['d'], ['u'], ['d'], ['r', R.INF], ['d'], ['w', 14, 5, 77], ['d'], ['u'], ['d'],
        ['r', R.INF], ['r', R.INF], ['d']]


def _case(cap, p0, pre, limits, progs, sched, stops, post=None):
    return {'kind': 'conc', 'cap': cap, 'p0': p0, 'hc0': p0, 'c0': 0, 'pre': pre, 'limits': limits, 'progs': progs,
            'sched': sched, 'stops': stops, 'post': POST if post is None else post}


def grid():
    cases = []
    cap = 128
    BIG = 400
    # (index at which the dying producer's claim starts, payload length)
    placements = [('middle', 16, 8), ('flush', 112, 8), ('wrap24', 104, 24), ('wrap8', 120, 3), ('wrap24-lap', 104 + 3 * 128, 24),
                  ('wrap24-2^32', 104 + 2**32, 24)]
    for name, x, ln in placements:
        for before in (0, 1):
            for after in (0, 1, 2):
                for cons in (0, 1):
                    for k in range(0, 13):
                        p0 = x - 8 * before
                        progs = [[[1, ln, 0]],                                   # the producer that dies
                                 [[2, 0, 1]] if before else [],                  # traffic in front
                                 [[3, 0, 2], [4, 3, 3]][:after]]                 # traffic behind
                        sched = [[2, BIG], [1, BIG], [3, BIG], [0, BIG]]
                        limits = [R.INF] if cons else []
                        cases.append(_case(cap, p0, [], limits, progs, sched, [-1, k, -1, -1]))
    # the placement of DESIGN section 9 #8 on the smallest ring that admits it: 24 bytes left, claim wraps
    for k in range(0, 13):
        cases.append(_case(64, 40, [], [], [[[1, 24, 0]], [[3, 0, 2]]], [[1, BIG], [2, BIG]], [-1, k, -1]))
    return cases


def generate(rng, tier):
    big = tier == 'thorough'
    cases = grid()
    for i in range(150 if not big else 6000):
        cap = rng.choice([32, 64, 64, 128])
        nprod = rng.choice([2, 3, 3])
        nw = [rng.randrange(1, 3) for _ in range(nprod)]
        types = R.fresh_types(rng, sum(nw) + 1)
        progs, k = [], 0
        for n in nw:
            prog = []
            for _ in range(n):
                prog.append([types[k], rng.choice([0, 1, 7, 8, cap // 8, rng.randrange(0, cap // 8 + 1)]), k])
                k += 1
            progs.append(prog)
        limits = [rng.choice([1, 2, R.INF]) for _ in range(rng.randrange(0, 3))]
        p0 = rng.choice([0, cap - 8, cap - 16, cap - 24, 8 * rng.randrange(0, cap // 8), 2**32 - 16])
        nthreads = nprod + 1
        sched = []
        for _ in range(rng.randrange(3, 14)):
            sched.append([rng.randrange(0, nthreads), rng.randrange(1, 12)])
        stops = [-1] * nthreads
        for t in rng.sample(range(1, nthreads), rng.choice([1, 1, 2])):
            stops[t] = rng.randrange(0, 14)
        post = [list(o) for o in POST]
        post[9] = ['w', types[-1], rng.randrange(0, cap // 8 + 1), 77]
        cases.append(_case(cap, p0, [], limits, progs, sched, stops, post))
    return cases


def impl_line(c):
    return R.conc_line(c)


def model_expr(c, mode):
    return R.conc_model(c, mode)


def oracle_expr(c, mode, obs):
    return 'holds_crash %s %s %s %s %s %s' % (z(c['cap']), z(c['p0']), R.ops_coq(c['pre']), R.progs_coq(c), R.ops_coq(c['post']), to_coq(obs))


normalize = R.normalize


def nontrivial(c):
    return any(1 <= s <= 10 for s in c['stops'])


def shrink(c):
    out = []
    # fewer threads' programs, shorter epilogue, shorter schedule
    for i in range(len(c['progs'])):
        if c['progs'][i] and c['stops'][i + 1] < 0:
            d = dict(c)
            d['progs'] = [p if j != i else p[:-1] for j, p in enumerate(c['progs'])]
            out.append(d)
    if len(c['post']) > 4:
        d = dict(c)
        d['post'] = c['post'][:len(c['post']) - 4] + [['d']] if c['post'][-1] == ['d'] else c['post'][:-1]
        out.append(d)
        d = dict(c)
        d['post'] = c['post'][:5]
        out.append(d)
        d = dict(c)
        d['post'] = c['post'][:3]
        out.append(d)
    if c['limits']:
        d = dict(c)
        d['limits'] = c['limits'][:-1]
        out.append(d)
    for i in range(len(c['sched'])):
        d = dict(c)
        d['sched'] = c['sched'][:i] + c['sched'][i + 1:]
        out.append(d)
    return out
