"""C13 - commands on the wire decode to exactly what the caller asked for."""
from vlib.term import z, to_coq
from props import wire_k1

ID = 'C13'
PROP_FILE = 'Props/C13.v'
EVAL_FILES = ['Oracle/C13Oracle.v']
CRATES = ['c13']
MODES = ['debug', 'release']
IMPORTS = 'Require Import V.Base.MachineInt V.Model.WireBytes V.Model.WireCodes V.Model.WireCommands V.Model.WireProxySeq V.Oracle.C13Oracle.'
K1_TABLES = wire_k1.K1_TABLES
RULE = ('every DriverProxy method (add_publication, add_exclusive_publication, remove_publication, add_subscription, remove_subscription, '
        'send_client_keepalive, add/remove_destination, add/remove_rcv_destination, add_counter, remove_counter, client_close, '
        'terminate_driver; string arguments of three content flavours incl. invalid UTF-8) on a fresh 64 KiB ManyToOneRingBuffer whose correlation counter was preset (client id c0 from {MIN, -1, 0, 1, '
        '2^32, MAX-1, MAX, random}); ids from {MIN, -1, 0, 1, MAX, random}; channel lengths 0..700 with every length within 6 of the '
        'largest that fits the 512-byte command buffer (488 / 480 / 484 for publication / subscription / destination messages); counter '
        'keys 0..112 x labels 0..380 stratified (all 4 key residues mod 4, every pair on the 512-byte boundary and the two lengths '
        'around it; all 113 key lengths x 40 label lengths in thorough); tokens 0..600 (dense around 492). Observation = API result, records parsed from '
        'the ring memory, records delivered by ring.read, tail, next correlation id. seq: ~85 sequences of 40..400 requests on rings of 1, 2 and 4 KiB: filling the ring without draining until requests are refused, and '
        'with partial drains (limit 1..7) in between over several laps, always ended by draining the ring; mostly short records, 8% long ones '
        '(beyond the ring\'s max message length) and ones beyond the command buffer; observation = every result, every drained record, tail, '
        'head, next id. A case is non-trivial when it is a sequence or the message carries a '
        'string / key / token of >= 16 bytes or an id outside the i32 range; distinct = distinct case tuples')
ASSUMPTIONS = [
    'single calls on a fresh 64 KiB ring; sequences on 1/2/4 KiB rings used by one thread (the ring acceptance model of Model/WireProxySeq.v is single-threaded; concurrent producers, unblock and the ring\'s own guarantees belong to C06 / C07 / C02)',
    'channels and labels are C strings: any bytes 1..255 (three flavours: printable ASCII, every byte 1..255 in turn = invalid UTF-8, ASCII with Latin-1 / stray continuation bytes); keys and tokens any bytes 0..255',
    'the model is DriverProxy as repaired by fixes/C13-oversize-command-rejected.diff (on the unrepaired tree oversize requests panic)',
]
TRUSTED = [
    'K1 (C13): struct offsets of Generated/GenLayout.v computed from src/command/*.rs by the repr(C, packed(4)) rule, cross-checked with the compiler\'s size_of constants; type codes from harness/vconsts --commands',
    'the 512-byte command buffer length is a private constant of driver_proxy.rs: the model\'s CMD_BUF = 512 is tied to the code by the boundary cases of K2 only',
]

MAX64, MIN64 = 2**63 - 1, -2**63
MAX32, MIN32 = 2**31 - 1, -2**31
CMD_BUF = 512


def wrap64(x):
    return (x + 2**63) % 2**64 - 2**63


def _sk(rng):
    """string flavour + seed: < 1000 printable ASCII, 1000.. every byte 1..255 (invalid UTF-8), 2000.. ASCII with Latin-1 / stray continuation bytes"""
    return rng.choice([0, 0, 1000, 1000, 2000]) + rng.randrange(0, 1000)


def _c0s(rng):
    return [MIN64, -1, 0, 1, 2**32, MAX64 - 1, MAX64, rng.randrange(MIN64, MAX64 + 1)]


def _i64s(rng):
    return [MIN64, -1, 0, 1, MAX64, 2**31, rng.randrange(MIN64, MAX64 + 1)]


def _i32s(rng):
    return [MIN32, -1, 0, 1, MAX32, 0x01020304, rng.randrange(MIN32, MAX32 + 1)]


def _chan_lens(rng, fixed, big):
    top = CMD_BUF - fixed
    ls = set(range(0, 10)) | set(range(top - 6, top + 7)) | {16, 100, 255, 256, 300, 511, 512, 513, 600, 700}
    ls |= {rng.randrange(0, 701) for _ in range(40 if big else 8)}
    if big:
        ls |= set(range(0, 701))
    return sorted(ls)


def generate(rng, tier):
    big = tier == 'thorough'
    cases = []

    def add(**kw):
        cases.append(kw)

    # tokens whose length does not fit an i32 / a u32: rejected like every other over-long request (C13_reject)
    for tn in (2**31 - 24, 2**31 - 20, 2**31, 2**31 + 500, 2**32 - 20, 2**32, 2**32 + 4, 2**32 + 492, 2**33 + 7):
        add(kind='hugeterm', c0=rng.choice(_c0s(rng)), tn=tn)
    for c0 in _c0s(rng):
        add(kind='keepalive', c0=c0)
        add(kind='close', c0=c0)
        for k in (0, 1, 2):
            add(kind='remove', c0=c0, k=k, reg=rng.choice(_i64s(rng)))
    for reg in _i64s(rng):
        for k in (0, 1, 2):
            add(kind='remove', c0=rng.choice(_c0s(rng)), k=k, reg=reg)
        for k in (0, 1, 2, 3):
            add(kind='dest', c0=rng.choice(_c0s(rng)), k=k, reg=reg, ck=_sk(rng), cn=rng.choice([0, 5, 33]))
    for s in _i32s(rng):
        for excl in (0, 1):
            add(kind='addpub', c0=rng.choice(_c0s(rng)), excl=excl, stream=s, ck=_sk(rng), cn=rng.choice([0, 5, 33]))
        add(kind='addsub', c0=rng.choice(_c0s(rng)), stream=s, ck=_sk(rng), cn=rng.choice([0, 5, 33]))
        add(kind='counter', c0=rng.choice(_c0s(rng)), type=s, kk=_sk(rng), kn=rng.choice([0, 3, 8]), lk=_sk(rng), ln=rng.choice([0, 5, 33]))
    for n in _chan_lens(rng, 24, big):
        add(kind='addpub', c0=rng.choice(_c0s(rng)), excl=rng.choice([0, 1]), stream=rng.choice(_i32s(rng)), ck=_sk(rng), cn=n)
    for n in _chan_lens(rng, 32, big):
        add(kind='addsub', c0=rng.choice(_c0s(rng)), stream=rng.choice(_i32s(rng)), ck=_sk(rng), cn=n)
    for n in _chan_lens(rng, 28, big):
        add(kind='dest', c0=rng.choice(_c0s(rng)), k=rng.choice([0, 1, 2, 3]), reg=rng.choice(_i64s(rng)), ck=_sk(rng), cn=n)
    for n in sorted(set(range(0, 10)) | set(range(486, 499)) | {100, 511, 512, 513, 600} | {rng.randrange(0, 601) for _ in range(8)}):
        add(kind='terminate', c0=rng.choice(_c0s(rng)), tk=_sk(rng), tn=n)
    # every method that takes a string, with non-ASCII / invalid UTF-8 content, short and on the 512-byte boundary
    for fl in (1000, 2000):
        for d in (-2, -1, 0, 1):
            for excl in (0, 1):
                add(kind='addpub', c0=rng.choice(_c0s(rng)), excl=excl, stream=7, ck=fl + rng.randrange(0, 1000), cn=488 + d)
            add(kind='addsub', c0=rng.choice(_c0s(rng)), stream=7, ck=fl + rng.randrange(0, 1000), cn=480 + d)
            for k in (0, 1, 2, 3):
                add(kind='dest', c0=rng.choice(_c0s(rng)), k=k, reg=9, ck=fl + rng.randrange(0, 1000), cn=484 + d)
            add(kind='terminate', c0=rng.choice(_c0s(rng)), tk=fl + rng.randrange(0, 1000), tn=492 + d)
            add(kind='counter', c0=rng.choice(_c0s(rng)), type=3, kk=fl + rng.randrange(0, 1000), kn=109, lk=fl + rng.randrange(0, 1000), ln=372 + d)
        for n in (1, 2, 3, 4, 9, 64, 255, 256):
            for excl in (0, 1):
                add(kind='addpub', c0=rng.choice(_c0s(rng)), excl=excl, stream=7, ck=fl + rng.randrange(0, 1000), cn=n)
            add(kind='addsub', c0=rng.choice(_c0s(rng)), stream=7, ck=fl + rng.randrange(0, 1000), cn=n)
            add(kind='dest', c0=rng.choice(_c0s(rng)), k=rng.randrange(0, 4), reg=9, ck=fl + rng.randrange(0, 1000), cn=n)
            add(kind='terminate', c0=rng.choice(_c0s(rng)), tk=fl + rng.randrange(0, 1000), tn=n)
            add(kind='counter', c0=rng.choice(_c0s(rng)), type=3, kk=fl + rng.randrange(0, 1000), kn=n % 113, lk=fl + rng.randrange(0, 1000), ln=n)
    # counters: key length x label length
    pairs = set()
    if big:
        # every key length, with every label length on / around the 512-byte boundary and a stratified rest
        for kn in range(0, 113):
            a = (kn + 3) // 4 * 4
            edge = CMD_BUF - 28 - a
            lns = set(range(0, 9)) | {edge - 2, edge - 1, edge, edge + 1, edge + 2, 379, 380} | {rng.randrange(0, 381) for _ in range(24)}
            pairs |= {(kn, ln) for ln in lns if 0 <= ln <= 380}
    else:
        for kn in list(range(0, 14)) + [31, 32, 33, 64, 101, 109, 110, 111, 112]:
            a = (kn + 3) // 4 * 4
            edge = CMD_BUF - 28 - a           # largest label that fits with this key
            for ln in {0, 1, 2, 3, 4, 5, edge - 1, edge, edge + 1, 379, 380, rng.randrange(0, 381), rng.randrange(0, 381)}:
                if 0 <= ln <= 380:
                    pairs.add((kn, ln))
        while len(pairs) < 700:
            pairs.add((rng.randrange(0, 113), rng.randrange(0, 381)))
    for kn, ln in sorted(pairs):
        add(kind='counter', c0=rng.choice(_c0s(rng)), type=rng.choice(_i32s(rng)), kk=_sk(rng), kn=kn, lk=_sk(rng), ln=ln)
    # beyond the documented counter limits too (the proxy itself has no such limit)
    for kn, ln in [(113, 0), (200, 100), (0, 500), (488, 0), (484, 0), (485, 0), (0, 484), (0, 485), (600, 600)]:
        add(kind='counter', c0=5, type=1, kk=1, kn=kn, lk=2, ln=ln)
    cases += _sequences(rng, big)
    rng.shuffle(cases)
    return cases


def _small_request(rng):
    """a request whose record is short (16..~130 bytes), so that many fit a small ring"""
    k = rng.choice(['remove', 'remove', 'keepalive', 'close', 'addpub', 'addsub', 'dest', 'counter', 'terminate'])
    i64 = lambda: rng.choice([MIN64, -1, 0, 1, MAX64, rng.randrange(MIN64, MAX64 + 1)])
    i32 = lambda: rng.choice([MIN32, -1, 0, 1, MAX32, rng.randrange(MIN32, MAX32 + 1)])
    n = rng.choice([0, 1, 3, 8, 17, 40, 90])
    if k == 'remove':
        return {'kind': 'remove', 'k': rng.randrange(0, 3), 'reg': i64()}
    if k in ('keepalive', 'close'):
        return {'kind': k}
    if k == 'addpub':
        return {'kind': 'addpub', 'excl': rng.randrange(0, 2), 'stream': i32(), 'ck': _sk(rng), 'cn': n}
    if k == 'addsub':
        return {'kind': 'addsub', 'stream': i32(), 'ck': _sk(rng), 'cn': n}
    if k == 'dest':
        return {'kind': 'dest', 'k': rng.randrange(0, 4), 'reg': i64(), 'ck': _sk(rng), 'cn': n}
    if k == 'counter':
        return {'kind': 'counter', 'type': i32(), 'kk': _sk(rng), 'kn': rng.choice([0, 1, 5, 8, 13]), 'lk': _sk(rng), 'ln': n // 2}
    return {'kind': 'terminate', 'tk': _sk(rng), 'tn': n}


def _big_request(rng):
    """records of 130..512 bytes (refused by rings whose max message length is smaller) and requests that do not fit the command buffer"""
    n = rng.choice([104, 105, 120, 200, 232, 233, 300, 480, 488, 489, 500, 600])
    return rng.choice([
        {'kind': 'addpub', 'excl': 0, 'stream': 5, 'ck': _sk(rng), 'cn': n},
        {'kind': 'dest', 'k': rng.randrange(0, 4), 'reg': 77, 'ck': _sk(rng), 'cn': n},
        {'kind': 'counter', 'type': 3, 'kk': 1, 'kn': rng.choice([7, 112]), 'lk': 2, 'ln': min(n, 380)},
        {'kind': 'terminate', 'tk': _sk(rng), 'tn': n},
    ])


def _aligned(c):
    return (spec_length(c) + 8 + 7) // 8 * 8


def _sequences(rng, big):
    """calls on one small ring that fills up: without draining, and with partial draining in between;
    every sequence ends with three unlimited drains (enough to empty the ring across a wrap)"""
    out = []
    final = [{'kind': 'drain', 'limit': 100000}] * 3
    n_each = 60 if big else 14
    for cap in (1024, 2048, 4096):
        for _ in range(n_each):
            c0 = rng.choice([MIN64, -1, 0, 100, 2**32, MAX64 - 40, MAX64, rng.randrange(MIN64, MAX64 + 1)])
            # (a) fill without draining: keep calling until well past the capacity
            ops, used = [], 0
            while used < cap * 3 // 2:
                r = _big_request(rng) if rng.random() < 0.08 else _small_request(rng)
                ops.append(r)
                used += _aligned(r) if spec_length(r) <= CMD_BUF else 0
            out.append({'kind': 'seq', 'c0': c0, 'cap': cap, 'ops': ops + final})
            # (b) partial draining in between, several laps around the ring
            ops, used = [], 0
            burst = rng.choice([2, 6, 20, 60])
            while used < cap * 3:
                if rng.random() < 1.0 / burst:
                    ops.append({'kind': 'drain', 'limit': rng.choice([1, 1, 2, 3, 7, 100000])})
                else:
                    r = _big_request(rng) if rng.random() < 0.08 else _small_request(rng)
                    ops.append(r)
                    used += _aligned(r) if spec_length(r) <= CMD_BUF else 0
            out.append({'kind': 'seq', 'c0': c0, 'cap': cap, 'ops': ops + final})
    # the smallest interesting ones
    out.append({'kind': 'seq', 'c0': 100, 'cap': 1024, 'ops': [{'kind': 'remove', 'k': 2, 'reg': 7}] * 40 + final})
    out.append({'kind': 'seq', 'c0': 100, 'cap': 1024, 'ops': [{'kind': 'keepalive'}] * 50 + [{'kind': 'drain', 'limit': 1}, {'kind': 'close'}, {'kind': 'close'}] + final})
    return out


def _words(c):
    """the request as the harness spells it, without the client's c0"""
    k = c['kind']
    if k == 'addpub':
        return 'addpub %d %d %d %d' % (c['excl'], c['stream'], c['ck'], c['cn'])
    if k == 'addsub':
        return 'addsub %d %d %d' % (c['stream'], c['ck'], c['cn'])
    if k == 'remove':
        return 'remove %d %d' % (c['k'], c['reg'])
    if k == 'dest':
        return 'dest %d %d %d %d' % (c['k'], c['reg'], c['ck'], c['cn'])
    if k == 'counter':
        return 'counter %d %d %d %d %d' % (c['type'], c['kk'], c['kn'], c['lk'], c['ln'])
    if k in ('keepalive', 'close'):
        return k
    if k == 'hugeterm':
        return 'hugeterm %d' % c['tn']
    if k == 'terminate':
        return 'terminate %d %d' % (c['tk'], c['tn'])
    if k == 'drain':
        return 'drain %d' % c['limit']
    raise ValueError(c)


def impl_line(c):
    if c['kind'] == 'seq':
        return 'seq %d %d %s' % (c['c0'], c['cap'], ' ; '.join(_words(o) for o in c['ops']))
    w = _words(c).split(' ', 1)
    return '%s %d%s' % (w[0], c['c0'], (' ' + w[1]) if len(w) > 1 else '')


def request_term(c):
    k = c['kind']
    if k == 'addpub':
        return 'RqAddPublication %s (cstr %s %s) %s' % ('true' if c['excl'] else 'false', z(c['ck']), z(c['cn']), z(c['stream']))
    if k == 'addsub':
        return 'RqAddSubscription (cstr %s %s) %s' % (z(c['ck']), z(c['cn']), z(c['stream']))
    if k == 'remove':
        return 'RqRemove %s %s' % (['RmPublication', 'RmSubscription', 'RmCounter'][c['k']], z(c['reg']))
    if k == 'dest':
        return 'RqDestination %s %s (cstr %s %s)' % (['DsAdd', 'DsRemove', 'DsAddRcv', 'DsRemoveRcv'][c['k']], z(c['reg']), z(c['ck']), z(c['cn']))
    if k == 'counter':
        return 'RqAddCounter %s (blob %s %s) (cstr %s %s)' % (z(c['type']), z(c['kk']), z(c['kn']), z(c['lk']), z(c['ln']))
    if k == 'keepalive':
        return 'RqKeepalive'
    if k == 'close':
        return 'RqClientClose'
    if k == 'terminate':
        return 'RqTerminateDriver (blob %s %s)' % (z(c['tk']), z(c['tn']))
    raise ValueError(c)


def _ops_term(c):
    return '[' + '; '.join(('OpDrain %s' % z(o['limit'])) if o['kind'] == 'drain' else 'OpCall (%s)' % request_term(o) for o in c['ops']) + ']'


def model_expr(c, mode):
    if c['kind'] == 'seq':
        return 'proxy_seq %s %s %s' % (z(c['c0']), z(c['cap']), _ops_term(c))
    if c['kind'] == 'hugeterm':      # spec_length = 20 + tn > 512: C13_reject gives the observation without spelling the token out
        return '(@Err Z TooLong, @nil (Z * list Z), @nil (Z * list Z), 0, %s + 1)' % z(c['c0'])
    return "let '(res, recs, tail, next) := proxy_call %s (%s) in (res, recs, recs, tail, next)" % (z(c['c0']), request_term(c))


def oracle_expr(c, mode, obs):
    if c['kind'] == 'seq':
        if isinstance(obs, int) or obs[0] != 'tuple' or len(obs[1]) != 4:
            return 'false'
        return 'holds_seq %s %s %s' % (z(c['c0']), _ops_term(c), to_coq(obs[1][0]))
    if isinstance(obs, int) or obs[0] != 'tuple' or len(obs[1]) != 5:
        return 'false'
    res, raw, rd, tail, _next = obs[1]
    if c['kind'] == 'hugeterm':
        return 'holds_reject %s %s %s %s %s %s' % (z(c['c0']), to_coq(res), to_coq(raw), to_coq(rd), to_coq(tail), to_coq(_next))
    return 'holds_cmd %s (%s) %s %s %s %s' % (z(c['c0']), request_term(c), to_coq(res), to_coq(raw), to_coq(rd), to_coq(tail))


def spec_length(c):
    k = c['kind']
    if k == 'addpub':
        return 24 + c['cn']
    if k == 'addsub':
        return 32 + c['cn']
    if k == 'dest':
        return 28 + c['cn']
    if k == 'counter':
        return 24 + (c['kn'] + 3) // 4 * 4 + 4 + c['ln']
    if k in ('terminate', 'hugeterm'):
        return 20 + c['tn']
    return 24 if k == 'remove' else 16


def nontrivial(c):
    if c['kind'] == 'seq':
        return True
    ints = [v for kk, v in c.items() if isinstance(v, int) and kk in ('c0', 'reg', 'stream', 'type')]
    return any(c.get(kk, 0) >= 16 for kk in ('cn', 'kn', 'ln', 'tn')) or any(not (MIN32 <= v <= MAX32) for v in ints)


def shrink(c):
    out = []
    if c['kind'] == 'seq':
        ops = c['ops']
        tail_drains = [{'kind': 'drain', 'limit': 100000}] * 3
        body = ops[:-3] if len(ops) >= 3 else ops
        for i in range(len(body)):          # drop one operation (the three final drains stay)
            out.append(dict(c, ops=body[:i] + body[i + 1:] + tail_drains))
        if len(body) > 1:
            out.append(dict(c, ops=body[:len(body) // 2] + tail_drains))
            out.append(dict(c, ops=body[len(body) // 2:] + tail_drains))
        return out
    for kk, v in c.items():
        if not isinstance(v, int) or kk in ('excl', 'k'):
            continue
        for nv in (0, 1, v // 2, v - 1):
            if nv == v or (kk in ('cn', 'kn', 'ln', 'tn') and nv < 0):
                continue
            d = dict(c)
            d[kk] = nv
            out.append(d)
    return out

K1_DEPENDS = ['wire_k1']   # source/runtime tables this property rests on (tools/vlib/runner.py)
