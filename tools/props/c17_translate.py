"""K1 source translator for C17 (position / term arithmetic).

Reads from the repository under check (core.REPO)

    src/concurrent/logbuffer/log_buffer_descriptor.rs   index_by_term  index_by_term_count  index_by_position
                                                        compute_position  compute_term_begin_position  term_id
                                                        term_offset  next_partition_index  previous_partition_index
                                                        rotate_log
    src/utils/bit_utils.rs                              align
    src/concurrent/logbuffer/frame_descriptor.rs        compute_max_message_length
    src/concurrent/logbuffer/header.rs                  Header::position

and writes coq/Generated/GenDescriptor.v: one Gallina function `src_<name> (m : mode) <params : Z> : outcome Z` per Rust
function, plus `src_signatures` (the parameter / result types read from the source).  The translation is purely
syntactic and typed; proofs about the generated functions are in coq/Proofs/GenDescriptorProofs.v and the C17_src_*
theorems of coq/Props/C17.v, re-checked on every run.

Grammar (comments stripped).  Anything else makes the function concerned *untranslated*: it is left out of the
generated file (so every proof about it fails), the generator returns ok = False, the rest is still written.

    fn     ::= 'fn' name '(' [param (',' param)*] ')' '->' type '{' let* [ 'return' ] expr [';'] '}'
    param  ::= ident ':' type                      (no `mut`, no patterns)
    type   ::= 'i32' | 'Index' | 'i64'             (Index = i32, checked against `pub type Index = i32`)
    let    ::= 'let' ident [':' type] '=' expr ';'
    expr   ::= or;  or ::= and ('||' and)*;  and ::= cmp ('&&' cmp)*
    cmp    ::= bor [('<='|'<'|'>='|'>'|'=='|'!=') bor]
    bor    ::= bxor ('|' bxor)*;  bxor ::= band ('^' band)*;  band ::= shift ('&' shift)*
    shift  ::= sum (('<<'|'>>') sum)*;  sum ::= prod (('+'|'-') prod)*;  prod ::= cast (('*'|'/'|'%') cast)*
    cast   ::= unary ('as' type)*;  unary ::= ('-'|'!') unary | post
    post   ::= atom ('.' ('wrapping_add'|'wrapping_sub'|'wrapping_mul'|'min'|'max') '(' expr ')')*
    atom   ::= literal (decimal / 0x / 0o / 0b, `_` separators, optional i32 / i64 suffix)
             | '(' expr ')' | ident | [path '::'] CONSTANT | type '::' ('MAX'|'MIN')
             | type '::' ('wrapping_add'|'wrapping_sub'|'wrapping_mul') '(' expr ',' expr ')'
             | 'i64' '::' 'from' '(' expr ')'
             | ['std' '::' | 'core' '::'] ['cmp' '::'] ('min'|'max') '(' expr ',' expr ')'
             | [path '::'] translated-fn '(' args ')'
    Header::position additionally: 'self' '.' field  and  'self' '.' getter '(' ')'  for the five inputs
             initial_term_id, position_bits_to_shift (fields), term_id(), term_offset(), frame_length() (getters).
    rotate_log: let* ; ['let' 'mut' x [':' 'i64'] ';'] 'loop' '{' [let] x '=' raw_tail_by_partition_index(buf, e) ';'
             'if' cond '{' 'break' ';' '}'  'if' cas_raw_tail(buf, e, e, e) '{' 'break' ';' '}' '}'
             cas_active_term_count(buf, e, e) ';'
             (run without interference: the first CAS that is attempted succeeds when it compares with what was read)

Semantics carried over exactly:
  * `+ - *` and unary `-` are the checked operators of the operand type (add32 m / add64 m ...: Panic in Debug on
    overflow, wrap in Release); wrapping_* wrap; `/` `%` truncate towards zero and panic on 0 and MIN / -1 (div32, rem32 ...);
  * `<<` `>>` check the shift amount only (cshl64 m ...: Debug panics outside 0..width-1, Release masks), `>>` is arithmetic;
  * `as i32` from i64 is wrap32, i32 -> i64 (also i64::from) is the identity, the operand type is tracked through every node;
    an integer literal takes the type of its peer / its cast target / its suffix and must fit it;
  * `& | ^ !` are Z.land Z.lor Z.lxor Z.lnot (two's complement), std::cmp::min / max are Z.min / Z.max;
  * named constants are typed from their `pub const NAME: T` declaration and valued by V.Generated.GenConsts.NAME
    (the compiler's value); evaluation order is left to right (bind).
"""
import os
import re

from vlib import core

LBD = 'src/concurrent/logbuffer/log_buffer_descriptor.rs'
BIT = 'src/utils/bit_utils.rs'
FD = 'src/concurrent/logbuffer/frame_descriptor.rs'
HDR = 'src/concurrent/logbuffer/header.rs'
TYPES_RS = 'src/utils/types.rs'

# (rust name, file, kind) in an order in which callees come first
FUNCTIONS = [
    ('align', BIT, 'pure'),
    ('index_by_term', LBD, 'pure'),
    ('index_by_term_count', LBD, 'pure'),
    ('index_by_position', LBD, 'pure'),
    ('compute_position', LBD, 'pure'),
    ('compute_term_begin_position', LBD, 'pure'),
    ('term_id', LBD, 'pure'),
    ('term_offset', LBD, 'pure'),
    ('next_partition_index', LBD, 'pure'),
    ('previous_partition_index', LBD, 'pure'),
    ('compute_max_message_length', FD, 'pure'),
    ('position', HDR, 'header'),
    ('rotate_log', LBD, 'rotate'),
]
COQ_NAME = {'position': 'src_header_position'}

# the inputs of Header::position, in the parameter order of the generated function
HEADER_INPUTS = [('field', 'initial_term_id'), ('field', 'position_bits_to_shift'),
                 ('getter', 'term_id'), ('getter', 'term_offset'), ('getter', 'frame_length')]

# meta-data accessors used by rotate_log: normalised token text of their bodies (checked, not translated)
EXPECT_ACCESSORS = {
    'raw_tail_by_partition_index':
        ('( log_meta_data_buffer : & AtomicBuffer , partition_index : Index ) -> i64',
         'log_meta_data_buffer . get :: < i64 > ( * TERM_TAIL_COUNTER_OFFSET + ( partition_index * I64_SIZE ) )'),
    'cas_raw_tail':
        ('( log_meta_data_buffer : & AtomicBuffer , partition_index : Index , expected_raw_tail : i64 , update_raw_tail : i64 ) -> bool',
         'log_meta_data_buffer . compare_and_set_i64 ( * TERM_TAIL_COUNTER_OFFSET + ( partition_index * I64_SIZE ) , '
         'expected_raw_tail , update_raw_tail )'),
    'cas_active_term_count':
        ('( log_meta_data_buffer : & AtomicBuffer , expected_term_count : i32 , update_term_count : i32 ) -> bool',
         'log_meta_data_buffer . compare_and_set_i32 ( * LOG_ACTIVE_TERM_COUNT_OFFSET , expected_term_count , update_term_count )'),
}
ACCESSOR_SIGS = {'raw_tail_by_partition_index': (['buf', 'i32'], 'i64'),
                 'cas_raw_tail': (['buf', 'i32', 'i64', 'i64'], 'bool'),
                 'cas_active_term_count': (['buf', 'i32', 'i32'], 'bool')}


class TranslateError(Exception):
    pass


# ----------------------------------------------------------------------------------------------
# lexing

def strip_comments(s):
    s = re.sub(r'/\*.*?\*/', ' ', s, flags=re.S)
    s = re.sub(r'//[^\n]*', ' ', s)
    return s


_SUF = r'(?:(?:i|u)(?:8|16|32|64|128|size))?'
_TOK = re.compile(r'''\s*(?:
    (?P<num>0[xX][0-9a-fA-F_]+%s|0[oO][0-7_]+%s|0[bB][01_]+%s|\d[\d_]*%s)
  | (?P<id>[A-Za-z_][A-Za-z_0-9]*)
  | (?P<op><<=|>>=|<<|>>|&&|\|\||<=|>=|==|!=|::|->|=>|\+=|-=|\*=|/=|%%=|&=|\|=|\^=|[-+*/%%<>=!(){}\[\];,.:&|^])
)''' % (_SUF, _SUF, _SUF, _SUF), re.X)


def lex(s):
    out = []
    pos = 0
    s = s.rstrip()
    while pos < len(s):
        m = _TOK.match(s, pos)
        if not m:
            if s[pos:].strip() == '':
                break
            raise TranslateError('cannot tokenize %r' % s[pos:pos + 30].strip())
        pos = m.end()
        for k in ('num', 'id', 'op'):
            if m.group(k) is not None:
                out.append((k, m.group(k)))
                break
    return out


def find_fn(src, name, start=0):
    """(param-list text, return type text, body text) of the first `fn name(` in src[start:]."""
    m = re.compile(r'\bfn\s+%s\s*\(' % re.escape(name)).search(src, start)
    if not m:
        raise TranslateError('fn %s not found' % name)
    i = m.end()
    depth = 1
    j = i
    while depth and j < len(src):
        depth += {'(': 1, ')': -1}.get(src[j], 0)
        j += 1
    params = src[i:j - 1]
    k = src.find('{', j)
    semi = src.find(';', j)
    if k < 0 or (0 <= semi < k):
        raise TranslateError('fn %s has no body' % name)
    ret = src[j:k].strip()
    depth = 1
    e = k + 1
    while depth and e < len(src):
        depth += {'{': 1, '}': -1}.get(src[e], 0)
        e += 1
    if depth:
        raise TranslateError('unbalanced braces in fn %s' % name)
    return params, ret, src[k + 1:e - 1]


def norm_text(s):
    try:
        return ' '.join(v for _, v in lex(s))
    except TranslateError:
        return ' '.join(s.split())


# ----------------------------------------------------------------------------------------------
# parsing.  AST:
#   ('num', n, ty|None)  ('var', x)  ('const', NAME)  ('limit', ty, 'MAX'|'MIN')  ('self', 'field'|'getter', name)
#   ('bin', op, a, b)  ('un', op, a)  ('cast', a, ty)  ('wrap', 'add'|'sub'|'mul', a, b, ty|None)
#   ('minmax', 'min'|'max', a, b)  ('call', fname, [args], [path prefix])

TYPES = {'i32': 'i32', 'Index': 'i32', 'i64': 'i64'}
LIMITS = {('i32', 'MAX'): 2**31 - 1, ('i32', 'MIN'): -2**31, ('i64', 'MAX'): 2**63 - 1, ('i64', 'MIN'): -2**63}
KEYWORDS = {'as', 'if', 'else', 'let', 'return', 'unsafe', 'match', 'loop', 'while', 'for', 'break', 'continue', 'mut', 'fn',
            'in', 'ref', 'move', 'true', 'false', 'Self', 'super', 'crate', 'pub', 'use', 'mod', 'impl', 'struct', 'enum',
            'const', 'static', 'type', 'where', 'dyn', 'trait'}
WRAPPING = {'wrapping_add': 'add', 'wrapping_sub': 'sub', 'wrapping_mul': 'mul'}
CMPOPS = ('<=', '<', '>=', '>', '==', '!=')


class Parser:
    def __init__(self, toks, fn_names, allow_self=False):
        self.t = toks
        self.i = 0
        self.fn_names = fn_names
        self.allow_self = allow_self

    def peek(self, k=0):
        return self.t[self.i + k] if self.i + k < len(self.t) else (None, None)

    def next(self):
        x = self.peek()
        if x[0] is None:
            raise TranslateError('unexpected end of the function body')
        self.i += 1
        return x

    def accept(self, kind, val=None):
        k, v = self.peek()
        if k == kind and (val is None or v == val):
            self.i += 1
            return v
        return None

    def expect(self, kind, val=None):
        v = self.accept(kind, val)
        if v is None:
            raise TranslateError('expected %s, found %s' % (val or kind, self.peek()[1]))
        return v

    def done(self):
        return self.i >= len(self.t)

    def near(self):
        return ' '.join(v for _, v in self.t[self.i:self.i + 8])

    def type(self):
        v = self.expect('id')
        if v not in TYPES:
            raise TranslateError('type %s not in the grammar' % v)
        return TYPES[v]

    # statements ------------------------------------------------------------------
    def let(self):
        """after 'let': (name, ty|None, expr)"""
        if self.peek() == ('id', 'mut'):
            raise TranslateError('`let mut` not in the grammar')
        name = self.expect('id')
        if name in KEYWORDS or name == '_':
            raise TranslateError('let pattern %s not in the grammar' % name)
        ty = None
        if self.accept('op', ':'):
            ty = self.type()
        self.expect('op', '=')
        e = self.expr()
        self.expect('op', ';')
        return ('let', name, ty, e)

    def pure_body(self):
        """let* [return] expr [;]  ->  ([lets], result expr)"""
        lets = []
        while self.peek() == ('id', 'let'):
            self.next()
            lets.append(self.let())
        ret = self.accept('id', 'return')
        e = self.expr()
        if ret:
            self.accept('op', ';')
        if not self.done():
            raise TranslateError('statement not in the grammar near `%s`' % self.near())
        return lets, e

    def rotate_body(self):
        """-> dict(lets, var, read_idx, inner_lets, cond, cas args (idx, old, new), count args (exp, upd), buffers named)"""
        lets = []
        declared = None
        while self.peek() == ('id', 'let'):
            self.next()
            if self.peek() == ('id', 'mut'):
                self.next()
                declared = self.expect('id')
                if self.accept('op', ':'):
                    if self.type() != 'i64':
                        raise TranslateError('`let mut %s` is not i64' % declared)
                self.expect('op', ';')
                break
            lets.append(self.let())
        self.expect('id', 'loop')
        self.expect('op', '{')
        fresh = self.accept('id', 'let')
        var = self.expect('id')
        if fresh:
            if self.accept('op', ':') and self.type() != 'i64':
                raise TranslateError('loop variable %s is not i64' % var)
        elif var != declared:
            raise TranslateError('loop assigns %s which is not the declared `let mut` variable' % var)
        self.expect('op', '=')
        read = self.expr()
        self.expect('op', ';')
        if not (read[0] == 'call' and read[1] == 'raw_tail_by_partition_index' and len(read[2]) == 2):
            raise TranslateError('loop does not start by reading raw_tail_by_partition_index(buffer, index)')
        self.expect('id', 'if')
        cond = self.expr()
        self.break_block()
        self.expect('id', 'if')
        cas = self.expr()
        self.break_block()
        self.expect('op', '}')
        self.accept('op', ';')
        if not (cas[0] == 'call' and cas[1] == 'cas_raw_tail' and len(cas[2]) == 4):
            raise TranslateError('second `if` of the loop is not cas_raw_tail(buffer, index, expected, update)')
        fin = self.expr()
        self.expect('op', ';')
        if not self.done():
            raise TranslateError('statement not in the grammar near `%s`' % self.near())
        if not (fin[0] == 'call' and fin[1] == 'cas_active_term_count' and len(fin[2]) == 3):
            raise TranslateError('rotate_log does not end with cas_active_term_count(buffer, expected, update);')
        return {'lets': lets, 'var': var, 'read': read[2], 'cond': cond, 'cas': cas[2], 'fin': fin[2]}

    def break_block(self):
        self.expect('op', '{')
        self.expect('id', 'break')
        self.accept('op', ';')
        self.expect('op', '}')

    # expressions -----------------------------------------------------------------
    def expr(self):
        a = self.and_()
        while self.accept('op', '||'):
            a = ('bin', '||', a, self.and_())
        return a

    def and_(self):
        a = self.cmp()
        while self.accept('op', '&&'):
            a = ('bin', '&&', a, self.cmp())
        return a

    def cmp(self):
        a = self.level(0)
        k, v = self.peek()
        if k == 'op' and v in CMPOPS:
            self.next()
            a = ('bin', v, a, self.level(0))
            if self.peek()[0] == 'op' and self.peek()[1] in CMPOPS:
                raise TranslateError('chained comparison')
        return a

    LEVELS = [('|',), ('^',), ('&',), ('<<', '>>'), ('+', '-'), ('*', '/', '%')]

    def level(self, n):
        if n == len(self.LEVELS):
            return self.cast()
        a = self.level(n + 1)
        while True:
            k, v = self.peek()
            if k == 'op' and v in self.LEVELS[n]:
                self.next()
                a = ('bin', v, a, self.level(n + 1))
            else:
                return a

    def cast(self):
        a = self.unary()
        while self.accept('id', 'as'):
            a = ('cast', a, self.type())
        return a

    def unary(self):
        if self.accept('op', '-'):
            a = self.unary()
            if a[0] == 'num' and a[1] >= 0:
                return ('num', -a[1], a[2])
            return ('un', '-', a)
        if self.accept('op', '!'):
            return ('un', '!', self.unary())
        if self.peek()[0] == 'op' and self.peek()[1] in ('*', '&'):
            raise TranslateError('dereference / reference not in the grammar')
        return self.post()

    def post(self):
        a = self.atom()
        while self.peek() == ('op', '.'):
            self.next()
            meth = self.expect('id')
            if meth in WRAPPING or meth in ('min', 'max'):
                self.expect('op', '(')
                b = self.expr()
                self.expect('op', ')')
                a = ('wrap', WRAPPING[meth], a, b, None) if meth in WRAPPING else ('minmax', meth, a, b)
            else:
                raise TranslateError('method .%s not in the grammar' % meth)
        return a

    def args(self):
        out = []
        if self.accept('op', ')'):
            return out
        while True:
            out.append(self.expr())
            if self.accept('op', ','):
                if self.accept('op', ')'):       # trailing comma
                    return out
                continue
            self.expect('op', ')')
            return out

    def atom(self):
        k, v = self.next()
        if k == 'num':
            return self.literal(v)
        if k == 'op' and v == '(':
            e = self.expr()
            self.expect('op', ')')
            return e
        if k == 'id' and v == 'self':
            if not self.allow_self:
                raise TranslateError('`self` not in the grammar here')
            self.expect('op', '.')
            f = self.expect('id')
            if self.accept('op', '('):
                self.expect('op', ')')
                return ('self', 'getter', f)
            return ('self', 'field', f)
        if k == 'id' and (v not in KEYWORDS or v in ('crate', 'super')):
            path = [v]
            while self.peek() == ('op', '::'):
                self.next()
                path.append(self.expect('id'))
            if self.accept('op', '('):
                return self.path_call(path, self.args())
            return self.path_value(path)
        raise TranslateError('token `%s` not in the grammar' % v)

    def literal(self, v):
        m = re.match(r'^(0[xX][0-9a-fA-F_]+?|0[oO][0-7_]+|0[bB][01_]+|\d[\d_]*?)((?:i|u)(?:8|16|32|64|128|size))?$', v)
        if not m:
            raise TranslateError('literal %s not in the grammar' % v)
        digits = m.group(1).replace('_', '')
        n = int(digits, 0) if digits[:2].lower() in ('0x', '0o', '0b') else int(digits)
        suf = m.group(2)
        if suf and suf not in TYPES:
            raise TranslateError('literal suffix %s not in the grammar' % suf)
        return ('num', n, TYPES[suf] if suf else None)

    def path_value(self, path):
        last, pre = path[-1], path[:-1]
        if len(path) == 2 and pre[0] in TYPES and last in ('MAX', 'MIN'):
            return ('limit', TYPES[pre[0]], last)
        if re.match(r'^[A-Z][A-Z0-9_]*$', last):
            return ('const', last, pre)
        if not pre:
            return ('var', last)
        raise TranslateError('path %s not in the grammar' % '::'.join(path))

    def path_call(self, path, args):
        last, pre = path[-1], path[:-1]
        if last in ('min', 'max') and pre in ([], ['cmp'], ['std', 'cmp'], ['core', 'cmp']):
            if len(args) != 2:
                raise TranslateError('%s takes two arguments' % last)
            return ('minmax', last, args[0], args[1])
        if last in WRAPPING and len(pre) == 1 and pre[0] in TYPES:
            if len(args) != 2:
                raise TranslateError('%s takes two arguments' % last)
            return ('wrap', WRAPPING[last], args[0], args[1], TYPES[pre[0]])
        if last == 'from' and pre == ['i64']:
            if len(args) != 1:
                raise TranslateError('i64::from takes one argument')
            return ('cast', args[0], 'i64', 'from')
        if last in self.fn_names or last in ACCESSOR_SIGS:
            return ('call', last, args, pre)
        raise TranslateError('call of %s not in the grammar' % '::'.join(path))


# ----------------------------------------------------------------------------------------------
# typing and emission

OPS = {'i32': {'+': 'add32 m', '-': 'sub32 m', '*': 'mul32 m', '/': 'div32', '%': 'rem32', '<<': 'cshl32 m', '>>': 'cshr32 m',
               'neg': 'neg32 m', 'wrap': 'wrap32'},
       'i64': {'+': 'add64 m', '-': 'sub64 m', '*': 'mul64 m', '/': 'div64', '%': 'rem64', '<<': 'cshl64 m', '>>': 'cshr64 m',
               'neg': 'neg64 m', 'wrap': 'wrap64'}}
BITOPS = {'&': 'Z.land', '|': 'Z.lor', '^': 'Z.lxor'}
CMP = {'<=': '%s <=? %s', '<': '%s <? %s', '>=': '%s >=? %s', '>': '%s >? %s', '==': '%s =? %s', '!=': 'negb (%s =? %s)'}


def lit(n):
    return '(%d)' % n if n < 0 else '%d' % n


class Emitter:
    """Compiles an AST to Gallina in A-normal form.  comp() returns (text, type) where text is a *pure* term
    (Z or bool); every operation that can panic is bound to a fresh name in self.pending, in evaluation order
    (left to right), and flushed as `t <- op ;;` lines by the statement level."""

    def __init__(self, env, sigs, consts, module, self_types=None):
        self.env = dict(env)            # rust name -> (coq name, type)
        self.sigs = sigs                # translated fn -> ([param types], ret type, coq name, module stem)
        self.consts = consts            # NAME -> (type, module stem)
        self.module = module            # (file stem of the function being translated, its source text)
        self.self_types = self_types or {}
        self.n = 0
        self.pending = []               # [(name, monadic term)]

    def fresh(self):
        self.n += 1
        return 't%d' % self.n

    def bind(self, term):
        x = self.fresh()
        self.pending.append((x, term))
        return x

    def flush(self):
        lines = ['%s <- %s ;;' % (x, t) for x, t in self.pending]
        self.pending = []
        return lines

    # -- types ---------------------------------------------------------------
    def ty_of(self, e):
        k = e[0]
        if k == 'num':
            return e[2]
        if k == 'var':
            if e[1] not in self.env:
                raise TranslateError('unknown identifier %s' % e[1])
            return self.env[e[1]][1]
        if k == 'const':
            return self.const(e)[0]
        if k == 'limit':
            return e[1]
        if k == 'self':
            return self.self_type(e)
        if k == 'cast':
            return e[2]
        if k == 'wrap':
            return e[4] or self.ty_of(e[2]) or self.ty_of(e[3])
        if k == 'minmax':
            return self.ty_of(e[2]) or self.ty_of(e[3])
        if k == 'un':
            return self.ty_of(e[2])
        if k == 'bin':
            if e[1] in ('&&', '||') or e[1] in CMPOPS:
                return 'bool'
            if e[1] in ('<<', '>>'):
                return self.ty_of(e[2])
            return self.ty_of(e[2]) or self.ty_of(e[3])
        if k == 'call':
            return self.sig(e)[1]
        raise TranslateError('typeof %r' % (e,))

    def const(self, e):
        name, pre = e[1], e[2]
        if name not in self.consts:
            raise TranslateError('constant %s is not a typed `pub const` of the translated files dumped into GenConsts' % name)
        ty, mod = self.consts[name]
        self.check_path(name, pre, mod)
        return ty, 'GenConsts.%s' % name

    def check_path(self, name, pre, mod):
        """`name` lives in module `mod`; it is written with path prefix `pre` inside self.module."""
        stem, text = self.module
        if pre:
            if pre[-1] != mod:
                raise TranslateError('%s::%s does not name %s::%s' % ('::'.join(pre), name, mod, name))
            return
        if mod == stem:
            return
        if not re.search(r'\buse\s+[^;]*\b%s\b[^;]*\b%s\b' % (re.escape(mod), re.escape(name)), text) and \
           not re.search(r'\buse\s+[^;]*\b%s\s*::\s*\*' % re.escape(mod), text):
            raise TranslateError('%s is used unqualified but not imported from %s' % (name, mod))

    def sig(self, e):
        name = e[1]
        if name in ACCESSOR_SIGS:
            raise TranslateError('%s is only understood in the loop of rotate_log' % name)
        if name not in self.sigs:
            raise TranslateError('call of %s, which was not translated' % name)
        s = self.sigs[name]
        self.check_path(name, e[3], s[3])
        return s

    def self_type(self, e):
        key = (e[1], e[2])
        if key not in self.self_types:
            raise TranslateError('self.%s%s is not one of the inputs of Header::position' % (e[2], '()' if e[1] == 'getter' else ''))
        return self.self_types[key]

    # -- terms ---------------------------------------------------------------
    def comp(self, e, want=None):
        """-> (pure text, type); `want` is the type the context requires (None: whatever the expression has)."""
        ty = self.ty_of(e) or want or 'i32'
        if want and ty != want:
            raise TranslateError('expression of type %s where %s is required (does not compile in Rust): %s' % (ty, want, show(e)))
        k = e[0]
        if ty == 'bool':
            return self.comp_bool(e), 'bool'
        if k == 'num':
            if not LIMITS[(ty, 'MIN')] <= e[1] <= LIMITS[(ty, 'MAX')]:
                raise TranslateError('literal %d out of range for %s' % (e[1], ty))
            return lit(e[1]), ty
        if k == 'var':
            return self.env[e[1]][0], ty
        if k == 'const':
            return self.const(e)[1], ty
        if k == 'limit':
            return lit(LIMITS[(e[1], e[2])]), ty
        if k == 'self':
            return 'v_' + e[2], ty
        if k == 'cast':
            inner = e[1]
            if inner[0] == 'num' and inner[2] is None and len(e) == 3:
                return self.comp(('num', inner[1], ty), ty)     # `1 as i64`: the literal takes the target type
            it, ity = self.comp(inner, None)
            if ity == 'bool':
                raise TranslateError('cast of a boolean not in the grammar')
            if len(e) == 4 and not (ity == 'i32' and ty == 'i64') and ity != ty:
                raise TranslateError('%s::from(%s) does not compile in Rust' % (ty, ity))
            if ity == ty or (ity, ty) == ('i32', 'i64'):
                return it, ty                                      # widening / same type: the value is unchanged
            return '%s %s' % (OPS[ty]['wrap'], par(it)), ty       # i64 -> i32 truncates
        if k == 'un':
            a, _ = self.comp(e[2], ty)
            if e[1] == '-':
                return self.bind('%s %s' % (OPS[ty]['neg'], par(a))), ty
            return 'Z.lnot %s' % par(a), ty
        if k == 'bin':
            op = e[1]
            if op in ('<<', '>>'):
                a, _ = self.comp(e[2], ty)
                b, tb = self.comp(e[3], None)
                if tb == 'bool':
                    raise TranslateError('shift by a boolean')
                return self.bind('%s %s %s' % (OPS[ty][op], par(a), par(b))), ty
            a, _ = self.comp(e[2], ty)
            b, _ = self.comp(e[3], ty)
            if op in BITOPS:
                return '%s %s %s' % (BITOPS[op], par(a), par(b)), ty
            if op in OPS[ty]:
                return self.bind('%s %s %s' % (OPS[ty][op], par(a), par(b))), ty
            raise TranslateError('operator %s not in the grammar' % op)
        if k == 'wrap':
            a, _ = self.comp(e[2], ty)
            b, _ = self.comp(e[3], ty)
            sign = {'add': '+', 'sub': '-', 'mul': '*'}[e[1]]
            return '%s (%s %s %s)' % (OPS[ty]['wrap'], par(a), sign, par(b)), ty
        if k == 'minmax':
            a, _ = self.comp(e[2], ty)
            b, _ = self.comp(e[3], ty)
            return 'Z.%s %s %s' % (e[1], par(a), par(b)), ty
        if k == 'call':
            ptys, rty, coqname, _ = self.sig(e)
            if len(ptys) != len(e[2]):
                raise TranslateError('%s called with %d arguments, declared with %d' % (e[1], len(e[2]), len(ptys)))
            xs = [self.comp(a, t)[0] for a, t in zip(e[2], ptys)]
            return self.bind('%s m %s' % (coqname, ' '.join(par(x) for x in xs))), rty
        raise TranslateError('expression not in the grammar: %s' % show(e))

    def comp_bool(self, e):
        """-> pure text of a boolean expression"""
        k = e[0]
        if k == 'bin' and e[1] in CMPOPS:
            ta, tb = self.ty_of(e[2]), self.ty_of(e[3])
            if ta == 'bool' or tb == 'bool':
                raise TranslateError('comparison of booleans not in the grammar')
            ty = ta or tb or 'i32'
            a, _ = self.comp(e[2], ty)
            b, _ = self.comp(e[3], ty)
            return CMP[e[1]] % (par(a), par(b))
        if k == 'bin' and e[1] in ('&&', '||'):
            a = self.comp_bool(e[2])
            saved, self.pending = self.pending, []
            b = self.comp_bool(e[3])
            inner, self.pending = self.pending, saved
            if not inner:
                return '%s %s %s' % ('andb' if e[1] == '&&' else 'orb', par(a), par(b))
            # the right operand is evaluated (and can panic) only when the left one does not decide
            rhs = '(%s Ok %s)' % (' '.join('%s <- %s ;;' % (x, t) for x, t in inner), par(b))
            if e[1] == '&&':
                return self.bind('if %s then %s else Ok false' % (a, rhs))
            return self.bind('if %s then Ok true else %s' % (a, rhs))
        if k == 'un' and e[1] == '!':
            return 'negb %s' % par(self.comp_bool(e[2]))
        if k == 'var' and self.env.get(e[1], (None, None))[1] == 'bool':
            return self.env[e[1]][0]
        raise TranslateError('boolean expression not in the grammar: %s' % show(e))

    def lets(self, lets):
        """binds the `let`s in self.env; returns the Gallina binder lines"""
        lines = []
        for _, name, ty, e in lets:
            text, ety = self.comp(e, ty)
            coq = 'v_' + name
            if self.pending and self.pending[-1][0] == text:       # the value is the last operation: bind it under its own name
                self.pending[-1] = (coq, self.pending[-1][1])
                lines += self.flush()
            else:
                lines += self.flush()
                lines.append('let %s := %s in' % (coq, text))
            self.env[name] = (coq, ety)
        return lines

    def result(self, e, want):
        """lines computing `e` as the result (type `outcome _`) of the function"""
        text, ty = self.comp(e, want)
        if self.pending and self.pending[-1][0] == text:
            last = self.pending.pop()[1]
            return self.flush() + [last]
        return self.flush() + ['Ok %s' % par(text)]

    def value(self, e, want, name):
        """lines binding the value of `e` to the Gallina name `name`"""
        text, ty = (self.comp_bool(e), 'bool') if want == 'bool' else self.comp(e, want)
        if self.pending and self.pending[-1][0] == text:
            self.pending[-1] = (name, self.pending[-1][1])
            return self.flush()
        return self.flush() + ['let %s := %s in' % (name, text)]


def par(x):
    return x if re.match(r'^(\w|\.)+$', x) or (x.startswith('(') and _balanced(x)) else '(%s)' % x


def _balanced(x):
    d = 0
    for i, c in enumerate(x):
        d += {'(': 1, ')': -1}.get(c, 0)
        if d == 0 and i < len(x) - 1:
            return False
    return d == 0


def show(e):
    return re.sub(r'\s+', ' ', repr(e))[:160]


# ----------------------------------------------------------------------------------------------
# per-function translation

def parse_params(params, allowed_first=None):
    """-> [(name, type)]; `allowed_first` is the normalised text of a non-integer first parameter (or None)"""
    ps = [p.strip() for p in params.split(',') if p.strip()]
    out = []
    for i, p in enumerate(ps):
        if i == 0 and allowed_first is not None:
            m = re.match(allowed_first, ' '.join(p.split()))
            if not m:
                raise TranslateError('first parameter `%s` not in the grammar' % p)
            out.append((m.group(1) if m.groups() else None, 'buf'))
            continue
        m = re.match(r'^([A-Za-z_][A-Za-z_0-9]*)\s*:\s*([A-Za-z_][A-Za-z_0-9]*)$', p)
        if not m or m.group(1) in KEYWORDS or m.group(2) not in TYPES:
            raise TranslateError('parameter `%s` not in the grammar' % p)
        out.append((m.group(1), TYPES[m.group(2)]))
    return out


def parse_ret(ret):
    m = re.match(r'^->\s*([A-Za-z_][A-Za-z_0-9]*)$', ret)
    if not m or m.group(1) not in TYPES:
        raise TranslateError('return type `%s` not in the grammar' % ret)
    return TYPES[m.group(1)]


def tr_pure(name, text, stem, sigs, consts):
    params, ret, body = find_fn(text, name)
    ps = parse_params(params)
    rty = parse_ret(ret)
    env = {n: ('v_' + n, t) for n, t in ps}
    if len(env) != len(ps):
        raise TranslateError('duplicate parameter names')
    em = Emitter(env, sigs, consts, (stem, text))
    lets, e = Parser(lex(body), set(sigs)).pure_body()
    lines = em.lets(lets) + em.result(e, rty)
    coq = COQ_NAME.get(name, 'src_' + name)
    sig = ([t for _, t in ps], rty, coq, stem)
    rust = 'fn %s(%s) %s { %s }' % (name, norm_text(params), ret, norm_text(body))
    head = 'Definition %s (m : mode) (%s : Z) : outcome Z :=' % (coq, ' '.join('v_' + n for n, _ in ps)) if ps else \
        'Definition %s (m : mode) : outcome Z :=' % coq
    return sig, rust, head, lines


def tr_header(text, stem, sigs, consts):
    i = text.find('impl Header')
    if i < 0:
        raise TranslateError('impl Header not found')
    j = text.find('\nimpl ', i + 1)
    impl = text[i:j if j > 0 else len(text)]
    params, ret, body = find_fn(impl, 'position')
    if ''.join(params.split()) != '&self':
        raise TranslateError('Header::position takes (%s), not (&self)' % params.strip())
    rty = parse_ret(ret)
    # the types of the five inputs, from the struct declaration and the getters' signatures
    sm = re.search(r'\bstruct\s+Header\s*\{(.*?)\}', text, flags=re.S)
    if not sm:
        raise TranslateError('struct Header not found')
    fields = dict(re.findall(r'([A-Za-z_][A-Za-z_0-9]*)\s*:\s*([A-Za-z_][A-Za-z_0-9]*)\s*,', sm.group(1)))
    self_types = {}
    for kind, n in HEADER_INPUTS:
        if kind == 'field':
            if fields.get(n) not in TYPES:
                raise TranslateError('field Header::%s is not an i32 / i64' % n)
            self_types[(kind, n)] = TYPES[fields[n]]
        else:
            p2, r2, _ = find_fn(impl, n)
            if ''.join(p2.split()) != '&self':
                raise TranslateError('getter Header::%s takes (%s)' % (n, p2.strip()))
            self_types[(kind, n)] = parse_ret(r2)
    em = Emitter({}, sigs, consts, (stem, text), self_types)
    lets, e = Parser(lex(body), set(sigs), allow_self=True).pure_body()
    lines = em.lets(lets) + em.result(e, rty)
    coq = COQ_NAME['position']
    sig = ([self_types[k] for k in HEADER_INPUTS], rty, coq, stem)
    rust = 'fn position(&self) %s { %s }' % (ret, norm_text(body))
    head = 'Definition %s (m : mode) (%s : Z) : outcome Z :=' % (coq, ' '.join('v_' + n for _, n in HEADER_INPUTS))
    return sig, rust, head, lines


def tr_rotate(text, stem, sigs, consts):
    for acc, (want_sig, want_body) in EXPECT_ACCESSORS.items():
        p, r, b = find_fn(text, acc)
        got_sig = '( %s ) %s' % (norm_text(p), norm_text(r))
        got_sig = got_sig.replace(' , )', ' )')
        if got_sig != want_sig or norm_text(b).replace(' , )', ' )') != want_body:
            raise TranslateError('meta-data accessor %s changed: %s { %s }' % (acc, got_sig, norm_text(b)))
    params, ret, body = find_fn(text, 'rotate_log')
    if ret.strip():
        raise TranslateError('rotate_log returns `%s`' % ret)
    ps = parse_params(params, r'^([A-Za-z_][A-Za-z_0-9]*) ?: ?& ?AtomicBuffer$')
    if len(ps) != 3 or [t for _, t in ps] != ['buf', 'i32', 'i32']:
        raise TranslateError('rotate_log signature changed: (%s)' % norm_text(params))
    buf = ps[0][0]
    env = {n: ('v_' + n, t) for n, t in ps[1:]}
    em = Emitter(env, sigs, consts, (stem, text))
    r = Parser(lex(body), set(sigs)).rotate_body()

    def is_buf(a):
        if a != ('var', buf):
            raise TranslateError('meta-data accessor called on something else than `%s`' % buf)

    lines = em.lets(r['lets'])
    is_buf(r['read'][0])
    lines += em.value(r['read'][1], 'i32', 'i_read')
    var = 'v_' + r['var']
    lines.append('let %s := Descriptor.get_tail s i_read in' % var)
    em.env[r['var']] = (var, 'i64')
    lines += em.value(r['cond'], 'bool', 'c_break')
    is_buf(r['cas'][0])
    inner = []
    for a, ty, nm in zip(r['cas'][1:], ['i32', 'i64', 'i64'], ['i_cas', 'x_old', 'x_new']):
        inner += em.value(a, ty, nm)
    lines.append('s1 <- (if c_break then Ok s else')
    lines += ['       ' + l for l in inner]
    lines.append('       if Descriptor.get_tail s i_cas =? x_old then Ok (Descriptor.set_tail s i_cas x_new) else Hang) ;;')
    is_buf(r['fin'][0])
    for a, nm in zip(r['fin'][1:], ['c_old', 'c_new']):
        lines += em.value(a, 'i32', nm)
    lines.append('Ok (if Descriptor.count s1 =? c_old then Descriptor.set_count s1 c_new else s1)')
    sig = (['i32', 'i32'], None, 'src_rotate_log', stem)
    rust = 'fn rotate_log(%s) { %s }' % (norm_text(params), norm_text(body))
    head = 'Definition src_rotate_log (m : mode) (s : Descriptor.meta) (%s : Z) : outcome Descriptor.meta :=' % \
        ' '.join('v_' + n for n, _ in ps[1:])
    return sig, rust, head, lines


# ----------------------------------------------------------------------------------------------

def read_consts(texts):
    """NAME -> (type, module stem) for every `pub const NAME: <i32|Index|i64> = ...;` of the translated files"""
    out = {}
    for path, text in texts.items():
        stem = os.path.basename(path)[:-3]
        for m in re.finditer(r'(?m)^\s*pub\s+const\s+([A-Z][A-Z0-9_]*)\s*:\s*([A-Za-z_][A-Za-z_0-9]*)\s*=', text):
            if m.group(2) in TYPES:
                if m.group(1) in out and out[m.group(1)][1] != stem:
                    out[m.group(1)] = ('ambiguous', stem)
                else:
                    out[m.group(1)] = (TYPES[m.group(2)], stem)
    return {k: v for k, v in out.items() if v[0] != 'ambiguous'}


def coq_comment_safe(s):
    return s.replace('(*', '( *').replace('*)', '* )')


def translate(repo, genconsts_path):
    """-> (text of GenDescriptor.v, [names translated], [error strings])"""
    texts = {}
    for p in (LBD, BIT, FD, HDR):
        texts[p] = strip_comments(open(os.path.join(repo, p)).read()).split('#[cfg(test)]')[0]
    errors = []
    try:
        ttext = strip_comments(open(os.path.join(repo, TYPES_RS)).read())
        if not re.search(r'\bpub\s+type\s+Index\s*=\s*i32\s*;', ttext):
            errors.append('types.rs: `pub type Index = i32;` not found (Index is translated as i32)')
    except OSError as e:
        errors.append('types.rs: %s' % e)
    consts = read_consts(texts)
    try:
        dumped = set(re.findall(r'(?m)^Definition\s+(\w+)\s*:\s*Z\s*:=', open(genconsts_path).read()))
    except OSError:
        dumped = set()
    consts = {k: v for k, v in consts.items() if k in dumped}     # value = the compiler's, through GenConsts
    sigs = {}
    out = []
    done = []
    for name, path, kind in FUNCTIONS:
        stem = os.path.basename(path)[:-3]
        label = 'Header::position' if kind == 'header' else name
        try:
            if kind == 'pure':
                sig, rust, head, lines = tr_pure(name, texts[path], stem, sigs, consts)
            elif kind == 'header':
                sig, rust, head, lines = tr_header(texts[path], stem, sigs, consts)
            else:
                sig, rust, head, lines = tr_rotate(texts[path], stem, sigs, consts)
        except (TranslateError, IndexError, KeyError, AssertionError) as e:
            msg = '%s: %s' % (e.__class__.__name__, e) if not isinstance(e, TranslateError) else str(e)
            errors.append('%s: %s' % (label, msg))
            out.append('(* NOT TRANSLATED  %s (%s): %s *)\n' % (label, path, coq_comment_safe(msg)))
            continue
        sigs[name] = sig
        done.append(label)
        out.append('(* %s\n   %s *)' % (path, coq_comment_safe(rust)))
        out.append(head)
        out.append('\n'.join('  ' + l for l in lines) + '.\n')
    ity = {'i32': 'I32', 'i64': 'I64', None: 'I64'}
    rows = []
    for name, path, kind in FUNCTIONS:
        if name in sigs and kind != 'rotate':
            ptys, rty, coq, _ = sigs[name]
            rows.append('("%s", [%s], %s)' % (coq, '; '.join(ity[t] for t in ptys), ity[rty]))
        elif name in sigs:
            rows.append('("src_rotate_log", [%s], I64)' % '; '.join(ity[t] for t in sigs[name][0]))
    head = ['(* GENERATED on every run by tools/props/c17_translate.py from the repository under check:',
            '   %s, %s, %s, %s.  Do not edit. *)' % (LBD, BIT, FD, HDR)]
    if errors:
        head.append('(* INCOMPLETE - the translator did not understand: %s.' % coq_comment_safe('; '.join(errors)))
        head.append('   The functions concerned are missing; K1 is reported broken and every proof about them fails. *)')
    head += ['From Coq Require Import String.',
             'Require Import V.Base.MachineInt V.Base.MachineInt2.',
             'Require V.Generated.GenConsts V.Model.Descriptor.',
             'Open Scope Z_scope.', '']
    tail = ['(* parameter and result types as declared in the source (Index = i32); the i32 / i64 domain of every lemma *)',
            'Definition src_signatures : list (string * list ity * ity) :=\n  [ ' + ';\n    '.join(rows) + ' ]%string.', '']
    return '\n'.join(head + out + tail), done, errors


def generate():
    """Writes GenDescriptor.v with every function that was understood; ok = False as soon as one was not."""
    gc = os.path.join(core.COQ, 'Generated', 'GenConsts.v')
    try:
        text, done, errors = translate(core.REPO, gc)
    except OSError as e:
        return False, 'c17_translate: %s' % e
    changed = core.write_if_changed(os.path.join(core.COQ, 'Generated', 'GenDescriptor.v'), text)
    if errors:
        return False, 'c17_translate: unsupported source shape: %s' % '; '.join(errors)
    return True, 'descriptor arithmetic: %d functions translated%s' % (len(done), ' (rewritten)' if changed else '')


TABLES = [generate]

if __name__ == '__main__':
    import sys
    repo = sys.argv[1] if len(sys.argv) > 1 else '/repo'
    t, d, errs = translate(repo, os.path.join(core.ROOT, 'coq', 'Generated', 'GenConsts.v'))
    sys.stdout.write(t)
    sys.stderr.write('translated: %s\nerrors: %s\n' % (d, errs))
