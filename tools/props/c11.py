"""C11 - liveness timing: heartbeat, driver-death and service timeouts fire on time."""
import os
import re

from vlib import core
from vlib.term import z, to_coq

ID = 'C11'
PROP_FILE = 'Props/C11.v'
EVAL_FILES = ['Oracle/C11Oracle.v']
CRATES = ['c11']
MODES = ['debug', 'release']
IMPORTS = 'Require Import V.Base.MachineInt V.Model.CondTimers V.Oracle.C11Oracle.'
RULE = ('histories of duty cycles / add_* / find_* on a full in-process client (real ring, broadcast and counters buffers, harness clock); '
        'each history draws a configuration (driver timeout, inter-service timeout in ns incl. values that are not whole ms and < 1 ms, '
        'construction time incl. 0, client id) and 4-40 operations whose clock readings are centred on the live thresholds: '
        'previous cycle + inter-service timeout, last keep-alive + 500, driver heartbeat + driver timeout, last resource check + 1000, '
        'registration time + driver timeout, each hit exactly, one below and one above, plus small steps and large jumps; the driver heartbeat is '
        'kept fresh, left to age, set to 0 or negative; the client heartbeat counter appears late, moves, is reclaimed, changes key or type; '
        'ON_ERROR events for known / unknown registrations; a malformed stream uses clock values up to 2^64-1 (u64 overflow: debug panic, release wrap) '
        'and non-monotone clocks; a further stream of histories (own random stream) draws the client id beyond 32 bits (2^31-1, 2^31, 2^32+5, 2^40, 2^62+9 ...: the '
        'driver\'s 64-bit correlation counter, written into the ring trailer by the harness) with the heartbeat counter usually present, and requests destinations through all four '
        'entry points (add_destination / remove_destination / add_rcv_destination / remove_rcv_destination) some time after the last duty cycle. A history is non-trivial when at least one reading is within 1 of a live threshold; distinct = distinct histories')
ASSUMPTIONS = [
    'one clock reading per operation (the harness sets the clock before each call); the conductor is driven from one thread, as the agent does',
    'no resource (publication, subscription, image) is ever registered in these histories: the managed-resource registry is empty (C12 covers it); '
    'broadcast errors inside do_work and which handlers a close fires, and how often, are C09/C10 matters: the handler log is compared with the model, but the oracle only judges the error-handler entries (service timeout, driver inactive, heartbeat lost) and the closed flag',
    'theorems cover all times, heartbeats and timeouts below 2^62; beyond that only the model/implementation correspondence is checked',
]
TRUSTED = [
    'KEEPALIVE_TIMEOUT_MS / RESOURCE_TIMEOUT_MS are private constants of client_conductor.rs: re-read from the source text on every run and compared with the model (extra check K1-consts); '
    'the comparison operators of on_heartbeat_check_timeouts / find_* are re-read likewise (K1-operators)',
]
PER_CASE_TIMEOUT = 5.0

U64 = 2**64
HOOK_FIND_EXCL = 'fn find_exclusive_publication_for_verif'


def has_find_excl_hook():
    """find_exclusive_publication is pub(crate): looked up through the add-only hook of hooks/cond-find-exclusive.diff;
    while the repository under test lacks it, lookups of exclusive publications are not generated."""
    try:
        return HOOK_FIND_EXCL in open(os.path.join(core.REPO, 'src', 'client_conductor.rs')).read()
    except OSError:
        return False
KINDS = ['KPub', 'KExPub', 'KSub', 'KCounter', 'KDest']
# add operations 4..7 = add_destination / remove_destination / add_rcv_destination / remove_rcv_destination: four entry points that each
# register a pending destination request (model: Add KDest), all looked up with find_destination_response (Find kind 4)
ADD_KINDS = KINDS + ['KDest', 'KDest', 'KDest']
BIG_CIDS = [2**31, 2**31 - 1, 2**31 + 1, 2**32, 2**32 + 5, 2**32 - 1, 2**40, 2**40 + 2**31, 2**62 + 9, 0x1200000005]


def mode_c(mode):
    return 'Debug' if mode == 'debug' else 'Release'


# ---------------------------------------------------------------------------------------------
# generator

class _Sim:
    """Bookkeeping used only to aim clock readings at thresholds (not an oracle)."""

    def __init__(self, td, inter_ns, t0, cid):
        self.td, self.tis = td, inter_ns // 1000000
        self.now = t0
        self.t_work = self.t_keep = self.t_check = t0
        self.hb = t0
        self.next_id = cid + 1
        self.regs = []      # (kind, id, time)
        self.near = False

    def thresholds(self):
        th = [self.t_work + self.tis, self.t_keep + 500, self.t_check + 1000]
        if self.hb >= 0:
            th.append(self.hb + self.td)
            th.append(self.hb + self.td + 500)
        for (_, _, t) in self.regs[-3:]:
            th.append(t + self.td)
        return th

    def pick_time(self, rng, monotone=True):
        r = rng.random()
        cands = []
        for t in self.thresholds():
            for d in (-1, 0, 1):
                if t + d >= self.now or not monotone:
                    cands.append(t + d)
        if r < 0.6 and cands:
            t = rng.choice(cands)
            self.near = True
        elif r < 0.85:
            t = self.now + rng.choice([0, 1, 2, 50, 100, 250, 400, 499, 500, 501, 999, 1000, 1001])
        elif r < 0.95:
            t = self.now + rng.choice([self.td, self.td * 3 + 7, 10**6, 2**40])
        else:
            t = self.now
        t = max(t, 0)
        if monotone:
            t = max(t, self.now)
        for th in self.thresholds():
            if abs(t - th) <= 1:
                self.near = True
        return t

    def cycle(self, now):
        self.now = now
        self.t_work = now
        if now > self.t_keep + 500:
            self.t_keep = now
        if now > self.t_check + 1000:
            self.t_check = now


def _table(rng, cid, state):
    """counters meta data of slots 0..3; state['slot'] is where the client heartbeat counter lives (None: absent)."""
    r = rng.random()
    if state['slot'] is None:
        if r < 0.3:
            state['slot'] = rng.randrange(0, 4)
    else:
        if r < 0.08:
            state['slot'] = None                      # reclaimed
        elif r < 0.12:
            state['slot'] = rng.randrange(0, 4)       # re-allocated elsewhere
    t = []
    for i in range(4):
        if state['slot'] == i:
            t.append([1, 11, cid])
        else:
            q = rng.random()
            if q < 0.55:
                t.append([0, 0, 0])
            elif q < 0.65:
                t.append([-1, 11, cid])               # reclaimed record with the right identity
            elif q < 0.75:
                t.append([1, 11, cid + 1])            # another client's heartbeat
            elif q < 0.85:
                t.append([1, 10, cid])                # same key, other type
            else:
                t.append([1, rng.choice([0, 1, 4, 11]), rng.choice([0, cid + 2, cid + 3])])
    if state['slot'] is not None and rng.random() < 0.05:
        # a second matching record after the first: the first one must win
        for i in range(state['slot'] + 1, 4):
            t[i] = [1, 11, cid]
            break
    return t


def gen_history(rng, malformed=False, wide=False):
    """wide: client ids beyond 32 bits (the driver's correlation counter is 64 bit) and all four destination entry points."""
    td = rng.choice([10000, 10000, 1000, 5000, 1, 0, 60000])
    inter_ns = rng.choice([5 * 10**9, 5 * 10**9, 10**10, 10**9 + 999999, 2 * 10**9 - 1, 999999, 10**6, 7 * 10**9])
    if rng.random() < 0.5:
        inter_ns = max(inter_ns, 10**10 * 50)         # never closes: keeps the rest of the history interesting
    t0 = rng.choice([0, 1, 1500, 10**6, 10**6, 1600000000000, 2**40])
    cid = rng.choice([0, 0, 1, 7, 40])
    if wide:
        cid = rng.choice(BIG_CIDS)
    if malformed:
        t0 = rng.choice([0, U64 - 1 - 20000, U64 - 1 - 400, 2**63 - 100, 2**62 - 600])
    sim = _Sim(td, inter_ns, t0, cid)
    xhook = has_find_excl_hook()
    ops = []
    n = rng.randrange(4, 41)
    tstate = {'slot': None if rng.random() < (0.3 if wide else 0.7) else rng.randrange(0, 4)}
    hb_mode = rng.choice(['fresh', 'fresh', 'aging', 'aging', 'zero', 'negative', 'mixed'])
    table = _table(rng, cid, tstate)
    for _ in range(n):
        r = rng.random()
        if r < 0.62:
            now = sim.pick_time(rng, monotone=not (malformed and rng.random() < 0.3))
            if malformed:
                now = min(now, U64 - 1)
                if rng.random() < 0.1:
                    now = U64 - 1 - rng.choice([0, 1, 499, 500, 501, 1000])
            hm = hb_mode if hb_mode != 'mixed' else rng.choice(['fresh', 'aging', 'zero', 'negative'])
            if hm == 'fresh':
                sim.hb = max(0, now - rng.choice([0, 1, td // 2, td - 1, td, td + 1]) if rng.random() < 0.5 else now)
            elif hm == 'zero':
                sim.hb = 0
            elif hm == 'negative':
                sim.hb = rng.choice([-1, -2**63, -500])
            sim.hb = min(sim.hb, 2**63 - 1)
            if rng.random() < 0.35:
                table = _table(rng, cid, tstate)
            ev = None
            if rng.random() < 0.15:
                ids = [i for (_, i, _) in sim.regs] or [sim.next_id]
                ev = [rng.choice(ids + [sim.next_id + 3, cid]), rng.choice([0, 1, 2, 3, 4, 5, -1, 11])]
            ops.append(['C', now, sim.hb, [list(x) for x in table], ev])
            sim.cycle(now)
        elif r < 0.8:
            now = sim.pick_time(rng) if rng.random() < 0.3 else sim.now
            if malformed:
                now = min(now, U64 - 1)
            kind = rng.randrange(0, 5)
            if wide and rng.random() < 0.5:
                kind = rng.randrange(4, 8)
            ops.append(['A', kind, now])
            sim.now = max(sim.now, now)
            sim.regs.append((kind, sim.next_id, now))
            sim.next_id += 1     # (a refused add does not draw an id; the bookkeeping only aims, it need not be exact)
        else:
            now = sim.pick_time(rng)
            if malformed:
                now = min(now, U64 - 1)
            if sim.regs and rng.random() < 0.85:
                kind, rid, _ = rng.choice(sim.regs)
                kind = min(kind, 4)
                fk = [0, 1, 2, 3, 4] if xhook else [0, 2, 3, 4]
                if kind == 1 and not xhook:
                    kind = rng.choice(fk)   # find_exclusive_publication is not public: only through the hook
                if rng.random() < 0.1:
                    kind = rng.choice(fk)
            else:
                kind, rid = rng.choice([0, 1, 2, 3, 4] if xhook else [0, 2, 3, 4]), rng.choice([0, cid, sim.next_id + 5])
            ops.append(['F', kind, rid, now])
            sim.now = max(sim.now, now)
    return {'kind': 'malformed' if malformed else 'run', 'cfg': [td, 5000, inter_ns, t0, cid], 'ops': ops, 'near': sim.near}


def scripted():
    """The property's headline scenarios, written out."""
    z3 = [0, 0, 0]
    none = [z3, z3, z3, z3]
    cases = []
    for td in (10000, 1000):
        for d in (-1, 0, 1):
            t0 = 10**6
            hb = t0
            # driver silent from t0 on: keep-alives every 501 ms until the threshold, then a cycle at threshold + d
            ops = []
            t = t0
            while t + 501 < hb + td:
                t += 501
                ops.append(['C', t, hb, none, None])
            ops.append(['C', hb + td + d, hb, none, None])
            ops.append(['A', 0, hb + td + d])
            ops.append(['C', hb + td + d + 501, hb, none, None])
            ops.append(['A', 2, hb + td + d + 501])
            cases.append({'kind': 'run', 'cfg': [td, 5000, 10**12, t0, 3], 'ops': ops, 'near': True})
    for d in (-1, 0, 1):
        # inter-service timeout 5000 ms hit exactly / missed by one
        ops = [['C', 1000, 1000, none, None], ['C', 1000 + 5000 + d, 1000 + 5000, none, None], ['A', 0, 6001], ['F', 0, 1, 6001]]
        cases.append({'kind': 'run', 'cfg': [10000, 5000, 5 * 10**9, 0, 0], 'ops': ops, 'near': True})
        # registration timeout
        ops = [['A', 0, 500], ['A', 2, 500], ['A', 3, 500], ['A', 4, 500],
               ['F', 0, 1, 500 + 10000 + d], ['F', 2, 2, 500 + 10000 + d], ['F', 3, 3, 500 + 10000 + d], ['F', 4, 4, 500 + 10000 + d]]
        cases.append({'kind': 'run', 'cfg': [10000, 5000, 10**12, 500, 0], 'ops': ops, 'near': True})
        if has_find_excl_hook():
            # the same boundary for an exclusive publication (hook find_exclusive_publication_for_verif), also after an error answer
            ops = [['A', 1, 500], ['A', 1, 700], ['F', 1, 1, 500 + 10000 + d], ['F', 1, 2, 500 + 10000 + d], ['F', 1, 2, 700 + 10000 + d],
                   ['C', 10700 + d, 10700, none, [1, 3]], ['F', 1, 1, 10700 + d], ['F', 1, 1, 10700 + d], ['F', 0, 2, 10700 + d]]
            cases.append({'kind': 'run', 'cfg': [10000, 5000, 10**12, 500, 0], 'ops': ops, 'near': True})
        # heartbeat counter found at the first keep-alive after it appears, refreshed at +501, not at +500
        hbt = [z3, [1, 11, 9], z3, z3]
        ops = [['C', 2000, 2000, none, None], ['C', 2501 + d, 2501, hbt, None], ['C', 3002 + d, 3002, hbt, None],
               ['C', 3502 + 2 * d, 3502, hbt, None], ['C', 4100, 4100, none, None], ['C', 4700, 4700, hbt, None]]
        cases.append({'kind': 'run', 'cfg': [10000, 5000, 10**12, 2000, 9], 'ops': ops, 'near': True})
    # --- destination requests (all four entry points) stamped at the call, not at the last duty cycle: cycle at 2000, requests at 6000,
    # no answer; lookups at last-cycle + T + d (must all be not-ready) and at request + T + d (time-out exactly when d = 1)
    for d in (-1, 0, 1):
        ops = [['C', 2000, 2000, none, None], ['A', 4, 6000], ['A', 5, 6000], ['A', 6, 6000], ['A', 7, 6000], ['A', 0, 6000], ['A', 2, 6000], ['A', 3, 6000]]
        ops += [['F', 4, i, 2000 + 10000 + 1 + d] for i in (1, 2, 3, 4)] + [['F', 0, 5, 12001 + d], ['F', 2, 6, 12001 + d], ['F', 3, 7, 12001 + d]]
        ops += [['F', 4, i, 6000 + 10000 + d] for i in (1, 2, 3, 4)] + [['F', 0, 5, 16000 + d], ['F', 2, 6, 16000 + d], ['F', 3, 7, 16000 + d]]
        cases.append({'kind': 'run', 'cfg': [10000, 5000, 10**12, 500, 0], 'ops': ops, 'near': True})
    # --- client ids beyond 32 bits: the heartbeat counter (type 11, key = client id as i64) is found at the first keep-alive after it
    # appears and refreshed at every keep-alive; a record whose key only agrees in the low 32 bits (or sign-extended) is another client's
    for cid in (2**31, 2**32 + 5, 2**40, 2**31 - 1, 0x1200000005):
        hbt = [z3, [1, 11, cid], z3, z3]
        low = [z3, [1, 11, cid % 2**32], [1, 11, cid - 2**32], z3]      # truncated / wrapped look-alikes only
        ops = [['C', 2000, 2000, none, None], ['C', 2501, 2501, hbt, None], ['C', 3002, 3002, hbt, None], ['C', 3502, 3502, hbt, None],
               ['C', 3503, 3503, hbt, None], ['A', 6, 3600], ['F', 4, cid + 1, 3600], ['C', 4100, 4100, none, None], ['C', 4700, 4700, hbt, None]]
        cases.append({'kind': 'run', 'cfg': [10000, 5000, 10**12, 2000, cid], 'ops': ops, 'near': True})
        if cid >= 2**32:
            ops = [['C', 2000, 2000, none, None], ['C', 2501, 2501, low, None], ['C', 3002, 3002, low, None], ['C', 3503, 3503, hbt, None], ['C', 4004, 4004, hbt, None]]
            cases.append({'kind': 'run', 'cfg': [10000, 5000, 10**12, 2000, cid], 'ops': ops, 'near': True})
    return cases


def generate(rng, tier):
    big = tier == 'thorough'
    cases = scripted()
    for _ in range(900 if not big else 12000):
        cases.append(gen_history(rng))
    for _ in range(100 if not big else 600):
        cases.append(gen_history(rng, malformed=True))
    # own random stream (the histories above stay what they were): 64-bit client ids, all four destination entry points
    import random
    rng2 = random.Random(rng.getrandbits(32) ^ 0xC11D)
    for _ in range(200 if not big else 3000):
        cases.append(gen_history(rng2, wide=True))
    return cases


# ---------------------------------------------------------------------------------------------
# encodings

def impl_line(c):
    parts = []
    for o in c['ops']:
        if o[0] == 'C':
            _, now, hb, table, ev = o
            flat = ' '.join('%d %d %d' % tuple(x) for x in table)
            e = '1 %d %d' % tuple(ev) if ev else '0 0 0'
            parts.append('C %d %d %s %s' % (now, hb, flat, e))
        elif o[0] == 'A':
            parts.append('A %d %d' % (o[1], o[2]))
        else:
            parts.append('F %d %d %d' % (o[1], o[2], o[3]))
    return 'run %d %d %d %d %d | %s' % (tuple(c['cfg']) + (' ; '.join(parts),))


def _cfg(c):
    td, linger, inter, t0, cid = c['cfg']
    return '(mkCfg %s %s %s %s)' % (z(td), z(linger), z(inter), z(cid))


def _ops(c):
    out = []
    for o in c['ops']:
        if o[0] == 'C':
            _, now, hb, table, ev = o
            tb = '[' + '; '.join('(%s, %s, %s)' % (z(a), z(b), z(k)) for a, b, k in table) + ']'
            e = '(Some (%s, %s))' % (z(ev[0]), z(ev[1])) if ev else 'None'
            out.append('Cycle %s %s %s %s' % (z(now), z(hb), tb, e))
        elif o[0] == 'A':
            out.append('Add %s %s' % (ADD_KINDS[o[1]], z(o[2])))
        else:
            out.append('Find %s %s %s' % (KINDS[o[1]], z(o[2]), z(o[3])))
    return '[' + '; '.join(out) + ']'


def model_expr(c, mode):
    return 'run %s %s (init %s %s) %s' % (mode_c(mode), _cfg(c), _cfg(c), z(c['cfg'][3]), _ops(c))


def oracle_expr(c, mode, obs):
    if isinstance(obs, int) or obs[0] != 'list':
        return 'false'      # Crash / Hang / unparsable: the history did not even complete
    return 'holds_run %s %s %s %s' % (_cfg(c), z(c['cfg'][3]), _ops(c), to_coq(obs))


def nontrivial(c):
    return bool(c.get('near'))


def shrink(c):
    out = []
    ops = c['ops']
    for k in (len(ops) // 2, len(ops) - 1):
        if 0 < k < len(ops):
            out.append(dict(c, ops=ops[:k]))
    for i in range(len(ops)):
        out.append(dict(c, ops=ops[:i] + ops[i + 1:]))
    for i, o in enumerate(ops):
        if o[0] == 'C' and (o[4] or any(x != [0, 0, 0] for x in o[3])):
            if o[4]:
                out.append(dict(c, ops=ops[:i] + [[o[0], o[1], o[2], o[3], None]] + ops[i + 1:]))
            out.append(dict(c, ops=ops[:i] + [[o[0], o[1], o[2], [[0, 0, 0]] * 4, o[4]]] + ops[i + 1:]))
    return out


# ---------------------------------------------------------------------------------------------
# K1: the private constants and the comparison operators of the source, re-read on every run

def extra_checks(run):
    src = open(os.path.join(core.REPO, 'src', 'client_conductor.rs')).read()
    body = src.split('#[cfg(test)]')[0]
    res = []
    consts = dict(re.findall(r'const (KEEPALIVE_TIMEOUT_MS|RESOURCE_TIMEOUT_MS): Moment = ([0-9_]+);', body))
    vals = core.coq_eval('C11_k1', IMPORTS, ['KEEPALIVE_TIMEOUT_MS', 'RESOURCE_TIMEOUT_MS'])
    want = {'KEEPALIVE_TIMEOUT_MS': vals[0], 'RESOURCE_TIMEOUT_MS': vals[1]}
    ok = all(k in consts and int(consts[k].replace('_', '')) == want[k] for k in want)
    res.append((ok, 'K1-consts', 'source %s vs model %s' % (consts, want)))
    norm = re.sub(r'\s+', ' ', body)
    needed = [
        'if now_ms > self.time_of_last_do_work_ms + self.inter_service_timeout_ms {',
        'if now_ms > self.time_of_last_keepalive_ms + KEEPALIVE_TIMEOUT_MS {',
        'self.driver_proxy.time_of_last_driver_keepalive() as Moment + self.driver_timeout_ms',
        'if now_ms > last_keepalive {',
        'if now_ms > self.time_of_last_check_managed_resources_ms + RESOURCE_TIMEOUT_MS {',
        'inter_service_timeout_ms: inter_service_timeout_ns / 1_000_000,',
        'if self.is_closed.swap(true, Ordering::AcqRel) { return; }',     # close_all_resources runs once (model: close_all / close_log)
    ]
    missing = [n for n in needed if n not in norm]
    n_find = norm.count('if (self.epoch_clock)() > state.time_of_registration_ms + self.driver_timeout_ms {')
    res.append((not missing and n_find == 5, 'K1-operators',
                'missing: %s; find_* timeout comparisons found: %d (expected 5)' % (missing, n_find)))
    res.append((True, 'hook find_exclusive_publication_for_verif',
                'present: find_exclusive_publication is driven like the other lookups' if has_find_excl_hook() else
                'ABSENT in the repository under test: lookups of exclusive publications are not generated (K1-operators covers the comparison)'))
    return res
