"""C16 - buffer accessors never touch memory outside the wrapped region."""
import os

from vlib import core
from vlib.term import to_coq, z

ID = 'C16'
PROP_FILE = 'Props/C16.v'
EVAL_FILES = ['Oracle/C16Oracle.v']
CRATES = ['c16']
MODES = ['debug', 'release']
IMPORTS = 'Require Import V.Base.MachineInt V.Model.Buffer V.Oracle.C16Oracle.'
RULE = ('every accessor of AtomicBuffer x element type {u8,u16,i32,i64,u64,24-byte packed struct} on a region that is the middle of a '
        'larger allocation (64-byte guard zones both sides, known pattern): exhaustive (offset, length) grid [-W, cap+W]^2 for small '
        'capacities (quick: cap in {0,1,4,8,16}, W=8; thorough: cap in {0,1,3,4,8,16,32,64}, W=24), the 7x7 grid of i32 extremes '
        '{MIN,MIN+1,-1,0,1,MAX-1,MAX} (one call per child-process line: a wrongly accepted call may segfault), random i32 values, '
        'planted length words for get_string (small, negative, extreme), accessors applied to views and views of views; debug and '
        'release builds. Calls are batched (<= 40 per line, each on a fresh fixture). A case is non-trivial when some call has a '
        'negative argument or reaches the end of the region or beyond')
ASSUMPTIONS = [
    'slices handed to put_bytes / put_string* / write are shorter than 2^31 bytes while the accessor converts their length with '
    '`as Index` (the truncation is modelled and the theorems carry the hypothesis slice_ok; a witness theorem shows it is needed); '
    'once the accessor uses a checked conversion (read off the source: gen_chk_*) the hypothesis disappears. Slices of 2^31..2^32+8 '
    'bytes are exercised in the thorough tier only (4 GiB of lazily mapped zero pages per call)',
    'atomic accessors (put_atomic_i64, compare_and_set_*, get_and_add_i64) and as_ref::<T> for aligned T are exercised at naturally '
    'aligned addresses only: a misaligned dereference aborts a debug build by design of rustc and is no subject of C16',
    'the wrapped region itself is valid: 0 <= capacity < 2^31 and really allocated (wrap_slice / from_aligned)',
    'copy_from is exercised with two distinct allocations (overlap is undefined behaviour of copy_nonoverlapping, another matter)',
    'debug builds of the harness carry the verification hook, whose address computation `ptr as usize + position as usize` panics on '
    'negative positions before the bounds check; the model includes that line (gen_hooked), so negative offsets are decided by '
    'the release build, negative lengths by both',
]
TRUSTED = [
    'tools/props/c16_translate.py: syntactic translation of the body of AtomicBuffer::bounds_check into Generated/GenBounds.v '
    '(operand types decide add32/add64; && and || short-circuit); the per-accessor sequence of checks and accesses in Model/Buffer.v is '
    'hand-written and tied to the code by (a) the source-shape table checked on every run and (b) the guard-zone harness',
    'that the raw pointer operations of AtomicBuffer touch exactly the range the model logs is validated by guard zones, not proved',
]
PER_CASE_TIMEOUT = 4.0

MAXI = 2**31 - 1
MINI = -2**31
NOPLANT = -1000000
BATCH = 40

SIZES = {1: 1, 2: 2, 4: 4, 8: 8, 80: 8, 24: 24}
ALIGN = {1: 1, 2: 2, 4: 4, 8: 8, 80: 8, 24: 1}
TYPED = {'get': 'CGet', 'getv': 'CGetVolatile', 'asref': 'CAsRef', 'getb': 'CGetBytes', 'ovl': 'COverlay',
         'put': 'CPut', 'puto': 'CPutOrdered'}
# kind -> (constructor, arity)
PLAIN = {'puta': ('CPutAtomic', 2), 'cas32': ('CCas 4', 3), 'cas64': ('CCas 8', 3), 'addo': ('CAddOrdered', 2),
         'gaa': ('CGetAndAdd', 2), 'setm': ('CSetMemory', 3), 'putb': ('CPutBytes', 2), 'write': ('CWrite', 1),
         'copy': ('CCopyFrom', 3), 'slice': ('CAsSlice', 0), 'mslice': ('CAsSlice', 0), 'sub': ('CSubSlice', 2),
         'gs': ('CGetString', 1), 'gswl': ('CGetStringWl', 2), 'gsl': ('CGetStringLength', 1),
         'ps': ('CPutString', 2), 'pswl': ('CPutStringWl', 2)}


def mode_c(mode):
    return 'Debug' if mode == 'debug' else 'Release'


def init_byte(r):
    return ((r + 64) * 37 + 11) % 251 + 1


def le_signed(bs):
    u = sum(b << (8 * i) for i, b in enumerate(bs))
    n = 8 * len(bs)
    return u - (1 << n) if u >= 1 << (n - 1) else u


# ---------------------------------------------------------------------------------------------- call <-> text

def call_coq(toks):
    """tokens of one call (as on the harness line) -> Gallina constructor term"""
    op = toks[0]
    if op == 'nop':
        return 'CNop'
    if op == 'view':
        return '(CView %s %s %s)' % (z(toks[1]), z(toks[2]), call_coq(toks[3:]))
    if op in TYPED:
        return '(%s %d %s)' % (TYPED[op], SIZES[toks[1]], z(toks[2]))
    if op == 'dfw':         # DataHeaderFlyweight::new(buf, off): Flyweight::<HeaderDefn>::new (8 bytes) then overlay_struct::<DataHeaderDefn>(0) (28 bytes)
        return '(FOverlay 28 %s 0)' % z(toks[1])
    if op == 'efw':         # ErrorResponseFlyweight::new(buf, off).error_code(): Flyweight::new over a 20-byte struct, field at 8
        return '(FField 20 %s 8 4)' % z(toks[1])
    if op in PLAIN:
        ctor, ar = PLAIN[op]
        assert len(toks) == 1 + ar, toks
        return '(%s)' % ' '.join([ctor] + [z(a) for a in toks[1:]]) if ar else ctor
    raise ValueError(toks)


def impl_line(c):
    parts = ['%d %d' % (c['rcap'], c['scap'])]
    for p, w, toks in c['calls']:
        parts.append('%d %d %s' % (p, w, ' '.join(str(t) for t in toks)))
    return ' ; '.join(parts)


def _batch(c):
    return '[%s]' % '; '.join('(%s, %s, %s)' % (z(p), z(w), call_coq(toks)) for p, w, toks in c['calls'])


def model_expr(c, mode):
    return 'observe_batch %s %s %s %s' % (mode_c(mode), z(c['rcap']), z(c['scap']), _batch(c))


def oracle_expr(c, mode, obs):
    if isinstance(obs, int) or obs[0] != 'list':
        return 'false'          # Crash / Hang of the whole line
    return 'holds_batch %s %s %s %s' % (z(c['rcap']), z(c['scap']), _batch(c), to_coq(obs))


def normalize(obs):
    """a one-call line whose call crashed the child process and a model answering Crash for that call are the same observation"""
    if not isinstance(obs, int) and obs[0] == 'list' and len(obs[1]) == 1:
        o = obs[1][0]
        if not isinstance(o, int) and o[0] == 'tuple' and o[1][0] == ('app', 'Crash', []):
            return ('app', 'Crash', [])
    return obs


# ---------------------------------------------------------------------------------------------- generation

def _mk(kind, rcap, scap, calls):
    return {'kind': kind, 'rcap': rcap, 'scap': scap, 'calls': calls}


def _batches(kind, rcap, scap, calls, size=BATCH):
    return [_mk(kind, rcap, scap, calls[i:i + size]) for i in range(0, len(calls), size)]


def _np(toks):
    return [NOPLANT, 0, toks]


def _aligned(base, pos, a):
    return (base + pos) % a == 0


def grid_calls(cap, W, rng, base=0, wrap=None, dense=True):
    """{kind: [call]} for a buffer of capacity `cap` whose start is at offset `base` of the root region;
    `wrap` prefixes every call with the view chain that produces that buffer."""
    wrap = wrap or []
    offs = list(range(-W, cap + W + 1))
    lens = list(range(-W, cap + W + 1))
    out = {}

    def add(kind, toks, p=NOPLANT, w=0):
        out.setdefault(kind, []).append([p, w, wrap + toks])

    for op in TYPED:
        for ty in SIZES:
            for pos in offs:
                if op == 'asref' and not _aligned(base, pos, ALIGN[ty]):
                    continue
                add(op, [op, ty, pos])
    for off in offs:
        if _aligned(base, off, 8):
            add('puta', ['puta', off, rng.choice([0, -1, 0x0102030405060708, MINI, rng.randrange(-2**63, 2**63)])])
            cur = le_signed([init_byte(base + off + k) for k in range(8)])
            add('cas64', ['cas64', off, cur, rng.randrange(-2**63, 2**63)])
            add('cas64', ['cas64', off, cur + 1, 7])
            add('gaa', ['gaa', off, rng.choice([0, 1, -1, 2**63 - 1, -2**63, rng.randrange(-2**63, 2**63)])])
        if _aligned(base, off, 4):
            cur = le_signed([init_byte(base + off + k) for k in range(4)])
            add('cas32', ['cas32', off, cur, rng.randrange(MINI, MAXI + 1)])
            add('cas32', ['cas32', off, cur ^ 1, 9])
        if _aligned(base, off, 4):
            add('efw', ['efw', off])
            add('dfw', ['dfw', off])
        add('addo', ['addo', off, rng.choice([0, 1, -1, 2**63 - 1, -2**63, rng.randrange(-2**40, 2**40)])])
        add('gsl', ['gsl', off])
    for off in offs:
        for ln in lens:
            add('setm', ['setm', off, ln, rng.randrange(0, 256)])
            add('view', ['view', off, ln, 'nop'])
            add('sub', ['sub', off, ln])
            add('gswl', ['gswl', off, ln])
            if ln >= 0:
                add('putb', ['putb', off, ln])
                add('ps', ['ps', off, ln])
                add('pswl', ['pswl', off, ln])
        # get_string: the length word is planted where the accessor will look for it
        for L in list(range(-6, cap + 7)) + [MINI, MINI + 4, -2**31 + 100, MAXI, MAXI - 4, 2**31 - 100]:
            add('gs', ['gs', off], p=base + off, w=L)
    for n in lens:
        if n >= 0:
            add('write', ['write', n])
    add('slice', ['slice'])
    add('slice', ['mslice'])
    add('view', ['nop'])
    return out


def copy_calls(cap, scap, W, rng, count):
    calls = []
    offs = list(range(-W, cap + W + 1))
    soffs = list(range(-W, scap + W + 1))
    lens = list(range(-W, max(cap, scap) + W + 1))
    # boundary-centred: exact fits first
    for off in offs:
        for soff in (0, 1, scap, -1):
            for ln in (cap - off, scap - soff, cap - off + 1, scap - soff + 1, 0, -1):
                calls.append(_np(['copy', off, soff, ln]))
    for _ in range(count):
        calls.append(_np(['copy', rng.choice(offs), rng.choice(soffs), rng.choice(lens)]))
    return calls


EXT = [MINI, MINI + 1, -1, 0, 1, MAXI - 1, MAXI]
EXT8 = [MINI, MINI + 8, -8, 0, 8, MAXI - 7]


def extreme_cases(rng, caps):
    """one call per line: on a tree with a wrong guard these may kill the child process"""
    cases = []
    for cap in caps:
        for a in EXT:
            for b in EXT:
                for toks in (['setm', a, b, 7], ['view', a, b, 'nop'], ['sub', a, b], ['gswl', a, b], ['copy', a, 0, b], ['copy', 0, a, b],
                             ['copy', a, a, b]):
                    cases.append(_mk(toks[0] + '-ext', cap, 8, [_np(toks)]))
                cases.append(_mk('gs-ext', cap, 8, [[0, b, ['gs', 0]]]))
                cases.append(_mk('gs-ext', cap, 8, [[cap - 4, b, ['gs', cap - 4]]]))
                cases.append(_mk('view-ext', cap, 8, [_np(['view', 0, cap, 'view', a, b, 'nop'])]))
            for n in (0, 1, 4, cap, cap + 1):
                for op in ('putb', 'ps', 'pswl'):
                    cases.append(_mk(op + '-ext', cap, 8, [_np([op, a, n])]))
            for op in TYPED:
                for ty in SIZES:
                    if op == 'asref' and ALIGN[ty] > 1:
                        continue
                    cases.append(_mk(op + '-ext', cap, 8, [_np([op, ty, a])]))
            cases.append(_mk('gsl-ext', cap, 8, [_np(['gsl', a])]))
            cases.append(_mk('addo-ext', cap, 8, [_np(['addo', a, 1])]))
        for a in EXT8:
            cases.append(_mk('puta-ext', cap, 8, [_np(['puta', a, 5])]))
            cases.append(_mk('cas64-ext', cap, 8, [_np(['cas64', a, 1, 2])]))
            cases.append(_mk('cas32-ext', cap, 8, [_np(['cas32', a, 1, 2])]))
            cases.append(_mk('gaa-ext', cap, 8, [_np(['gaa', a, 1])]))
            cases.append(_mk('efw-ext', cap, 8, [_np(['efw', a])]))
            cases.append(_mk('dfw-ext', cap, 8, [_np(['dfw', a])]))
            for ty in (2, 4, 8, 80):
                cases.append(_mk('asref-ext', cap, 8, [_np(['asref', ty, a])]))
    return cases


def random_cases(rng, n):
    cases = []
    for _ in range(n):
        cap = rng.choice([0, 1, 5, 8, 13, 16, 31, 64])

        def rv():
            k = rng.randrange(6)
            if k == 0:
                return rng.randrange(MINI, MAXI + 1)
            if k == 1:
                return rng.choice([MINI, MAXI]) + rng.randrange(-40, 41) * (1 if rng.random() < .5 else 0)
            if k == 2:
                return -rng.randrange(0, 2**rng.randrange(1, 31))
            return rng.randrange(-8, cap + 9)
        a, b = max(MINI, min(MAXI, rv())), max(MINI, min(MAXI, rv()))
        ty = rng.choice(list(SIZES))
        toks = rng.choice([['setm', a, b, 3], ['view', a, b, 'nop'], ['sub', a, b], ['gswl', a, b], ['copy', a, rng.randrange(-3, 12), b],
                           ['copy', rng.randrange(-3, cap + 3), a, b], ['get', ty, a], ['put', ty, a], ['getv', ty, a], ['puto', ty, a],
                           ['getb', ty, a], ['ovl', ty, a], ['putb', a, rng.randrange(0, 40)], ['ps', a, rng.randrange(0, 40)],
                           ['pswl', a, rng.randrange(0, 40)], ['gsl', a], ['addo', a, b], ['view', a, b, 'get', 4, rng.randrange(-8, 9)],
                           ['view', a, b, 'setm', rng.randrange(-8, 9), rng.randrange(-8, 9), 1]])
        cases.append(_mk('random', cap, 8, [_np(toks)]))
        L = b
        off = rng.randrange(-8, cap + 9)
        cases.append(_mk('random', cap, 8, [[off, L, ['gs', off]]]))
    return cases


def view_cases(rng, caps, W, per_view):
    """accessors applied to (valid and invalid) views, and to views of views"""
    cases = []
    for cap in caps:
        windows = []
        for off in range(-2, cap + 3):
            for ln in range(-2, cap + 3):
                windows.append((off, ln))
        rng.shuffle(windows)
        # valid windows first, boundary ones (touching the end) guaranteed
        chosen = [(o, l) for (o, l) in windows if o >= 0 and l >= 0 and o + l == cap][:6] + windows[:per_view]
        for (off, ln) in chosen:
            inner = grid_calls(max(ln, 0), 3, rng, base=off, wrap=['view', off, ln])
            calls = []
            for k in sorted(inner):
                xs = inner[k]
                rng.shuffle(xs)
                calls += xs[:6]
            # view of a view
            for _ in range(6):
                o2, l2 = rng.randrange(-2, max(ln, 0) + 3), rng.randrange(-2, max(ln, 0) + 3)
                calls.append(_np(['view', off, ln, 'view', o2, l2, 'nop']))
                calls.append(_np(['view', off, ln, 'view', o2, l2, 'get', 1, rng.randrange(-2, max(l2, 0) + 2)]))
                calls.append(_np(['view', off, ln, 'view', o2, l2, 'setm', rng.randrange(-2, max(l2, 0) + 2), rng.randrange(-2, 4), 9]))
            cases += _batches('views', cap, 8, calls)
    return cases


def generate(rng, tier):
    big = tier == 'thorough'
    caps = [0, 1, 3, 4, 8, 16, 32, 64] if big else [0, 1, 4, 8, 16]
    W = 24 if big else 8
    cases = []
    # boundary values first: the extreme-value grid, one call per line
    cases += extreme_cases(rng, [16, 0] if not big else [16, 0, 64])
    for cap in caps:
        g = grid_calls(cap, W, rng)
        for kind in sorted(g):
            cases += _batches(kind, cap, 8, g[kind])
        for scap in ([8] if not big else [0, 8, 24]):
            cases += _batches('copy', cap, scap, copy_calls(cap, scap, min(W, 6) if not big else 10, rng, 300 if not big else 3000))
    # larger slices than the whole allocation
    for cap in (16, 64):
        calls = [_np([op, off, n]) for op in ('putb', 'ps', 'pswl') for off in (0, 1, cap - 1, cap, -1) for n in (100, 255, 256, 1000, 65536)]
        calls += [_np(['write', n]) for n in (100, 1000, 65536)]
        cases += _batches('long-slices', cap, 8, calls, size=5)
    if big:
        # slices longer than Index::MAX (4 GiB of lazily mapped zero pages each): one call per line
        for toks in (['putb', 0, 2**32 + 4], ['putb', 0, 2**32], ['putb', 4, 2**31], ['ps', 0, 2**32 + 4], ['pswl', 0, 2**32 + 4],
                     ['write', 2**32 + 8], ['ps', 0, 2**32 - 4]):
            cases.append(_mk('huge-slice', 16, 8, [_np(toks)]))
    cases += view_cases(rng, [8, 16] if not big else [4, 8, 16, 32], W, 14 if not big else 120)
    cases += random_cases(rng, 400 if not big else 6000)
    # the Coq side evaluates consecutive slices of this list in parallel: interleave one-call lines and batches
    rng.shuffle(cases)
    return cases


# ---------------------------------------------------------------------------------------------- bookkeeping

def _ints(toks):
    return [t for t in toks if isinstance(t, int)]


def nontrivial(c):
    for p, w, toks in c['calls']:
        xs = _ints(toks)
        if any(x < 0 for x in xs) or any(x >= c['rcap'] - 24 for x in xs) or toks[0] == 'view':
            return True
    return False


def shrink(c):
    out = []
    calls = c['calls']
    if len(calls) > 1:
        for k in calls:
            out.append(_mk(c['kind'], c['rcap'], c['scap'], [k]))
        return out
    p, w, toks = calls[0]
    # drop a view wrapper
    if toks[0] == 'view' and len(toks) > 4:
        out.append(_mk(c['kind'], c['rcap'], c['scap'], [[p, w, toks[3:]]]))
    for i, t in enumerate(toks):
        if isinstance(t, int) and i > 0 and not (toks[0] in TYPED and i == 1):
            for v in (0, t // 2, t + 1 if t < 0 else t - 1, -1, -4):
                if v != t and abs(v) <= abs(t):
                    nt = list(toks)
                    nt[i] = v
                    out.append(_mk(c['kind'], c['rcap'], c['scap'], [[p, w, nt]]))
    for rc in (0, 4, 8, 16):
        if rc < c['rcap']:
            out.append(_mk(c['kind'], rc, c['scap'], [[p, w, toks]]))
    if w != 0:
        for v in (0, -1, w // 2):
            out.append(_mk(c['kind'], c['rcap'], c['scap'], [[p, v, toks]]))
    return out


def known_class(c, mode, obs):
    """the `as Index` truncation of slice lengths above Index::MAX (repaired by fixes/C16-slice-length-truncation.diff)"""
    if c.get('kind') == 'huge-slice':
        return 'slice-length-truncation'
    return None


def neighbours(c, rng):
    out = []
    for p, w, toks in c['calls'][:4]:
        out.append(_mk(c['kind'], c['rcap'], c['scap'], [[p, w, toks]]))
    return out


# ---------------------------------------------------------------------------------------------- K1: source shape

EXPECTED_CHECKS = {
    'view': ['self:offset,len'],
    'get': ['self:position,SZ'],
    'overlay_struct': ['self:position,SZ'],
    'as_ref': ['self:position,SZ'],
    'set_memory': ['self:position,len'],
    'get_volatile': ['self:position,SZ'],
    'put_ordered': ['self:position,SZ'],
    'put': ['self:position,SZ'],
    'put_atomic_i64': ['self:offset,I64_SIZE'],
    'compare_and_set_i32': ['self:position,I32_SIZE'],
    'compare_and_set_i64': ['self:position,I64_SIZE'],
    'add_i64_ordered': ['self:offset,I64_SIZE'],
    'put_bytes': [['self:offset,src.len()asIndex'], ['self:offset,Self::slice_len(src.len())']],
    'get_bytes': ['self:offset,lengthasIndex'],
    'copy_from': ['self:offset,length', 'src_buffer:src_offset,length'],
    'as_mutable_slice': [],
    'as_slice': [],
    'as_sub_slice': ['self:index,len'],
    'get_string': ['self:offset,4'],
    'get_string_without_length': ['self:offset,length'],
    'get_string_length': ['self:offset,4'],
    'put_string': [['self:offset,string.len()asIndex+I32_SIZE'], ['self:offset,length+I32_SIZE']],
    'put_string_without_length': [['self:offset,string.len()asIndex'], ['self:offset,length']],
    'get_and_add_i64': ['self:offset,I64_SIZE'],
}

# normalized bodies of the Flyweight methods the model transcribes (f_* in Model/Buffer.v)
EXPECTED_FLY = {
    'new': 'Self{m_struct:buffer.overlay_struct::<T>(base_offset),buffer,base_offset,}',
    'string_get': 'self.buffer.get_string(offset)',
    'string_get_length': 'self.buffer.get_string_length(offset)',
    'string_put': 'self.buffer.put_string(offset,value);',
    'put_bytes': 'self.buffer.put_bytes(self.base_offset+offset,src)',
    'get_bytes': 'self.buffer.get_bytes(self.base_offset+offset,dest);',
    'put': 'self.buffer.put::<U>(self.base_offset+offset,value);',
    'overlay_struct': 'self.buffer.overlay_struct::<U>(self.base_offset+offset)',
}


def extra_checks(run):
    from props import c16_translate as tr
    res = []
    try:
        text = open(os.path.join(core.REPO, tr.SRC)).read()
        got = tr.accessor_checks(text)
        def same(a):
            want = EXPECTED_CHECKS[a]
            alts = want if want and isinstance(want[0], list) else [want]     # two accepted spellings of a slice length
            return got[a][0] in alts
        bad = ['%s: %s (model: %s)' % (a, got[a][0], EXPECTED_CHECKS[a]) for a in tr.ACCESSORS if not same(a)]
        res.append((not bad, 'K1 source shape: bounds_check calls of every accessor are the ones the model transcribes', '; '.join(bad)))
    except Exception as e:
        res.append((False, 'K1 source shape: accessors', '%s: %s' % (type(e).__name__, e)))
    try:
        text = tr.strip_comments(open(os.path.join(core.REPO, tr.FLY)).read())
        bad = []
        for name, want in EXPECTED_FLY.items():
            _, body = tr.find_fn(text, name)
            if ''.join(body.split()) != want:
                bad.append('%s: %s' % (name, ''.join(body.split())))
        res.append((not bad, 'K1 source shape: Flyweight methods delegate as the model transcribes', '; '.join(bad)))
    except Exception as e:
        res.append((False, 'K1 source shape: Flyweight', '%s: %s' % (type(e).__name__, e)))
    return res
