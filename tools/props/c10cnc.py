"""C10, the code around the conductor: cases for harness/c10cnc and the models Connect.v / CncLayout.v / Agent.v.

Case kinds (case['k']):
  conn    scripted connect (needs the clock hook hooks/cnc-clock.diff in the repository copy; skipped without it)
  rt      connect in real time against a fabricated CnC file
  new     Aeron::new + drop against a complete fabricated file
  lay     cnc_file_descriptor regions and getters
  inv     AgentInvoker with a scripted agent
  runner  AgentRunner::run with a scripted agent that sends the stop signals itself
  thr     AgentRunner::start / AgentStopper::stop on a real thread
"""
import os

from vlib import core
from vlib.term import z, to_coq

CRATE = 'c10cnc'
TD = 1024 + 768          # a valid to-driver length
FULL = 4096              # file length used for complete files in connect cases
NOW = 1760000000000      # a realistic unix time in ms


def hook_present():
    try:
        return 'pub fn clock_override' in open(os.path.join(core.REPO, 'src', 'verif_hook.rs')).read()
    except OSError:
        return False


# ---------------------------------------------------------------------------------------------------------
# generators

def _conn(kind, T, c0, sc):
    return {'crate': CRATE, 'k': 'conn', 'kind': 'conn-' + kind, 'T': T, 'c0': c0, 'sc': sc}


def _alive(c, hb=None):
    return [FULL, 16, TD, c if hb is None else hb]


def scripted_conn():
    out = []
    for base in (1000000, NOW):
        T = 100
        c = base
        ok = [FULL, 16, TD]
        stale = base - 5000
        out.append(_conn('alive', T, c, [_alive(c) + [c + 1], _alive(c) + [c + 200]]))
        out.append(_conn('dead-stale', T, c, [ok + [stale, c + 40 * i] for i in range(1, 6)]))
        out.append(_conn('dead-stale-long', 300, c, [ok + [stale, c + 50 * i] for i in range(1, 9)]))
        out.append(_conn('missing', T, c, [[-1, 0, 0, 0, c + 1], [-1, 0, 0, 0, c + 200]]))
        out.append(_conn('empty-forever', T, c, [[0, 0, TD, 0, c + 30 * i] for i in range(1, 6)]))
        out.append(_conn('empty-then-alive', T, c, [[0, 0, TD, 0, c + 10], [0, 0, TD, 0, c + 20], _alive(c) + [c + 30], _alive(c) + [c + 300]]))
        out.append(_conn('empty-then-missing', T, c, [[0, 0, TD, 0, c + 10], [-1, 0, TD, 0, c + 20], [-1, 0, TD, 0, c + 300]]))
        out.append(_conn('version0-forever', T, c, [[FULL, 0, TD, c, c + 30 * i] for i in range(1, 6)]))
        out.append(_conn('version0-then-ok', T, c, [[FULL, 0, TD, c, c + 5], [FULL, 0, TD, c, c + 10], _alive(c) + [c + 15], _alive(c) + [c + 300]]))
        out.append(_conn('version0-then-wrong', T, c, [[FULL, 0, TD, c, c + 5], [FULL, 65536 * 3 + 16, TD, c, c + 10], [FULL, 65536 * 3, TD, c, c + 300]]))
        out.append(_conn('wrong-major', T, c, [[FULL, 65536, TD, c, c + 1], [FULL, 65536, TD, c, c + 200]]))
        out.append(_conn('minor-differs', T, c, [[FULL, 256 * 7 + 1, TD, c, c + 1], [FULL, 256 * 7 + 1, TD, c, c + 200]]))
        out.append(_conn('negative-version', T, c, [[FULL, -16, TD, c, c + 1], [FULL, -16, TD, c, c + 200]]))
        out.append(_conn('hb0-forever', T, c, [ok + [0, c + 30 * i] for i in range(1, 6)]))
        out.append(_conn('hb0-then-fresh', T, c, [ok + [0, c + 5], ok + [0, c + 10], ok + [c, c + 15], ok + [c, c + 20], ok + [c, c + 300]]))
        out.append(_conn('hb0-then-stale', T, c, [ok + [0, c + 5], ok + [stale, c + 10], ok + [stale, c + 60], ok + [stale, c + 70], ok + [stale, c + 300]]))
        out.append(_conn('stale-then-fresh', T, c, [ok + [stale, c + 10], ok + [stale, c + 20], ok + [c + 20, c + 30], ok + [c + 20, c + 40], ok + [c + 20, c + 300]]))
        out.append(_conn('fresh-turns-stale-between-reads', T, c, [ok + [c, c + 10], ok + [stale, c + 20], ok + [stale, c + 300], ok + [stale, c + 301]]))
        out.append(_conn('stale-exactly-at-limit', T, c, [ok + [c + 50 - T, c + 50], ok + [c + 50 - T, c + 300]]))
        out.append(_conn('stale-one-below-limit', T, c, [ok + [c + 49 - T, c + 50], ok + [c + 49 - T, c + 300], ok + [c + 49 - T, c + 301]]))
        out.append(_conn('timeout-exactly-at-deadline', T, c, [ok + [0, c + T], ok + [0, c + T], ok + [0, c + T + 1]]))
        out.append(_conn('negative-heartbeat', T, c, [ok + [-5, c + 1], ok + [-5, c + 200]]))
        out.append(_conn('driver-restarts', T, c, [ok + [stale, c + 10], ok + [stale, c + 20], [0, 0, TD, 0, c + 30], [0, 0, TD, 0, c + 40],
                                                   [FULL, 0, TD, 0, c + 50], ok + [0, c + 60], ok + [c + 60, c + 70], ok + [c + 60, c + 80], ok + [c + 60, c + 400]]))
        out.append(_conn('clock-jumps', T, c, [ok + [stale, c + 1000000]]))
        # malformed files / absurd arithmetic: outside the statement, compared with the model only
        out.append(_conn('bad-ring-length', T, c, [[FULL, 16, 1000, c, c + 1], [FULL, 16, 1000, c, c + 200]]))
        out.append(_conn('ring-length-0', T, c, [[FULL, 16, 0, c, c + 1], [FULL, 16, 0, c, c + 200]]))
        out.append(_conn('ring-length-min', T, c, [[FULL, 16, -2147483648, c, c + 1], [FULL, 16, -2147483648, c, c + 200]]))
        out.append(_conn('file-3-bytes', T, c, [[3, 16, TD, c, c + 1], [3, 16, TD, c, c + 200]]))
        out.append(_conn('file-40-bytes', T, c, [[40, 16, TD, c, c + 1], [40, 16, TD, c, c + 200]]))
        out.append(_conn('clock-backwards', T, c, [ok + [stale, c + 50], ok + [stale, c + 10], ok + [stale, c + 60], ok + [stale, c + 300], ok + [stale, c + 300]]))
    out.append(_conn('tiny-clock-underflow', 100, 50, [[FULL, 16, TD, 5, 60], [FULL, 16, TD, 5, 400]]))
    out.append(_conn('tiny-clock-hb0', 100, 50, [[FULL, 16, TD, 0, 60], [FULL, 16, TD, 0, 400]]))
    out.append(_conn('timeout-overflow', 2 ** 64 - 1, 50, [[FULL, 16, TD, 0, 60], [FULL, 16, TD, 0, 400]]))
    out.append(_conn('timeout-above-clock-live-driver', NOW + 5, NOW, [_alive(NOW) + [NOW + 1], _alive(NOW) + [NOW + 2]]))
    return out


def random_conn(rng):
    T = rng.choice([50, 100, 200])
    c = rng.choice([1000000, NOW, 10 ** 9])
    n = rng.randint(1, 9)
    stale = c - 5000
    state = rng.choice(['empty', 'v0', 'hb0', 'stale', 'alive', 'empty', 'stale'])
    sc = []
    t = c
    for i in range(n):
        t += rng.choice([0, 1, 5, 20, 40, 60, T // 2])
        if rng.random() < 0.35:
            state = rng.choice(['empty', 'v0', 'hb0', 'stale', 'alive', 'missing' if rng.random() < 0.2 else 'alive', 'wrong' if rng.random() < 0.2 else 'stale'])
        snap = {'empty': [0, 0, TD, 0], 'missing': [-1, 0, TD, 0], 'v0': [FULL, 0, TD, rng.choice([0, stale, t])],
                'hb0': [FULL, 16, TD, 0], 'stale': [FULL, 16, TD, rng.choice([stale, t - T - 1, 1])],
                'alive': [FULL, rng.choice([16, 1, 255, 65535]), TD, rng.choice([t, t - T, t + 5])], 'wrong': [FULL, 65536 * rng.randint(1, 255), TD, t]}[state]
        sc.append(snap + [t])
    sc.append(list(sc[-1][:4]) + [max(t, c + T) + rng.choice([1, 2, 1000])])
    if rng.random() < 0.5:
        sc.append(list(sc[-1]))
    return _conn('random', T, c, sc)


def _rt(kind, T, s0, s1=None):
    return {'crate': CRATE, 'k': 'rt', 'kind': 'rt-' + kind, 'T': T, 's0': s0, 's1': s1}


def rt_cases(tier):
    out = []
    T = 120
    out.append(_rt('missing', T, [-1, 0, 0, 'z']))
    out.append(_rt('empty', T, [0, 0, 0, 'z']))
    out.append(_rt('version0', T, [FULL, 0, TD, 'f']))
    out.append(_rt('wrong-major', T, [FULL, 65536, TD, 'f']))
    out.append(_rt('hb0', T, [FULL, 16, TD, 'z']))
    out.append(_rt('stale', T, [FULL, 16, TD, 's']))
    out.append(_rt('stale-short-timeout', 50, [FULL, 16, TD, 's']))
    out.append(_rt('stale-long-timeout', 300, [FULL, 16, TD, 's']))
    out.append(_rt('fresh', T, [FULL, 16, TD, 'f']))
    out.append(_rt('empty-then-fresh', 600, [0, 0, 0, 'z'], [60, [FULL, 16, TD, 'f']]))
    out.append(_rt('version0-then-fresh', 600, [FULL, 0, TD, 'z'], [60, [FULL, 16, TD, 'f']]))
    out.append(_rt('hb0-then-fresh', 600, [FULL, 16, TD, 'z'], [60, [FULL, 16, TD, 'f']]))
    out.append(_rt('stale-then-fresh', 600, [FULL, 16, TD, 's'], [60, [FULL, 16, TD, 'f']]))
    out.append(_rt('empty-then-stale', 300, [0, 0, 0, 'z'], [60, [FULL, 16, TD, 's']]))
    out.append(_rt('hb0-then-stale', 300, [FULL, 16, TD, 'z'], [60, [FULL, 16, TD, 's']]))
    out.append(_rt('version0-then-wrong', 600, [FULL, 0, TD, 'z'], [60, [FULL, 65536 * 2, TD, 'f']]))
    out.append(_rt('empty-then-version0', 300, [0, 0, 0, 'z'], [60, [FULL, 0, TD, 'f']]))
    if tier == 'thorough':
        for T in (80, 500, 1500):
            for h in 'zsf':
                for v in (0, 16, 65536):
                    out.append(_rt('grid', T, [FULL, v, TD, h]))
                    out.append(_rt('grid-late', T, [0, 0, 0, 'z'], [T // 3, [FULL, v, TD, h]]))
                    out.append(_rt('grid-late', T, [FULL, 0, TD, 'z'], [T // 3, [FULL, v, TD, h]]))
                    # once the file is mapped and its version accepted only the heartbeat changes (a version word that changes
                    # under a mapping races with the freshness test: not a scenario of the real-time tier)
                    out.append(_rt('grid-late', T, [FULL, 16, TD, 's'], [T // 3, [FULL, 16, TD, h]]))
    return out


def new_cases(tier):
    out = []
    for mode in ('inv', 'run'):
        for h in ('f', 's', 'z'):
            out.append({'crate': CRATE, 'k': 'new', 'kind': 'new-' + mode, 'T': 100, 'mode': mode, 'h': h})
    return out


def _lay(kind, flen, words):
    return {'crate': CRATE, 'k': 'lay', 'kind': 'lay-' + kind, 'flen': flen, 'm': words}


def lay_cases(rng, tier):
    out = []
    good = [16, TD, 1024 + 128, 4096, 1024, 1024, 5000000000, NOW, 4242]
    out.append(_lay('typical', 128 + TD + 1152 + 4096 + 2048, good))
    out.append(_lay('zero-lengths', 256, [16, 0, 0, 0, 0, 0, 0, 0, 0]))
    out.append(_lay('only-meta-fields', 48, [16, 0, 0, 0, 0, 0, -1, -2, -3]))
    out.append(_lay('file-47', 47, good))
    out.append(_lay('file-3', 3, good))
    out.append(_lay('file-4', 4, good))
    out.append(_lay('sum-at-limit', 4096, [16, 2 ** 31 - 1 - 128 - 4, 1, 1, 1, 1, 1, 2, 3]))
    out.append(_lay('sum-over-limit', 4096, [16, 2 ** 31 - 1 - 128 - 4, 1, 1, 1, 2, 1, 2, 3]))
    out.append(_lay('first-overflows', 4096, [16, 2 ** 31 - 128, 1, 1, 1, 2, 1, 2, 3]))
    out.append(_lay('negative-length', 4096, [16, -5, 1152, 4096, 1024, 1024, 1, 2, 3]))
    out.append(_lay('negative-middle', 4096, [16, TD, -2048, 4096, 1024, 1024, 1, 2, 3]))
    out.append(_lay('min-length', 4096, [16, -2 ** 31, 0, 0, 0, 0, 1, 2, 3]))
    out.append(_lay('extreme-getters', 4096, [-2 ** 31, 1, 2, 3, 4, 5, -2 ** 63, 2 ** 63 - 1, -1]))
    n = 25 if tier != 'thorough' else 2000
    for _ in range(n):
        r = rng.random()
        if r < 0.6:
            lens = [rng.choice([0, 1, 64, 1024, 1 << rng.randint(0, 24), rng.randint(0, 1 << 20)]) for _ in range(5)]
        elif r < 0.8:
            lens = [rng.choice([2 ** 31 - 1, 2 ** 30, 2 ** 29, rng.randint(0, 2 ** 31 - 1), 0]) for _ in range(5)]
        else:
            lens = [rng.choice([-1, -1024, -2 ** 31, rng.randint(-2 ** 31, 2 ** 31 - 1), 64]) for _ in range(5)]
        flen = rng.choice([48, 128, 256, 4096, 47, 1 << 16])
        out.append(_lay('random', flen, [rng.choice([16, 0, -1, rng.randint(-2 ** 31, 2 ** 31 - 1)])] + lens +
                        [rng.randint(-2 ** 63, 2 ** 63 - 1) for _ in range(3)]))
    return out


def _inv(kind, s, c, work, ops):
    return {'crate': CRATE, 'k': 'inv', 'kind': 'inv-' + kind, 's': s, 'c': c, 'w': work, 'ops': ops}


def inv_cases(rng, tier):
    out = []
    out.append(_inv('lifecycle', 0, 0, [3, 'e', 0, 7], list('qisqiiiiicqisiq')))
    out.append(_inv('start-fails', 1, 1, [3], list('sqicq')))
    out.append(_inv('start-fails-close-ok', 1, 0, [3], list('sqisicq')))
    out.append(_inv('close-fails', 0, 1, [1, 2], list('siciq')))
    out.append(_inv('close-twice', 0, 0, [1, 2], list('sicciq')))
    out.append(_inv('start-twice', 0, 0, [1, 2], list('ssiq')))
    out.append(_inv('never-started', 0, 0, [1, 2], list('iqicqi')))
    out.append(_inv('start-after-close', 0, 0, [3, 4], list('csiqi')))
    out.append(_inv('all-errors', 0, 0, ['e'] * 5, list('siiiiiqc')))
    out.append(_inv('negative-work-count', 0, 0, [-1, -2 ** 31, 2 ** 31 - 1], list('siiiic')))
    n = 40 if tier != 'thorough' else 3000
    for _ in range(n):
        ops = []
        disciplined = rng.random() < 0.6
        if disciplined:
            ops = ['i'] * rng.randint(0, 2) + ['s'] + [rng.choice('iiiq') for _ in range(rng.randint(0, 8))] + ['c'] + \
                  [rng.choice('iqc') for _ in range(rng.randint(0, 4))]
        else:
            ops = [rng.choice('siiicq') for _ in range(rng.randint(1, 14))]
        work = [rng.choice([0, 1, 5, 'e', 'e', -3]) for _ in range(rng.randint(0, 8))]
        out.append(_inv('random', int(rng.random() < 0.2), int(rng.random() < 0.2), work, ops))
    return out


def _runner(kind, s, c, pre, work):
    return {'crate': CRATE, 'k': 'runner', 'kind': 'runner-' + kind, 's': s, 'c': c, 'pre': pre, 'w': work}


def runner_cases(rng, tier):
    out = []
    out.append(_runner('stop-after-4', 0, 0, '', [[1, ''], [0, ''], ['e', ''], [2, 't'], [5, '']]))
    out.append(_runner('stop-before-start', 0, 0, 't', [[1, '']]))
    out.append(_runner('false-is-ignored', 0, 0, 'ff', [[1, ''], [0, 'f'], ['e', ''], [0, '']]))
    out.append(_runner('start-and-close-fail', 1, 1, '', [['e', ''], ['e', 't']]))
    out.append(_runner('errors-do-not-stop', 0, 0, '', [['e', '']] * 6 + [[0, 't']]))
    out.append(_runner('script-over', 0, 0, '', []))
    out.append(_runner('two-stops', 0, 0, '', [[0, 'tt'], [1, '']]))
    out.append(_runner('false-then-true', 0, 0, 'f', [[0, 'ft'], [1, ''], [2, ''], [3, '']]))
    n = 30 if tier != 'thorough' else 3000
    for _ in range(n):
        work = []
        for _ in range(rng.randint(0, 10)):
            sig = ''.join(rng.choice('tf') for _ in range(rng.choice([0, 0, 0, 1, 1, 2])))
            work.append([rng.choice([0, 0, 1, 3, 'e', 'e']), sig])
        pre = ''.join(rng.choice('ftf') for _ in range(rng.choice([0, 0, 1, 2, 3])))
        out.append(_runner('random', int(rng.random() < 0.2), int(rng.random() < 0.2), pre, work))
    return out


def thr_cases(tier):
    out = []
    for st in ('sleep1', 'yield', 'spin', 'noop'):
        for w in ('0', '1', 'e', 'm'):
            out.append({'crate': CRATE, 'k': 'thr', 'kind': 'thr-' + st, 'st': st, 'w': w, 'ms': 25})
    for w in ('0', '1', 'e'):
        out.append({'crate': CRATE, 'k': 'thr', 'kind': 'thr-sleep20', 'st': 'sleep20', 'w': w, 'ms': 30})
    out.append({'crate': CRATE, 'k': 'thr', 'kind': 'thr-sleep20', 'st': 'sleep20', 'w': 'm', 'ms': 150})
    return out


def generate(rng, tier):
    cases = []
    if hook_present():
        cases += scripted_conn()
        for _ in range(30 if tier != 'thorough' else 1500):
            cases.append(random_conn(rng))
    cases += rt_cases(tier) + new_cases(tier) + lay_cases(rng, tier) + inv_cases(rng, tier) + runner_cases(rng, tier) + thr_cases(tier)
    return cases


# ---------------------------------------------------------------------------------------------------------
# harness lines

def _snapw(s):
    return ' '.join(str(x) for x in s)


def impl_line(case):
    k = case['k']
    if k == 'conn':
        return 'conn %d | %d | %s' % (case['T'], case['c0'], ' | '.join(_snapw(e) for e in case['sc']))
    if k == 'rt':
        line = 'rt %d %s' % (case['T'], _snapw(case['s0']))
        if case.get('s1'):
            line += ' after %d %s' % (case['s1'][0], _snapw(case['s1'][1]))
        return line
    if k == 'new':
        return 'new %d %s %s' % (case['T'], case['mode'], case['h'])
    if k == 'lay':
        return 'lay %d %s' % (case['flen'], _snapw(case['m']))
    if k == 'inv':
        return 'inv %d %d %s | %s' % (case['s'], case['c'], ','.join(str(x) for x in case['w']) or ',', ' '.join(case['ops']))
    if k == 'runner':
        return 'runner %d %d %s | %s' % (case['s'], case['c'], case['pre'] or '-',
                                         ', '.join('%s:%s' % (r, sig) if sig else str(r) for r, sig in case['w']))
    if k == 'thr':
        return 'thr %s %s %d' % (case['st'], case['w'], case['ms'])
    raise ValueError(k)


# ---------------------------------------------------------------------------------------------------------
# Gallina

def _snap(s):
    f = 'FMissing' if s[0] < 0 else '(FSize %s)' % z(s[0])
    return '(mkSnap %s %s %s %s)' % (f, z(s[1]), z(s[2]), z(s[3]))


def _script(case):
    return '[%s]' % '; '.join('(%s, %s)' % (_snap(e), z(e[4])) for e in case['sc'])


HM = {'z': 0, 's': 1, 'f': 2}


def _rsnap(s):
    return '(mkR %s %s %s %d)' % (z(s[0]), z(s[1]), z(s[2]), HM[s[3]])


def _rs1(case):
    return '(Some (%s, %s))' % (z(case['s1'][0]), _rsnap(case['s1'][1])) if case.get('s1') else 'None'


def _meta(case):
    return '(mkMeta %s)' % ' '.join(z(x) for x in case['m'])


def _work(w):
    return '[%s]' % '; '.join('WErr' if x == 'e' else '(WOk %s)' % z(x) for x in w)


def _witems(w):
    return '[%s]' % '; '.join('(%s, [%s])' % ('WErr' if r == 'e' else 'WOk %s' % z(r), '; '.join('true' if ch == 't' else 'false' for ch in sig))
                              for r, sig in w)


def _bools(s):
    return '[%s]' % '; '.join('true' if ch == 't' else 'false' for ch in s)


OPS = {'s': 'IStart', 'i': 'IInvoke', 'c': 'IClose', 'q': 'IQuery'}
STRAT = {'sleep1': 'SSleep', 'sleep20': 'SSleep', 'yield': 'SYield', 'spin': 'SSpin', 'noop': 'SNoOp'}
WPAT = {'0': 'PZero', '1': 'POne', 'e': 'PErr', 'm': 'PMix'}


def _cfg(case):
    return '(mkCfg %s %s)' % ('true' if case['s'] else 'false', 'true' if case['c'] else 'false')


def _ops(case):
    return '[%s]' % '; '.join(OPS[o] for o in case['ops'])


def model_expr(case, mode):
    k = case['k']
    if k == 'conn':
        if not hook_present():
            return None
        return 'connect_script Debug %s %s %s' % (z(case['T']), z(case['c0']), _script(case))
    if k == 'rt':
        return 'rt_obs %s %s %s' % (z(case['T']), _rsnap(case['s0']), _rs1(case))
    if k == 'new':
        return '(%s, 1, %s)' % (('KOk', 'DropOk') if case['h'] == 'f' else ('KErr ENoHeartbeat', 'NoDrop'))
    if k == 'lay':
        return 'layout Debug %s %s' % (z(case['flen']), _meta(case))
    if k == 'inv':
        return 'inv_obs %s %s %s' % (_cfg(case), _work(case['w']), _ops(case))
    if k == 'runner':
        return 'runner_obs %s %s %s' % (_cfg(case), _bools(case['pre']), _witems(case['w']))
    if k == 'thr':
        return 'thr_obs %s %s' % (STRAT[case['st']], WPAT[case['w']])
    raise ValueError(k)


def oracle_expr(case, mode, obs):
    k = case['k']
    o = to_coq(obs)
    if k == 'conn':
        if not hook_present():
            return None
        return 'holds_conn %s %s %s %s' % (z(case['T']), z(case['c0']), _script(case), o)
    if k == 'rt':
        return 'holds_rt %s %s %s' % (_rsnap(case['s0']), _rs1(case), o)
    if k == 'new':
        return 'holds_new %d %s' % (HM[case['h']], o)
    if k == 'lay':
        return 'holds_lay %s %s %s' % (z(case['flen']), _meta(case), o)
    if k == 'inv':
        return 'holds_inv %s %s && holds_inv_close %s %s' % (_ops(case), o, _ops(case), o)
    if k == 'runner':
        return 'holds_runner %s %s %s %s' % (_cfg(case), _bools(case['pre']), _witems(case['w']), o)
    if k == 'thr':
        return 'holds_thr %s %s %s' % (STRAT[case['st']], WPAT[case['w']], o)
    raise ValueError(k)


def nontrivial(case):
    k = case['k']
    if k == 'conn':
        return len(case['sc']) >= 2
    if k == 'inv':
        return 's' in case['ops'] and 'i' in case['ops']
    if k == 'runner':
        return len(case['w']) >= 1
    return True
