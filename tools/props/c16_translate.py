"""K1 for C16: translate the body of `AtomicBuffer::bounds_check` (src/concurrent/atomic_buffer.rs of the
working tree) into the Gallina function

    bounds_ok : mode -> Z (* self.len *) -> Z (* idx *) -> Z (* len *) -> outcome bool

written to coq/Generated/GenBounds.v on every run, together with a few source-shape facts about the accessors
(see `accessor_checks`).  The translation is purely syntactic; it fails loudly (ok = False, the check
reports a broken K1 translation) when the function no longer fits the grammar below.

Grammar of the function body (comments stripped):

    body   ::= stmt* [expr]                 a trailing expression statement must be an assert-like macro
    stmt   ::= 'assert!' '(' expr [',' msg-args] ')' [';']
             | 'debug_assert!' '(' expr [',' msg-args] ')' [';']      (checked in Debug only)
             | 'if' expr '{' 'panic!' '(' ... ')' [';'] '}'           (= assert!(!expr))
             | 'let' ident [':' type] '=' expr ';'
    expr   ::= or ;  or ::= and ('||' and)* ;  and ::= cmp ('&&' cmp)*
    cmp    ::= sum [('<='|'<'|'>='|'>'|'=='|'!=') sum]
    sum    ::= prod (('+'|'-') prod)* ;  prod ::= cast ('*' cast)*
    cast   ::= unary ('as' type)* ;  unary ::= ('-'|'!') unary | post
    post   ::= atom ('.' method '(' [expr] ')')*        methods: wrapping_add wrapping_sub capacity
    atom   ::= int-literal | ident | 'self' '.' 'len' | 'self' '.' 'capacity' '(' ')' | '(' expr ')'
             | ('i32'|'i64'|'Index'|'isize'|'usize'|'u64') '::' ('MAX'|'MIN') | ('i64'|'isize') '::' 'from' '(' expr ')'
    type   ::= 'i32' | 'Index' | 'i64' | 'isize' | 'usize' | 'u64'

Semantics carried over: the operand type decides the checked operator (`i32 +` is `add32 m`, `i64 +` is `add64 m`,
`usize +` is `addu64 m`: panic on overflow in Debug, wrap in Release), `&&`/`||` short-circuit (the right operand
is only evaluated - and can only overflow - when needed), `as` conversions sign-extend / truncate like Rust.
"""
import os
import re

from vlib import core

SRC = 'src/concurrent/atomic_buffer.rs'
FLY = 'src/command/flyweight.rs'


class TranslateError(Exception):
    pass


# ----------------------------------------------------------------------------------------------
# lexing

def strip_comments(s):
    s = re.sub(r'/\*.*?\*/', ' ', s, flags=re.S)
    s = re.sub(r'//[^\n]*', ' ', s)
    return s


_TOK = re.compile(r'''\s*(?:
    (?P<num>\d[\d_]*(?:(?:i|u)(?:8|16|32|64|size))?)
  | (?P<id>[A-Za-z_][A-Za-z_0-9]*!?)
  | (?P<str>"(?:[^"\\]|\\.)*")
  | (?P<op>&&|\|\||<=|>=|==|!=|::|->|=>|[-+*/%<>=!(){}\[\];,.:&|])
)''', re.X)


def lex(s):
    out = []
    pos = 0
    s = s.rstrip()
    while pos < len(s):
        m = _TOK.match(s, pos)
        if not m:
            if s[pos:].strip() == '':
                break
            raise TranslateError('cannot tokenize %r' % s[pos:pos + 30])
        pos = m.end()
        if m.group('num') is not None:
            out.append(('num', m.group('num')))
        elif m.group('id') is not None:
            out.append(('id', m.group('id')))
        elif m.group('str') is not None:
            out.append(('str', m.group('str')))
        else:
            out.append(('op', m.group('op')))
    return out


def find_fn(src, name):
    """(param-list text, body text) of `fn name(` in src (first occurrence outside tests)."""
    m = re.search(r'\bfn\s+%s\s*(?:<[^>{]*>)?\s*\(' % re.escape(name), src)
    if not m:
        raise TranslateError('fn %s not found' % name)
    i = m.end()
    depth = 1
    j = i
    while depth and j < len(src):
        depth += {'(': 1, ')': -1}.get(src[j], 0)
        j += 1
    params = src[i:j - 1]
    k = src.find('{', j)
    semi = src.find(';', j)
    if k < 0 or (0 <= semi < k):
        raise TranslateError('fn %s has no body' % name)
    depth = 1
    e = k + 1
    while depth and e < len(src):
        depth += {'{': 1, '}': -1}.get(src[e], 0)
        e += 1
    if depth:
        raise TranslateError('unbalanced braces in fn %s' % name)
    return params, src[k + 1:e - 1]


# ----------------------------------------------------------------------------------------------
# parsing   AST: ('num', n) ('var', name) ('cap',) ('bin', op, a, b) ('un', op, a) ('cast', a, ty) ('call', meth, a, b)
#                ('const', ty, 'MAX'|'MIN')

TYPES = {'i32': 'i32', 'Index': 'i32', 'i64': 'i64', 'isize': 'i64', 'usize': 'u64', 'u64': 'u64'}
LIMITS = {('i32', 'MAX'): 2**31 - 1, ('i32', 'MIN'): -2**31, ('i64', 'MAX'): 2**63 - 1, ('i64', 'MIN'): -2**63,
          ('u64', 'MAX'): 2**64 - 1, ('u64', 'MIN'): 0}


class Parser:
    def __init__(self, toks):
        self.t = toks
        self.i = 0

    def peek(self, k=0):
        return self.t[self.i + k] if self.i + k < len(self.t) else (None, None)

    def next(self):
        x = self.peek()
        if x[0] is None:
            raise TranslateError('unexpected end of bounds_check body')
        self.i += 1
        return x

    def accept(self, kind, val=None):
        k, v = self.peek()
        if k == kind and (val is None or v == val):
            self.i += 1
            return v
        return None

    def expect(self, kind, val=None):
        v = self.accept(kind, val)
        if v is None:
            raise TranslateError('expected %s %s, found %r' % (kind, val or '', self.peek()))
        return v

    def done(self):
        return self.i >= len(self.t)

    # statements ------------------------------------------------------------------
    def body(self):
        stmts = []
        while not self.done():
            k, v = self.peek()
            if k == 'id' and v in ('assert!', 'debug_assert!'):
                self.next()
                self.expect('op', '(')
                e = self.expr()
                if self.accept('op', ','):
                    self.skip_to_close()
                else:
                    self.expect('op', ')')
                self.accept('op', ';')
                stmts.append(('assert' if v == 'assert!' else 'dassert', e))
            elif k == 'id' and v == 'if':
                self.next()
                e = self.expr()
                self.expect('op', '{')
                self.expect('id', 'panic!')
                self.expect('op', '(')
                self.skip_to_close()
                self.accept('op', ';')
                self.expect('op', '}')
                self.accept('op', ';')
                stmts.append(('assert', ('un', '!', e)))
            elif k == 'id' and v == 'let':
                self.next()
                name = self.expect('id')
                ty = None
                if self.accept('op', ':'):
                    ty = self.type()
                self.expect('op', '=')
                e = self.expr()
                self.expect('op', ';')
                stmts.append(('let', name, ty, e))
            else:
                raise TranslateError('statement not in the grammar, starting at %r' % (self.t[self.i:self.i + 6],))
        return stmts

    def skip_to_close(self):
        depth = 1
        while depth:
            k, v = self.next()
            if k == 'op' and v in '([{':
                depth += 1
            elif k == 'op' and v in ')]}':
                depth -= 1

    def type(self):
        v = self.expect('id')
        if v not in TYPES:
            raise TranslateError('type %s not in the grammar' % v)
        return TYPES[v]

    # expressions -----------------------------------------------------------------
    def expr(self):
        a = self.and_()
        while self.accept('op', '||'):
            a = ('bin', '||', a, self.and_())
        return a

    def and_(self):
        a = self.cmp()
        while self.accept('op', '&&'):
            a = ('bin', '&&', a, self.cmp())
        return a

    def cmp(self):
        a = self.sum()
        k, v = self.peek()
        if k == 'op' and v in ('<=', '<', '>=', '>', '==', '!='):
            self.next()
            a = ('bin', v, a, self.sum())
        return a

    def sum(self):
        a = self.prod()
        while True:
            k, v = self.peek()
            if k == 'op' and v in ('+', '-'):
                self.next()
                a = ('bin', v, a, self.prod())
            else:
                return a

    def prod(self):
        a = self.cast()
        while True:
            k, v = self.peek()
            if k == 'op' and v == '*':
                self.next()
                a = ('bin', '*', a, self.cast())
            elif k == 'op' and v in ('/', '%'):
                raise TranslateError('operator %s not in the grammar' % v)
            else:
                return a

    def cast(self):
        a = self.unary()
        while self.accept('id', 'as'):
            a = ('cast', a, self.type())
        return a

    def unary(self):
        if self.accept('op', '-'):
            return ('un', '-', self.unary())
        if self.accept('op', '!'):
            return ('un', '!', self.unary())
        return self.post()

    def post(self):
        a = self.atom()
        while self.peek() == ('op', '.'):
            self.next()
            meth = self.expect('id')
            if meth in ('wrapping_add', 'wrapping_sub'):
                self.expect('op', '(')
                b = self.expr()
                self.expect('op', ')')
                a = ('call', meth, a, b)
            else:
                raise TranslateError('method .%s not in the grammar' % meth)
        return a

    def atom(self):
        k, v = self.next()
        if k == 'num':
            m = re.match(r'^(\d[\d_]*?)((?:i|u)(?:8|16|32|64|size))?$', v)
            n = int(m.group(1).replace('_', ''))
            suf = m.group(2)
            if suf and suf not in TYPES:
                raise TranslateError('literal suffix %s not in the grammar' % suf)
            return ('num', n, TYPES[suf] if suf else None)
        if k == 'op' and v == '(':
            e = self.expr()
            self.expect('op', ')')
            return e
        if k == 'id' and v == 'self':
            self.expect('op', '.')
            f = self.expect('id')
            if f == 'len':
                return ('cap',)
            if f == 'capacity':
                self.expect('op', '(')
                self.expect('op', ')')
                return ('cap',)
            raise TranslateError('self.%s not in the grammar' % f)
        if k == 'id' and v in TYPES and self.peek() == ('op', '::'):
            self.next()
            w = self.expect('id')
            if w in ('MAX', 'MIN'):
                return ('const', TYPES[v], w)
            if w == 'from' and TYPES[v] == 'i64':
                self.expect('op', '(')
                e = self.expr()
                self.expect('op', ')')
                return ('cast', e, 'i64')
            raise TranslateError('%s::%s not in the grammar' % (v, w))
        if k == 'id' and re.match(r'^[A-Za-z_][A-Za-z_0-9]*$', v) and v not in ('as', 'if', 'let', 'return', 'unsafe', 'match'):
            if v == 'I32_SIZE':
                return ('num', 4, 'i32')
            if v == 'I64_SIZE':
                return ('num', 8, 'i32')
            return ('var', v)
        raise TranslateError('token %r not in the grammar' % (v,))


# ----------------------------------------------------------------------------------------------
# typing and emission

OPS = {'i32': ('add32', 'sub32', 'mul32', 'wrap32'), 'i64': ('add64', 'sub64', 'mul64', 'wrap64'),
       'u64': ('addu64', 'subu64', None, 'wrapu64')}
CMP = {'<=': '<=?', '<': '<?', '>=': '>=?', '>': '>?', '==': '=?'}


class Emitter:
    """Compiles an AST to a Gallina term of type `outcome Z` / `outcome bool` (monadic, evaluation order kept)."""

    def __init__(self, env):
        self.env = dict(env)      # rust name -> (coq name, type)
        self.n = 0

    def fresh(self):
        self.n += 1
        return 't%d' % self.n

    def let(self, term, k):
        """`x <- term ;; k x` where k builds the continuation text from the bound name; `Ok p` with an atomic p is substituted"""
        m = re.match(r'^Ok (\(-?\d+\)|[A-Za-z_0-9]+)$', term)
        if m:
            return k(m.group(1))
        x = self.fresh()
        return '(%s <- %s ;; %s)' % (x, term, k(x))

    def typeof(self, e, hint=None):
        k = e[0]
        if k == 'num':
            return e[2] or hint
        if k == 'var':
            if e[1] not in self.env:
                raise TranslateError('unknown identifier %s' % e[1])
            return self.env[e[1]][1]
        if k == 'cap':
            return 'i32'
        if k == 'const':
            return e[1]
        if k == 'cast':
            return e[2]
        if k == 'call':
            return self.typeof(e[2], hint) or self.typeof(e[3], hint)
        if k == 'un':
            return 'bool' if e[1] == '!' else self.typeof(e[2], hint)
        if k == 'bin':
            if e[1] in ('&&', '||') or e[1] in CMP or e[1] == '!=':
                return 'bool'
            return self.typeof(e[2], hint) or self.typeof(e[3], hint)
        raise TranslateError('typeof %r' % (e,))

    def lit(self, n):
        return '(%d)' % n if n < 0 else '%d' % n

    def pure(self, e, ty):
        """Gallina Z term if `e` needs no checked operation, else None."""
        k = e[0]
        if k == 'num':
            lo, hi = LIMITS[(ty, 'MIN')], LIMITS[(ty, 'MAX')]
            if not lo <= e[1] <= hi:
                raise TranslateError('literal %d out of range for %s' % (e[1], ty))
            return self.lit(e[1])
        if k == 'var':
            return self.env[e[1]][0]
        if k == 'cap':
            return 'cap'
        if k == 'const':
            return self.lit(LIMITS[(e[1], e[2])])
        return None

    def arith(self, e, hint='i32'):
        """-> (gallina term of type outcome Z, rust type)"""
        ty = self.typeof(e, hint) or hint
        if ty == 'bool':
            raise TranslateError('boolean used as a number')
        p = self.pure(e, ty)
        if p is not None:
            return 'Ok %s' % p, ty
        k = e[0]
        if k == 'cast':
            src_ty = self.typeof(e[1], 'i32') or 'i32'
            inner, src_ty = self.arith(e[1], src_ty)
            widening = (src_ty, ty) in (('i32', 'i64'), ('i32', 'i32'), ('i64', 'i64'), ('u64', 'u64'))
            if widening:
                return inner, ty
            return self.let(inner, lambda x: 'Ok (%s %s)' % (OPS[ty][3], x)), ty
        if k == 'un' and e[1] == '-':
            a, _ = self.arith(e[2], ty)
            return self.let(a, lambda x: '%s m 0 %s' % (OPS[ty][1], x)), ty
        if k == 'bin' and e[1] in ('+', '-', '*'):
            ta = self.typeof(e[2], None)
            tb = self.typeof(e[3], None)
            if ta and tb and ta != tb:
                raise TranslateError('operands of %s have different types %s / %s (does not compile in Rust)' % (e[1], ta, tb))
            a, _ = self.arith(e[2], ty)
            b, _ = self.arith(e[3], ty)
            op = OPS[ty][{'+': 0, '-': 1, '*': 2}[e[1]]]
            if op is None:
                raise TranslateError('operator %s on %s not in the grammar' % (e[1], ty))
            return self.let(a, lambda x: self.let(b, lambda y: '%s m %s %s' % (op, x, y))), ty
        if k == 'call':
            a, _ = self.arith(e[2], ty)
            b, _ = self.arith(e[3], ty)
            sign = '+' if e[1] == 'wrapping_add' else '-'
            return self.let(a, lambda x: self.let(b, lambda y: 'Ok (%s (%s %s %s))' % (OPS[ty][3], x, sign, y))), ty
        raise TranslateError('expression %r is not arithmetic' % (e,))

    def boolean(self, e):
        """-> gallina term of type outcome bool"""
        k = e[0]
        if k == 'bin' and e[1] == '&&':
            x = self.fresh()
            return '(%s <- %s ;; if %s then %s else Ok false)' % (x, self.boolean(e[2]), x, self.boolean(e[3]))
        if k == 'bin' and e[1] == '||':
            x = self.fresh()
            return '(%s <- %s ;; if %s then Ok true else %s)' % (x, self.boolean(e[2]), x, self.boolean(e[3]))
        if k == 'un' and e[1] == '!':
            x = self.fresh()
            return '(%s <- %s ;; Ok (negb %s))' % (x, self.boolean(e[2]), x)
        if k == 'bin' and (e[1] in CMP or e[1] == '!='):
            ta = self.typeof(e[2], None)
            tb = self.typeof(e[3], None)
            if ta == 'bool' or tb == 'bool':
                raise TranslateError('comparison of booleans not in the grammar')
            if ta and tb and ta != tb:
                raise TranslateError('operands of %s have different types %s / %s (does not compile in Rust)' % (e[1], ta, tb))
            ty = ta or tb or 'i32'
            a, _ = self.arith(e[2], ty)
            b, _ = self.arith(e[3], ty)
            def c(x, y):
                if e[1] == '!=':
                    return 'Ok (negb (%s =? %s))' % (x, y)
                if e[1] in ('>=', '>'):      # written with <=? / <? only (friendlier to lia)
                    return 'Ok (%s %s %s)' % (y, CMP['<=' if e[1] == '>=' else '<'], x)
                return 'Ok (%s %s %s)' % (x, CMP[e[1]], y)
            return self.let(a, lambda x: self.let(b, lambda y: c(x, y)))
        if k == 'var' and self.env.get(e[1], (None, None))[1] == 'bool':
            return 'Ok %s' % self.env[e[1]][0]
        raise TranslateError('expression %r is not boolean' % (e,))


def translate_bounds(src_text):
    """-> (gallina body of bounds_ok, normalized rust text of the function body, (idx name, len name))"""
    code = strip_comments(src_text)
    code = code.split('#[cfg(test)]')[0]
    params, body = find_fn(code, 'bounds_check')
    ps = [p.strip() for p in params.split(',') if p.strip()]
    if len(ps) != 3 or ps[0].replace(' ', '') != '&self':
        raise TranslateError('bounds_check signature changed: (%s)' % params.strip())
    names = []
    for p in ps[1:]:
        m = re.match(r'^([A-Za-z_][A-Za-z_0-9]*)\s*:\s*(Index|i32)$', p)
        if not m:
            raise TranslateError('bounds_check parameter %r is not `name: Index`' % p)
        names.append(m.group(1))
    env = {names[0]: ('idx', 'i32'), names[1]: ('len', 'i32')}
    stmts = Parser(lex(body)).body()
    if not any(s[0] == 'assert' for s in stmts):
        raise TranslateError('bounds_check contains no assert!/panic! any more: %r' % ' '.join(body.split()))
    em = Emitter(env)

    def go(i):
        if i == len(stmts):
            return 'Ok true'
        s = stmts[i]
        if s[0] in ('assert', 'dassert'):
            x = em.fresh()
            cond = em.boolean(s[1])
            if s[0] == 'dassert':
                cond = '(match m with Debug => %s | Release => Ok true end)' % cond
            return '(%s <- %s ;;\n   if %s then %s else Ok false)' % (x, cond, x, go(i + 1))
        if s[0] == 'let':
            _, name, ty, e = s
            ety = ty or em.typeof(e, 'i32') or 'i32'
            coqname = 'v_%s' % name
            if ety == 'bool':
                val = em.boolean(e)
            else:
                val, ety2 = em.arith(e, ety)
                if ty and ety2 != ty:
                    raise TranslateError('let %s: %s initialised with %s' % (name, ty, ety2))
            em.env[name] = (coqname, ety)
            return '(%s <- %s ;;\n   %s)' % (coqname, val, go(i + 1))
        raise TranslateError(s)

    return go(0), ' '.join(body.split()), tuple(names)


# ----------------------------------------------------------------------------------------------
# source-shape facts about the accessors: which bounds_check calls each one makes, textually

ACCESSORS = ['view', 'get', 'overlay_struct', 'as_ref', 'set_memory', 'get_volatile', 'put_ordered', 'put',
             'put_atomic_i64', 'compare_and_set_i32', 'compare_and_set_i64', 'add_i64_ordered', 'put_bytes',
             'get_bytes', 'copy_from', 'as_mutable_slice', 'as_slice', 'as_sub_slice', 'get_string',
             'get_string_without_length', 'get_string_length', 'put_string', 'put_string_without_length',
             'get_and_add_i64']


def _norm(s):
    s = ''.join(s.split())
    return s.replace('std::mem::size_of::<T>()asIndex', 'SZ').replace('std::mem::size_of::<T>()', 'SZ')


def accessor_checks(src_text):
    """{accessor: [normalized argument text of every `bounds_check(...)` call in its body, in order]}; the hook
    line (`#[cfg(unitedtraders_aeron_rs_verif)] let _verif = ...;`) is removed first."""
    code = strip_comments(src_text).split('#[cfg(test)]')[0]
    code = re.sub(r'#\[cfg\(unitedtraders_aeron_rs_verif\)\]\s*let\s+_verif\s*=.*?;\s*\n', '\n', code, flags=re.S)
    i = code.find('impl AtomicBuffer')
    if i < 0:
        raise TranslateError('impl AtomicBuffer not found')
    code = code[i:]
    out = {}
    for a in ACCESSORS:
        _, body = find_fn(code, a)
        calls = []
        for m in re.finditer(r'([A-Za-z_][A-Za-z_0-9]*)\s*\.\s*bounds_check\s*\(', body):
            j = m.end()
            depth = 1
            k = j
            while depth:
                depth += {'(': 1, ')': -1}.get(body[k], 0)
                k += 1
            calls.append(m.group(1) + ':' + _norm(body[j:k - 1]))
        out[a] = (calls, _norm(body))
    return out


# how the length of a slice argument reaches the bounds check
SLICE_FORMS = {
    'put_bytes': {'self:offset,src.len()asIndex': False, 'self:offset,Self::slice_len(src.len())': True},
    'put_string': {'self:offset,string.len()asIndex+I32_SIZE': False, 'self:offset,length+I32_SIZE': True},
    'put_string_without_length': {'self:offset,string.len()asIndex': False, 'self:offset,length': True},
}


def slice_forms(src_text):
    """{accessor: True (checked conversion, panics above Index::MAX) | False (`as Index`, truncating)}"""
    ac = accessor_checks(src_text)
    code = strip_comments(src_text).split('#[cfg(test)]')[0]
    out = {}
    for a, forms in SLICE_FORMS.items():
        calls, body = ac[a]
        if len(calls) != 1 or calls[0] not in forms:
            raise TranslateError('%s: bounds_check call %r is none of the known forms %s' % (a, calls, sorted(forms)))
        chk = forms[calls[0]]
        if chk:
            if a != 'put_bytes' and 'letlength=Self::slice_len(string.len());' not in body:
                raise TranslateError('%s: `length` is not `Self::slice_len(string.len())`' % a)
            _, sl = find_fn(code, 'slice_len')
            if not re.match(r'^Index::try_from\(len\)\.(expect\("[^"]*"\)|unwrap\(\))$', ''.join(sl.split())):
                raise TranslateError('slice_len is not a checked conversion any more: %r' % ' '.join(sl.split()))
        else:
            if 'Self::slice_len' in body:
                raise TranslateError('%s mixes `as Index` and slice_len' % a)
        out[a] = chk
    return out


def hooked(src_text):
    return 'verif_hook::enter(' in strip_comments(src_text)


# ----------------------------------------------------------------------------------------------

def gen_bounds():
    path = os.path.join(core.REPO, SRC)
    text = open(path).read()
    body, rust, names = translate_bounds(text)
    hk = hooked(text)
    sf = slice_forms(text)
    esc = rust.replace('"', '""')
    lines = [
        '(* GENERATED on every run by tools/props/c16_translate.py from %s of the working tree. *)' % SRC,
        'Require Import V.Base.MachineInt.',
        'From Coq Require Import String.',
        'Open Scope Z_scope.',
        '',
        '(* fn bounds_check(&self, %s: Index, %s: Index) { %s } *)' % (names[0], names[1], rust.replace('*)', '* )')),
        'Definition bounds_src : string := "%s"%%string.' % esc,
        '',
        'Definition bounds_ok (m : mode) (cap idx len : Z) : outcome bool :=',
        '  ' + body + '.',
        '',
        '(* the accessors report to the verification hook before their first check (cfg unitedtraders_aeron_rs_verif) *)',
        'Definition gen_hooked : bool := %s.' % ('true' if hk else 'false'),
        '',
        '(* how a slice length reaches the bounds check: true = checked conversion (panics above Index::MAX), false = `as Index` *)',
        'Definition gen_chk_put_bytes : bool := %s.' % ('true' if sf['put_bytes'] else 'false'),
        'Definition gen_chk_put_string : bool := %s.' % ('true' if sf['put_string'] else 'false'),
        'Definition gen_chk_put_string_wl : bool := %s.' % ('true' if sf['put_string_without_length'] else 'false'),
        '',
    ]
    changed = core.write_if_changed(os.path.join(core.COQ, 'Generated', 'GenBounds.v'), '\n'.join(lines))
    return True, 'bounds_check: %s; slice lengths checked: %s%s' % (rust, sf, ' (rewritten)' if changed else '')


TABLES = [gen_bounds]
