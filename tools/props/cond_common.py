"""Shared by the C09 and C10 drivers: history cases for the conductor harness (harness/c09) and Model/Conductor.v.

A case is {'kind': <label>, 'cfg': [c0, now0, driver_timeout_ms, inter_service_timeout_ms], 'ops': [[name, args...], ...]}.
Op names are the harness's words; `we` carries the event word as second element.

The generator keeps a rough simulation of the conductor (ids handed out, which registrations are pending / ready /
held, clock, close) only to aim the next operation at interesting ids; nothing in the check depends on it being right.
"""
import os
import shutil
import time

from vlib.term import z

KINDS = {'p': 'KPub', 'x': 'KXPub', 's': 'KSub', 'c': 'KCtr', 'd': 'KDest'}

HOOK_FIND_EXCL = 'fn find_exclusive_publication_for_verif'


def has_find_excl_hook():
    """ClientConductor::find_exclusive_publication is pub(crate); the harness reaches it through the add-only hook
    of hooks/cond-find-exclusive.diff. While the repository under test lacks the hook, lookups / drops / peeks of
    exclusive publications are not generated (harness/c09/build.rs makes the same test when the harness is built)."""
    from vlib import core
    try:
        return HOOK_FIND_EXCL in open(os.path.join(core.REPO, 'src', 'client_conductor.rs')).read()
    except OSError:
        return False


def hook_note():
    ok = has_find_excl_hook()
    return (True, 'hook find_exclusive_publication_for_verif',
            'present: exclusive publications are looked up, peeked at and dropped like shared ones' if ok else
            'ABSENT in the repository under test: fx / dx / px operations are not generated (exclusive publications only through add, answers, close)')


def impl_line(case):
    cfg = case['cfg']
    ops = []
    for o in case['ops']:
        ops.append(' '.join(str(x) for x in o))
    return 'hist %d %d %d %d | %s' % (cfg[0], cfg[1], cfg[2], cfg[3], ' ; '.join(ops))


def event_expr(e):
    n, a = e[0], e[1:]
    if n == 'er':
        # the listener adapter's dispatch on the error code (4 = channel endpoint error) is part of the model: Conductor.ev_error
        return '(ev_error %s %s)' % (z(a[0]), z(a[1]))
    name = {'pr': 'EvPubReady', 'xr': 'EvXPubReady', 'sr': 'EvSubReady', 'os': 'EvOpSuccess', 'er': 'EvError',
            'ai': 'EvAvailImage', 'ui': 'EvUnavailImage', 'cr': 'EvCounterReady', 'uc': 'EvUnavailCounter',
            'ct': 'EvClientTimeout'}[n]
    return '(%s %s)' % (name, ' '.join(z(x) for x in a))


def op_expr(o):
    n, a = o[0], o[1:]
    if n in ('ap', 'ax', 'as'):
        return 'Add %s %s %s %s' % (KINDS[n[1]], z(a[0]), z(a[1]), z(a[2]) if len(a) > 2 else '0')
    if n in ('cp', 'cx'):
        return 'CloseHandle %s %s' % (KINDS[n[1]], z(a[0]))
    if n == 'ac':
        return 'Add KCtr %s %s %s' % (z(a[0]), z(a[1]), z(a[2]))
    if n == 'ad':
        return 'Add KDest %s %s %s' % (z(a[0]), z(a[1]), z(a[2]))
    if n[0] == 'f' and len(n) == 2:
        return 'Find %s %s' % (KINDS[n[1]], z(a[0]))
    if n[0] in 'dD' and len(n) == 2:
        # Dp / Dx / Ds / Dc: the handle is dropped while another thread holds the conductor mutex for a while - the destructor waits and then
        # releases, so the operation is the plain drop for the model (the lock only delays)
        return 'DropHandle %s %s' % (KINDS[n[1]], z(a[0]))
    if n[0] == 'p' and len(n) == 2:
        return 'Peek %s %s' % (KINDS[n[1]], z(a[0]))
    if n == 'cl':
        return 'Close'
    if n == 'tk':
        return 'Tick %s' % z(a[0])
    if n == 'hb':
        return 'SetDriverHb %s' % z(a[0])
    if n == 'hc':
        return 'SetHbCounter %s' % z(a[0])
    if n == 'rf':
        return 'SetRingFull %s' % ('true' if a[0] else 'false')
    if n == 'w':
        return 'DoWork BNone'
    if n == 'wl':
        return 'DoWork BLapped'
    if n == 'wo':
        return 'DoWork BOversize'
    if n == 'we':
        return 'DoWork (BEvent %s)' % event_expr(a)
    raise ValueError(o)


def scripted_callbacks(case):
    """does the history install callbacks that call back into the client (op `cs`)?"""
    return any(o[0] == 'cs' for o in case['ops'])


def ops_expr(case):
    # for the judges installing a callback script is an operation without effect on the conductor (ConductorReent.plain)
    return '[' + '; '.join('Tick 0' if o[0] == 'cs' else op_expr(o) for o in case['ops']) + ']'


def rops_expr(case):
    return '[' + '; '.join('RScript %s' % z(o[1]) if o[0] == 'cs' else 'ROp (%s)' % op_expr(o) for o in case['ops']) + ']'


def model_expr(case, mode):
    c = case['cfg']
    if scripted_callbacks(case):
        return 'rrun_obs %s %s %s %s %s' % (z(c[0]), z(c[1]), z(c[2]), z(c[3]), rops_expr(case))
    return 'run_obs %s %s %s %s %s' % (z(c[0]), z(c[1]), z(c[2]), z(c[3]), ops_expr(case))


def reentrant_deadlock(case, obs):
    """The class of the finding reentrant-call-deadlock: the history is answered up to an operation that hangs while a callback
    script that calls the client is installed (the last `cs n` before it has n <> 0)."""
    if isinstance(obs, int) or obs[0] != 'list' or not obs[1]:
        return False
    last = obs[1][-1]
    if isinstance(last, int) or last[0] != 'tuple' or isinstance(last[1][0], int) or last[1][0] != ('app', 'Hang', []):
        return False
    i = len(obs[1]) - 1
    if i >= len(case['ops']):
        return False
    script = 0
    for o in case['ops'][:i]:
        if o[0] == 'cs':
            script = o[1]
    return script != 0 and case['ops'][i][0] != 'cs'


def reent_histories(rng, n):
    """Histories whose callbacks call add / find / release: a plain history with a script installed somewhere (and sometimes
    taken out again before anything fires)."""
    out = []
    for _ in range(n):
        c = gen_history(rng, 'quick', rng.choice(['protocol', 'faults']))
        ops = c['ops']
        if len(ops) < 3:
            continue
        i = rng.randrange(1, len(ops))
        ops = ops[:i] + [['cs', rng.choice([1, 2, 3])]] + ops[i:]
        if rng.random() < 0.3:
            j = rng.randrange(i + 1, len(ops) + 1)
            ops = ops[:j] + [['cs', 0]] + ops[j:]
        out.append({'kind': 'reentrant', 'cfg': c['cfg'], 'ops': ops[:72]})
    return out


def scripted_reent():
    H = []

    def h(label, ops, cfg=(0, 1000000, 10000, 5000)):
        c = {'kind': label, 'cfg': list(cfg), 'ops': [o.split() for o in ops.split(';') if o.strip()]}
        for o in c['ops']:
            for j in range(1, len(o)):
                try:
                    o[j] = int(o[j])
                except ValueError:
                    pass
        H.append(c)
    # every kind of callback, each calling add / find / release
    h('reentrant-on-new-subscription-adds', 'hb 1000000; as 4 9; cs 1; fs 1; w; we sr 1 6; fs 1')
    h('reentrant-on-new-publication-finds', 'hb 1000000; ap 4 9; cs 2; we pr 1 1 9 5 3 4; fp 1')
    h('reentrant-available-image-releases', 'hb 1000000; as 4 9; we sr 1 6; fs 1; cs 3; we ai 50 1 2 1')
    h('reentrant-unavailable-image-adds', 'hb 1000000; as 4 9; we sr 1 6; fs 1; we ai 50 1 2 1; cs 1; we ui 50 1')
    h('reentrant-counter-handlers', 'hb 1000000; cs 2; we uc 7 7; w')
    h('reentrant-error-handler-on-stall', 'hb 1000000; ap 1 1; cs 1; tk 5001; hb 1005001; w; ap 1 1')
    h('reentrant-close-handler', 'hb 1000000; ap 1 1; cs 3; cl; ap 1 1')
    h('reentrant-drop-subscription-with-images', 'hb 1000000; as 4 9; we sr 1 6; fs 1; we ai 50 1 2 1; cs 2; ds 1; fs 1')
    h('reentrant-drop-with-inactive-driver', 'hb 1000000; ap 1 1; we pr 1 1 1 5 3 4; fp 1; tk 10001; w; cs 1; dp 1')
    h('reentrant-channel-endpoint-error', 'hb 1000000; as 4 9; we sr 1 6; cs 1; we er 6 4; fs 1')
    # a script that is installed but never fires, or is taken out again in time: the plain history
    h('script-never-fires', 'hb 1000000; cs 1; ap 1 1; as 2 2; fp 1; fs 2; tk 100; w; we os 9; we er 1 3; fp 1; fp 1; cs 0; we sr 2 6; fs 2; cl')
    h('script-removed-in-time', 'hb 1000000; as 4 9; cs 3; w; cs 0; we sr 1 6; fs 1; cs 2; ps 1; pp 1; fs 1; cs 0; cl')
    return H





def _is_chan_err(c):
    return (not isinstance(c, int) and c[0] == 'app' and c[1] == 'CbErr' and c[2] and not isinstance(c[2][0], int)
            and c[2][0][0] == 'app' and c[2][0][1] == 'EChannelEndpoint')


def normalize(obs):
    """The conductor walks HashMaps: inside one operation
    - a maximal run of consecutive unavailable-counter callbacks is put in the order of the registration ids (stable);
    - a maximal run of unavailable-image callbacks and ChannelEndpointException error-handler calls (close_all_resources,
      on_channel_endpoint_error_response: one call per resource on the channel, each followed by the images of that
      subscription) is put in a canonical order: the error-handler calls first, then the image callbacks in the order of the
      subscription ids (stable, so the images of one subscription keep their order);
    on both sides."""
    if isinstance(obs, int) or obs[0] != 'list':
        return obs
    out = []
    for item in obs[1]:
        if isinstance(item, int) or item[0] != 'tuple' or len(item[1]) != 3 or isinstance(item[1][1], int) or item[1][1][0] != 'list':
            out.append(item)
            continue
        cbs = item[1][1][1]
        res, i = [], 0

        def name_of(c):
            return c[1] if (not isinstance(c, int) and c[0] == 'app') else None
        key = lambda t: t[2][0] if t[2] and isinstance(t[2][0], int) else 0
        while i < len(cbs):
            c = cbs[i]
            name = name_of(c)
            if name == 'CbUnavailCtr':
                j = i
                while j < len(cbs) and name_of(cbs[j]) == name:
                    j += 1
                res.extend(sorted(cbs[i:j], key=key))
                i = j
            elif name == 'CbUnavailImg' or _is_chan_err(c):
                j = i
                while j < len(cbs) and (name_of(cbs[j]) == 'CbUnavailImg' or _is_chan_err(cbs[j])):
                    j += 1
                run = cbs[i:j]
                res.extend([t for t in run if _is_chan_err(t)])
                res.extend(sorted([t for t in run if not _is_chan_err(t)], key=key))
                i = j
            else:
                res.append(c)
                i += 1
        out.append(('tuple', [item[1][0], ('list', res), item[1][2]]))
    return ('list', out)


def clean_scratch():
    """Scratch directories of harness processes that were killed (hang watchdog) are removed after ten minutes."""
    from vlib import core
    d = os.path.join(core.BUILD, 'scratch')
    if not os.path.isdir(d):
        return
    now = time.time()
    for n in os.listdir(d):
        p = os.path.join(d, n)
        try:
            if now - os.path.getmtime(p) > 600:
                shutil.rmtree(p, ignore_errors=True)
        except OSError:
            pass


# ----------------------------------------------------------------------------------------------------------------
class Sim:
    """Rough conductor simulation used to aim operations."""

    def __init__(self, rng, c0, now0, tdrv, tis, xhook=False):
        self.rng = rng
        self.xhook = xhook      # find_exclusive_publication_for_verif is there: fx / dx / px may be emitted
        self.c0, self.now, self.tdrv, self.tis = c0, now0, tdrv, tis
        self.next = c0 + 1
        self.closed = False
        self.active = True
        self.hb = 0
        self.t_work = self.t_keep = now0
        self.hbenv = 0
        self.bound = False
        self.regs = {}      # id -> dict(kind, state in await|ready|err|gone, held, images, cid)
        self.ops = []
        self.img = 1000 + rng.randrange(0, 50)
        self.close_sent = False
        self.full = False

    # -- helpers
    def ids(self, kind=None, state=None, held=None):
        out = []
        for i, r in self.regs.items():
            if kind is not None and r['kind'] not in kind:
                continue
            if state is not None and r['state'] not in state:
                continue
            if held is not None and r['held'] != held:
                continue
            out.append(i)
        return out

    def emit(self, *o):
        self.ops.append(list(o))

    def unknown_id(self):
        return self.rng.choice([self.c0, self.next, self.next + 5, self.c0 - 3, 0, -1, 2 ** 40 + 7, self.next + 1])

    # -- operations (each also updates the rough state)
    def add(self, k):
        r = self.rng
        if k in 'pxs':
            ch, st = r.randrange(0, 10), r.choice([1, 7, 1001, -5, 2 ** 31 - 1, -2 ** 31])
            if r.random() < 0.12:
                # a long channel: the encoded command must fit the 512-byte command buffer (header 24 / 32 bytes) - exact fit,
                # one less, one more, and a few others
                top = 512 - (32 if k == 's' else 24)
                ln = r.choice([top, top, top - 1, top + 1, top + 1, 41, 100, 300, top + 8, 600])
                self.emit('a' + k, ch, st, ln)
                if ln > top and self.active and not self.closed:
                    return None     # IllegalArgument: nothing sent, no id drawn
            else:
                self.emit('a' + k, ch, st)
        elif k == 'c':
            ty = r.choice([0, 11, 1001, -3])
            kl = r.choice([0, 8, 16, 112, 112, 113, 200])
            ll = r.choice([0, 1, 10, 64, 380, 381]) if kl < 100 else r.choice([0, 10, 64])
            if r.random() < 0.2:
                kl = r.choice([0, 1, 4, 5, 109, 112])
                ll = 512 - 28 - (kl + 3) // 4 * 4 + r.choice([0, 0, -1, 1, 1, 8])      # on the 512-byte boundary
            self.emit('ac', ty, kl, ll)
            if kl > 112 or ll > 380 or 28 + (kl + 3) // 4 * 4 + ll > 512:
                if self.active and not self.closed:
                    return None
        else:
            target = r.choice(self.ids('ps') or [self.unknown_id()]) if r.random() < 0.8 else self.unknown_id()
            self.emit('ad', r.randrange(0, 4), target, r.randrange(0, 10))
        if not self.active or self.closed:
            return None
        i = self.next
        self.next += 1
        if self.full:
            return None         # the id is used up, the command refused
        self.regs[i] = {'kind': k, 'state': 'await', 'held': False, 'images': [], 't0': self.now, 'obj': False}
        return i

    def find(self, i, k=None):
        k = k or (self.regs[i]['kind'] if i in self.regs else self.rng.choice('pscd'))
        if k == 'x' and not self.xhook:
            return      # find_exclusive_publication is pub(crate): reachable only through the hook
        self.emit('f' + k, i)
        reg = self.regs.get(i)
        if self.closed or reg is None or reg['kind'] != k:
            return
        if k == 'd' or reg.get('dead'):
            return
        if reg['obj'] or (reg['state'] == 'ready' and k in 'px'):
            reg['obj'] = True
            reg['held'] = True
        elif reg['state'] == 'err':
            del self.regs[i]

    def drop(self, i, k=None):
        k = k or (self.regs[i]['kind'] if i in self.regs else self.rng.choice('pscx' if self.xhook else 'psc'))
        if k == 'd' or (k == 'x' and not self.xhook):
            return
        self.emit('d' + k, i)
        reg = self.regs.get(i)
        if reg and reg['kind'] == k and reg['held']:
            if not self.closed and not reg.get('dead'):
                self.next += 1
            del self.regs[i]        # (a publication / counter dropped while the ring is full stays registered with a dead handle)

    def close_handle(self, i, k=None):
        """the user calls the public close() of a publication / exclusive publication handle"""
        k = k or (self.regs[i]['kind'] if i in self.regs else self.rng.choice('px' if self.xhook else 'p'))
        if k not in 'px' or (k == 'x' and not self.xhook):
            return
        self.emit('c' + k, i)

    def peek(self, i, k=None):
        k = k or (self.regs[i]['kind'] if i in self.regs else self.rng.choice('pscx' if self.xhook else 'psc'))
        if k == 'd' or (k == 'x' and not self.xhook):
            return
        self.emit('p' + k, i)

    def tick(self, d):
        self.emit('tk', d)
        self.now += d

    def ring(self, full):
        self.emit('rf', 1 if full else 0)
        self.full = full

    def heartbeat(self, t=None):
        self.hb = self.now if t is None else t
        self.emit('hb', self.hb)

    def close_all(self):
        if self.closed:
            return
        self.closed = True
        for i in list(self.regs):
            if self.regs[i]['kind'] != 'd':
                self.regs[i]['gone'] = True

    def work(self, word='w', ev=None):
        if ev is not None:
            self.emit('we', *ev)
        else:
            self.emit(word)
        if word in ('wl', 'wo') and ev is None:
            return
        if ev is not None:
            self.apply_event(ev)
        t = self.now
        if t > self.t_work + self.tis:
            self.close_all()
        self.t_work = t
        if t > self.t_keep + 500:
            if self.hb >= 0 and t > self.hb + self.tdrv:
                self.active = False
            if self.bound:
                if self.hbenv != 1:
                    self.close_all()
            elif self.hbenv == 1:
                self.bound = True
            self.t_keep = t

    def apply_event(self, ev):
        n, a = ev[0], ev[1:]
        reg = self.regs.get(a[0]) if n not in ('ai', 'ui') else None
        if self.closed and n != 'ct':
            return
        want = {'pr': 'p', 'xr': 'x', 'sr': 's', 'cr': 'c', 'os': 'd'}.get(n)
        if n == 'er' and a[1] == 4:
            x = ((a[0] + 2 ** 31) % 2 ** 32) - 2 ** 31
            for g in self.regs.values():
                if g['kind'] in 'pxs' and g['obj'] and g.get('chstat') == x and not g.get('gone') and not g.get('dead') and (g['kind'] == 's' or g['held']):
                    g['dead'] = True        # the conductor closed the handle and forgot the registration
                    g['obj'] = False
                    g['images'] = []
            return
        if want and reg and reg['kind'] == want and reg['state'] == 'await' and not reg.get('gone'):
            reg['state'] = 'ready'
            reg['chstat'] = {'pr': a[-1], 'xr': a[-1], 'sr': a[-1]}.get(n)
            if want in 'sc':
                reg['obj'] = True
        elif n == 'er' and reg and not reg.get('gone'):
            reg['state'] = 'err'
        elif n == 'ai':
            sub = self.regs.get(a[3])
            if sub and sub['kind'] == 's' and sub['obj'] and not sub.get('gone'):
                sub['images'].append(a[0])
        elif n == 'ui':
            sub = self.regs.get(a[1])
            if sub and sub['kind'] == 's' and a[0] in sub['images']:
                sub['images'].remove(a[0])
        elif n == 'ct' and a[0] == self.c0:
            self.close_all()

    def close(self):
        self.emit('cl')
        self.close_all()
        if not self.close_sent:
            self.close_sent = True
            self.next += 1

    # -- events aimed at registrations
    def chstat(self):
        # few distinct channel status indicator ids, so that a channel endpoint error often finds several resources on its channel
        return self.rng.choice([6, 6, 6, 9, 9, 0, 63, self.rng.randrange(0, 64)])

    def ready_event(self, i, k=None):
        r = self.rng
        k = k or self.regs[i]['kind']
        cid = r.randrange(0, 64)
        if k == 'p':
            return ['pr', i, r.choice([i, i, max(self.c0 + 1, i - 1)]), r.choice([7, -1, 2 ** 31 - 1]), r.randrange(-5, 100), cid, self.chstat()]
        if k == 'x':
            return ['xr', i, r.choice([7, 12]), r.randrange(-5, 100), cid, self.chstat()]
        if k == 's':
            return ['sr', i, self.chstat()]
        if k == 'c':
            return ['cr', i, cid]
        return ['os', i]

    def error_event(self, i):
        return ['er', i, self.rng.choice([0, 1, 2, 3, 5, 10, 11, 12, -1, 77])]

    def chan_error_event(self):
        """ErrorResponse with error code 4: the id is a channel status indicator id (compared as i32 by the conductor)."""
        r = self.rng
        live = [g['chstat'] for g in self.regs.values() if g.get('chstat') is not None and not g.get('gone') and not g.get('dead')]
        q = r.random()
        if live and q < 0.75:
            x = r.choice(live)
        elif q < 0.9:
            x = self.chstat()
        else:
            x = r.choice([-1, 64, 2 ** 31 - 1, self.next, self.c0 + 1])     # also: the id of a registration (not a channel id)
        if r.random() < 0.15:
            x += r.choice([2 ** 32, -2 ** 32, 2 ** 40])     # the same channel id as i32
        return ['er', x, 4]


def gen_history(rng, tier, flavour):
    """flavour: 'protocol' (C09: registrations, answers in any order, duplicates, foreign ids, time-outs, release),
                'faults'  (C10: the same plus lapping, oversize messages, stalls, silent driver, heartbeat loss, client time-out, close)."""
    c0 = rng.choice([0, 0, 100, 2 ** 32 + 5, 2 ** 40])
    now0 = rng.choice([1000000, 1000000, 1700000000000])
    tdrv = rng.choice([10000, 10000, 2000])
    tis = rng.choice([5000, 20000, 1000])
    s = Sim(rng, c0, now0, tdrv, tis, xhook=has_find_excl_hook())
    keep_alive = flavour == 'protocol' or rng.random() < 0.75
    if rng.random() < 0.95:
        s.heartbeat()
    if rng.random() < 0.5:
        s.emit('hc', 1)
        s.hbenv = 1
    n = rng.choice([6, 12, 25, 40, 58])
    kinds = 'ppsscxd' if rng.random() < 0.7 else rng.choice(['p', 's', 'c', 'd', 'x', 'ps'])
    chan = rng.random() < 0.45      # the driver reports channel endpoint errors (error code 4) in this history
    while len(s.ops) < n:
        r = rng.random()
        pending = s.ids(state=['await'])
        live = [i for i in s.regs if not s.regs[i].get('gone')]
        if keep_alive and s.now - s.hb > tdrv // 3:
            s.heartbeat()
        if r < 0.16 or not s.regs:
            s.add(rng.choice(kinds))
        elif r < 0.34:
            # an answer: matching, duplicate, foreign kind, unknown id
            q = rng.random()
            if chan and rng.random() < 0.3:
                ev = s.chan_error_event()
            elif pending and q < 0.55:
                i = rng.choice(pending)
                ev = s.ready_event(i) if rng.random() < 0.75 else s.error_event(i)
            elif live and q < 0.75:
                i = rng.choice(live)        # duplicate / conflicting answer
                ev = s.ready_event(i) if rng.random() < 0.7 else s.error_event(i)
            elif live and q < 0.88:
                i = rng.choice(live)        # answer of another kind for a known id
                ev = s.ready_event(i, rng.choice([k for k in 'pxscd' if k != s.regs[i]['kind']]))
            else:
                i = s.unknown_id()
                ev = s.ready_event(i, rng.choice('pxscd')) if rng.random() < 0.7 else s.error_event(i)
            s.work(ev=ev)
        elif r < 0.56:
            if live and rng.random() < 0.85:
                s.find(rng.choice(live))
            elif s.regs and rng.random() < 0.5:
                i = rng.choice(list(s.regs))
                s.find(i, rng.choice('pscdx' if s.xhook else 'pscd'))       # lookup in another kind's map
            else:
                s.find(s.unknown_id())
        elif r < 0.63:
            held = s.ids(held=True)
            if held and rng.random() < 0.8:
                s.drop(rng.choice(held))
            elif live:
                s.drop(rng.choice(live))
        elif r < 0.68:
            if live and rng.random() < 0.3:
                held = s.ids(kind='px', held=True)
                s.close_handle(rng.choice(held) if held and rng.random() < 0.85 else rng.choice(live))
            elif live:
                s.peek(rng.choice(live))
        elif r < 0.76:
            d = rng.choice([1, 100, 499, 501, 1001, tdrv - 1, tdrv, tdrv + 1, tdrv // 2])
            if flavour == 'faults' and rng.random() < 0.3:
                d = rng.choice([tis, tis + 1, tis * 3, tdrv * 2])
            elif d > tis and flavour == 'protocol':
                d = tis // 2
            s.tick(d)
        elif r < 0.82:
            s.work('w')
        elif r < 0.90:
            subs = [i for i in s.ids(kind='s') if (s.regs[i]['obj'] or (s.regs[i].get('dead') and rng.random() < 0.3)) and not s.regs[i].get('gone')]
            q = rng.random()
            if subs and q < 0.5:
                i = rng.choice(subs)
                s.img += 1
                img = s.img if rng.random() < 0.85 or not s.regs[i]['images'] else rng.choice(s.regs[i]['images'])
                s.work(ev=['ai', img, rng.randrange(-3, 50), rng.randrange(0, 64), i])
            elif subs and q < 0.8:
                i = rng.choice(subs)
                img = rng.choice(s.regs[i]['images']) if s.regs[i]['images'] and rng.random() < 0.8 else s.img + 100
                s.work(ev=['ui', img, i])
            elif q < 0.9:
                s.work(ev=['ai', s.img + 7, 1, 1, rng.choice(live) if live and rng.random() < 0.5 else s.unknown_id()])
            else:
                s.work(ev=['uc', rng.choice(live) if live and rng.random() < 0.5 else s.unknown_id(), rng.randrange(0, 64)])
        elif flavour == 'faults':
            q = rng.random()
            if q < 0.3:
                s.work('wl')
            elif q < 0.4:
                s.work('wo')
            elif q < 0.55:
                s.work(ev=['ct', c0 if rng.random() < 0.6 else s.unknown_id()])
            elif q < 0.7:
                s.close()
            elif q < 0.74:
                v = rng.choice([2, 3, 4, 3])
                s.emit('hc', v)
                s.hbenv = v
            elif q < 0.82:
                # the driver stops reading its command ring; the client goes on for a few operations
                s.ring(True)
                for _ in range(rng.randrange(1, 5)):
                    held = s.ids(held=True)
                    qq = rng.random()
                    if held and qq < 0.6:
                        s.drop(rng.choice(held))
                    elif qq < 0.8:
                        s.add(rng.choice(kinds))
                    elif qq < 0.9:
                        s.close()
                    elif s.regs:
                        s.find(rng.choice(list(s.regs)))
                if rng.random() < 0.7:
                    s.ring(False)
            elif q < 0.91:
                s.heartbeat(rng.choice([-1, 0, s.now - tdrv - 1, s.now - tdrv, s.now]))
            else:
                s.tick(rng.choice([tis + 1, 2 * tis]))
                s.work('w')
        else:
            q = rng.random()
            if q < 0.25:
                s.close()
            elif q < 0.5:
                s.work(ev=['ct', s.unknown_id() if rng.random() < 0.7 else c0])
            else:
                s.work('w')
    # closing section: look everything up once more, peek at all handles
    if rng.random() < 0.5 and not s.closed:
        s.close()
        if rng.random() < 0.3:
            s.close()
    for i in list(s.regs)[:8]:
        k = s.regs[i]['kind']
        if k != 'x' or s.xhook:
            s.emit('f' + k, i)
        if k in 'psc' or (k == 'x' and s.xhook):
            s.emit('p' + k, i)
    if rng.random() < 0.5:
        s.add(rng.choice('psc'))
    return {'kind': flavour, 'cfg': [c0, now0, tdrv, tis], 'ops': s.ops[:70]}


def scripted():
    """Boundary scenarios first: each suspected defect and each clause of the statements, as short histories."""
    H = []

    def h(label, ops, cfg=(0, 1000000, 10000, 5000)):
        H.append({'kind': label, 'cfg': list(cfg), 'ops': [o.split() for o in ops.split(';') if o.strip()]})

    def conv(c):
        for o in c['ops']:
            for j in range(1, len(o)):
                try:
                    o[j] = int(o[j])
                except ValueError:
                    pass
        return c
    h('dup-sub-ready', 'hb 1000000; as 4 9; we sr 1 6; fs 1; we sr 1 8; fs 1; ps 1; ds 1')
    h('dup-sub-ready-cached', 'hb 1000000; as 4 9; we sr 1 6; we sr 1 8; fs 1; ps 1')
    h('dup-pub-ready', 'hb 1000000; ap 4 9; we pr 1 1 9 5 3 4; we pr 1 1 9 6 7 8; fp 1; pp 1; we pr 1 1 9 7 9 9; fp 1; pp 1')
    h('ready-after-error', 'hb 1000000; ap 4 9; we er 1 3; we pr 1 1 9 5 3 4; fp 1; fp 1')
    h('sub-ready-after-error', 'hb 1000000; as 4 9; we er 1 3; we sr 1 4; fs 1; fs 1')
    h('xpub-dup', 'hb 1000000; ax 4 9; we xr 1 9 5 3 4; we xr 1 9 6 3 4; cl')
    h('close-sends-client-close', 'hb 1000000; ap 1 1; cl; cl; ap 1 1; fp 1')
    h('lap-then-work', 'hb 1000000; ap 1 2; wl; w; we pr 1 1 2 5 3 4; fp 1; wo; w; fp 1')
    h('cached-sub-close', 'hb 1000000; as 4 9; we sr 1 6; cl; fs 1; as 1 1')
    h('cached-counter-close', 'hb 1000000; ac 5 8 3; we cr 1 9; cl; fc 1')
    h('cached-sub-client-timeout', 'hb 1000000; as 4 9; we sr 1 6; we ct 0; fs 1; w')
    h('cached-sub-stall', 'hb 1000000; as 4 9; we sr 1 6; tk 5001; hb 1005001; w; fs 1')
    h('repeated-stall', 'hb 1000000; tk 5001; hb 1005001; w; tk 5001; hb 1010002; w; tk 5001; hb 1015003; w; ap 1 1')
    h('close-with-everything',
      'hb 1000000; ap 1 1; as 2 2; ac 3 4 5; ax 4 4; ad 0 1 5; we pr 1 1 1 5 3 4; we sr 2 6; we cr 3 9; we xr 4 4 5 3 4; we os 5;'
      'fp 1; fs 2; fc 3; we ai 50 1 2 2; we ai 51 1 3 2; we ui 50 2; pp 1; ps 2; pc 3; cl; pp 1; ps 2; pc 3; fp 1; fs 2; fc 3; fd 5;'
      'dp 1; ds 2; dc 3; ap 1 1; w')
    h('timeout-vs-notready', 'hb 1000000; ap 1 1; as 1 1; ac 1 1 1; ad 0 1 1; tk 10000; fp 1; fs 2; fc 3; fd 4; tk 1; fp 1; fs 2; fc 3; fd 4;'
      'we pr 1 1 1 5 3 4; fp 1')
    h('error-once', 'hb 1000000; ap 1 1; as 1 1; ac 1 1 1; ad 2 2 1; we er 1 2; we er 2 1; we er 3 5; we er 4 0; fp 1; fp 1; fs 2; fs 2; fc 3; fc 3; fd 4; fd 4')
    h('release', 'hb 1000000; ap 1 1; as 1 1; ac 1 1 1; we pr 1 1 1 5 3 4; we sr 2 6; we cr 3 9; fp 1; fs 2; fc 3; we ai 70 1 1 2; dp 1; ds 2; dc 3; fp 1; fs 2; fc 3; dp 1')
    h('foreign-ids', 'hb 1000000; ap 1 1; as 1 1; ac 1 1 1; we sr 1 6; we pr 2 2 1 5 3 4; we cr 1 1; we os 1; we pr 9 9 1 1 1 1; we er 99 1; we ai 5 5 5 1; we ui 5 1; fp 1; fs 2; fc 3')
    h('driver-silent', 'hb 1000000; ap 1 1; tk 10001; w; ap 1 1; fp 1; w')
    h('heartbeat-lost', 'hb 1000000; hc 1; as 1 1; tk 501; w; we sr 1 6; fs 1; hc 2; tk 501; w; fs 1; ps 1; tk 501; w')
    h('counter-limits', 'hb 1000000; ac 1 112 10; ac 1 113 10; ac 1 0 381; ac 1 0 380; fc 1; fc 2')
    h('unavailable-counter-event-and-close-in-one-cycle', 'hb 1000000; ac 0 0 64; we cr 1 43; tk 9999; hb 1009999; we uc 4 58', cfg=(0, 1000000, 10000, 1000))
    h('ring-full-drop-subscription-with-images',
      'hb 1000000; as 1 1; we sr 1 6; fs 1; we ai 50 1 2 1; we ai 51 1 3 1; rf 1; ds 1; rf 0; fs 1; cl')
    h('ring-full-drop-then-client-timeout', 'hb 1000000; as 1 1; we sr 1 6; fs 1; we ai 50 1 2 1; rf 1; ds 1; we ct 0; fs 1')
    h('ring-full-drop-publication-counter',
      'hb 1000000; ap 1 1; ac 1 2 3; we pr 1 1 1 5 3 4; we cr 2 9; fp 1; fc 2; rf 1; dp 1; dc 2; fp 1; fc 2; rf 0; fp 1; fc 2; we er 1 3; fp 1; cl')
    h('ring-full-add-and-close', 'hb 1000000; ap 1 1; rf 1; ap 2 2; as 2 2; ac 1 1 1; ad 0 1 1; fp 2; cl; rf 0; cl; ap 1 1')
    h('ring-full-then-drained', 'hb 1000000; rf 1; ap 1 1; rf 0; ap 1 1; fp 3; we pr 3 3 1 5 3 4; fp 3; dp 3')
    h('heartbeat-slot-reused-other-client', 'hb 1000000; hc 1; as 1 1; tk 501; w; we sr 1 6; fs 1; hc 3; tk 501; w; fs 1; ps 1')
    h('heartbeat-slot-reused-other-type', 'hb 1000000; hc 1; ac 1 2 3; tk 501; w; we cr 1 9; fc 1; hc 4; tk 501; w; fc 1; pc 1')
    h('heartbeat-slot-reused-after-lapped-timeout', 'hb 1000000; hc 1; tk 501; w; wl; hc 3; tk 501; w; ap 1 1; tk 501; w')
    h('heartbeat-slot-other-client-never-bound', 'hb 1000000; hc 3; tk 501; w; tk 501; w; hc 1; tk 501; w; hc 3; tk 501; w')
    h('client-timeout-foreign', 'hb 1000000; ap 1 1; we ct 77; fp 1; we ct 0; fp 1; we ct 0; w')
    # commands on the 512-byte boundary of the command buffer: exact fit is legal, one more is IllegalArgument and sends nothing
    h('command-exact-fit', 'hb 1000000; ap 1 1 488; ap 1 1 489; ap 1 1 487; as 1 1 480; as 1 1 481; as 1 1 479; ax 1 1 488; ax 1 1 489; ap 2 2 41; ap 2 2 600;'
      'ac 1 112 372; ac 1 112 373; ac 1 109 372; ac 1 109 373; ac 1 0 381; ac 1 0 380; ac 1 4 380; ac 1 5 380; fp 1; fs 3; we pr 1 1 1 5 3 4; fp 1; dp 1; ap 1 1')
    h('command-exact-fit-ring-full-closed', 'hb 1000000; rf 1; ap 1 1 488; ap 1 1 489; rf 0; ap 1 1 488; cl; ap 1 1 489; ap 1 1 488')
    # the user's own close() on a publication handle: the conductor is not involved, the drop still sends the one Remove
    h('publication-close-then-drop', 'hb 1000000; ap 1 1; we pr 1 1 1 5 3 4; cp 1; fp 1; cp 1; pp 1; fp 1; cp 1; pp 1; dp 1; fp 1; cp 1; ap 2 2; we pr 3 3 2 5 3 4; fp 3; dp 3')
    h('publication-close-then-client-close', 'hb 1000000; ap 1 1; ap 2 2; we pr 1 1 1 5 3 4; we pr 2 2 2 5 3 4; fp 1; fp 2; cp 1; cl; pp 1; pp 2; cp 2; dp 1; dp 2')
    h('publication-close-then-chan-error', 'hb 1000000; ap 1 1; we pr 1 1 1 5 3 6; fp 1; cp 1; we er 6 4; pp 1; fp 1; dp 1')
    h('publication-close-ring-full-drop', 'hb 1000000; ap 1 1; we pr 1 1 1 5 3 6; fp 1; cp 1; rf 1; dp 1; rf 0; fp 1; cp 1')
    # channel endpoint errors (ErrorResponse with error code 4; the id is a channel status indicator id, compared as i32)
    h('chan-error-sub-held-with-images', 'hb 1000000; as 1 1; we sr 1 6; fs 1; we ai 50 1 2 1; we ai 51 1 3 1; we er 6 4; ps 1; fs 1; we ai 52 1 2 1; we ui 50 1; ds 1; fs 1; cl')
    h('chan-error-sub-cached', 'hb 1000000; as 1 1; we sr 1 6; we ai 50 1 2 1; we er 6 4; fs 1; we ai 51 1 2 1; cl')
    h('chan-error-sub-zero-images-then-announcement', 'hb 1000000; as 1 1; we sr 1 6; fs 1; we er 6 4; ps 1; fs 1; we ai 50 1 2 1; ps 1; we ui 50 1; we er 6 4; ds 1; cl')
    h('chan-error-sub-cached-zero-images', 'hb 1000000; as 1 1; we sr 1 6; we er 6 4; fs 1; we ai 50 1 2 1; fs 1; as 1 1; we sr 2 6; fs 2; we ai 51 1 2 2; ps 2')
    h('chan-error-pub-held-and-never-looked-up', 'hb 1000000; ap 1 1; ap 2 2; we pr 1 1 1 5 3 6; we pr 2 2 2 5 3 6; fp 1; we er 6 4; pp 1; fp 1; fp 2; pp 2; dp 1; dp 2; we er 6 4; fp 2; cl')
    h('chan-error-several-resources', 'hb 1000000; as 1 1; as 2 2; ap 3 3; ap 4 4; ac 1 2 3; ad 0 3 5; we sr 1 6; we sr 2 6; we pr 3 3 3 5 3 6; we pr 4 4 4 5 3 7; we cr 5 6; we os 6;'
      'fs 2; fp 3; fp 4; fc 5; we ai 50 1 2 1; we ai 51 1 2 2; we ai 52 1 2 2; we er 6 4; ps 2; pp 3; pp 4; pc 5; fs 1; fs 2; fp 3; fp 4; fc 5; fd 6; we ai 53 1 2 2; we er 6 4; we er 7 4; pp 4; fp 4; cl')
    h('chan-error-id-truncated-to-i32', 'hb 1000000; as 1 1; ap 2 2; we sr 1 6; we pr 2 2 2 5 3 6; fs 1; fp 2; we er 4294967302 4; fs 1; fp 2; ps 1; pp 2')
    h('chan-error-negative-and-unknown-ids', 'hb 1000000; as 1 1; we sr 1 6; fs 1; we er -6 4; we er 7 4; we er 1 4; we er 0 4; fs 1; ps 1; as 2 2; we sr 2 -1; fs 2; we er -1 4; fs 2; we er 4294967295 4; fs 1')
    h('chan-error-awaiting-and-errored-untouched', 'hb 1000000; as 1 1; ap 2 2; as 3 3; we er 3 2; we er 6 4; we er 1 4; fs 1; fp 2; fs 3; we sr 1 6; we pr 2 2 2 5 3 6; fs 1; fp 2')
    h('chan-error-after-close', 'hb 1000000; as 1 1; we sr 1 6; fs 1; cl; we er 6 4; ps 1; fs 1; ds 1')
    h('chan-error-then-stall-closes', 'hb 1000000; as 1 1; as 2 2; we sr 1 6; we sr 2 7; fs 1; fs 2; we ai 50 1 2 1; we ai 51 1 2 2; tk 5001; hb 1005001; we er 6 4; ps 1; ps 2; fs 1')
    h('chan-error-dropped-handles', 'hb 1000000; as 1 1; ap 2 2; we sr 1 6; we pr 2 2 2 5 3 6; fs 1; fp 2; ds 1; dp 2; we er 6 4; fs 1; fp 2')
    h('chan-error-ring-full', 'hb 1000000; as 1 1; ap 2 2; we sr 1 6; we pr 2 2 2 5 3 6; fs 1; fp 2; rf 1; dp 2; we er 6 4; fp 2; ds 1; rf 0; fs 1; fp 2; ap 1 1')
    h('chan-error-driver-inactive-drop', 'hb 1000000; ap 1 1; we pr 1 1 1 5 3 6; fp 1; we er 6 4; tk 10001; w; dp 1; fp 1')
    h('error-code-4-vs-others-same-id', 'hb 1000000; as 6 6; we sr 1 1; fs 1; we er 1 3; fs 1; we er 1 4; fs 1; ps 1; we er 1 5; fs 1')
    # destination requests are stamped with the clock at the call, not with the time of the last duty cycle: duty cycle at T0, the four
    # requests at T0+4000, no answer; lookups at T0+T+1 (stale stamp would time out here), request+T (not yet) and request+T+1 (time-out)
    h('dest-timeout-from-request-not-last-cycle',
      'hb 1000000; as 1 1; w; tk 4000; ad 0 1 1; ad 1 1 2; ad 2 1 3; ad 3 1 4; tk 6001; fd 2; fd 3; fd 4; fd 5; tk 3999; fd 2; fd 3; fd 4; fd 5;'
      'tk 1; fd 2; fd 3; fd 4; fd 5; fd 2')
    for v in (0, 1, 2, 3):
        # the same per variant, with a duty cycle between request and lookups and an answer for a second request
        h('dest-timeout-boundary-variant-%d' % v,
          'hb 1000000; w; tk 2500; ad %d 7 1; tk 1500; w; ad %d 7 2; tk 6001; fd 1; fd 2; tk 2499; fd 1; tk 1; fd 1; fd 2; hb 1012501; we os 2; fd 2; tk 1500; fd 2; fd 1' % (v, v),
          cfg=(0, 1000000, 10000, 20000))
    # publications / subscriptions / counters requested some time after the last duty cycle (same clause)
    h('add-after-idle-timeout-from-request', 'hb 1000000; w; tk 4000; ap 1 1; as 1 1; ac 1 1 1; tk 6001; fp 1; fs 2; fc 3; tk 3999; fp 1; fs 2; fc 3; tk 1; fp 1; fs 2; fc 3')
    # the last handle goes away while another thread is inside the conductor (Dp / Ds / Dc: a helper thread holds the conductor mutex for
    # 150 ms): the destructor must wait and still send exactly one Remove command
    h('drop-while-conductor-locked', 'hb 1000000; ap 1 1; as 1 1; ac 1 1 1; we pr 1 1 1 5 3 4; we sr 2 6; we cr 3 9; fp 1; fs 2; fc 3; we ai 70 1 1 2; Dp 1; Ds 2; Dc 3; fp 1; fs 2; fc 3; Dp 1; Dc 3')
    h('drop-while-conductor-locked-after-close', 'hb 1000000; ap 1 1; ac 1 1 1; we pr 1 1 1 5 3 4; we cr 2 9; fp 1; fc 2; cl; Dp 1; Dc 2; fp 1')
    # the client id is a value of the driver's 64-bit correlation counter: heartbeat counter found / lost / slot reused with ids beyond 32 bits
    for c0 in (2 ** 31, 2 ** 32 + 5, 2 ** 40):
        a = c0 + 1
        h('heartbeat-lost-client-id-%d' % c0, 'hb 1000000; hc 1; as 1 1; tk 501; w; we sr %d 6; fs %d; tk 501; w; hc 2; tk 501; w; fs %d; ps %d; tk 501; w' % (a, a, a, a),
          cfg=(c0, 1000000, 10000, 5000))
        h('heartbeat-slot-reused-other-client-id-%d' % c0, 'hb 1000000; hc 1; as 1 1; tk 501; w; we sr %d 6; fs %d; hc 3; tk 501; w; fs %d; ps %d' % (a, a, a, a),
          cfg=(c0, 1000000, 10000, 5000))
    # an ERROR event whose offending id is an ALREADY REGISTERED resource (the driver answers twice / late): on_error_response marks it Errored,
    # but a handle that exists keeps being handed out, and close / client time-out still closes it (callbacks exactly once)
    h('error-for-registered-counter-held', 'hb 1000000; ac 1 1 1; we cr 1 9; fc 1; we er 1 3; fc 1; pc 1; fc 1; cl; pc 1; fc 1')
    h('error-for-registered-counter-held-client-timeout', 'hb 1000000; ac 1 1 1; ac 2 2 2; we cr 1 9; we cr 2 8; fc 1; fc 2; we er 1 3; fc 1; fc 2; we ct 0; pc 1; pc 2; fc 1')
    h('error-for-registered-counter-cached', 'hb 1000000; ac 1 1 1; we cr 1 9; we er 1 3; fc 1; pc 1; fc 1; we ct 0; pc 1')
    h('error-for-registered-counter-cached-then-stall', 'hb 1000000; ac 1 1 1; we cr 1 9; we er 1 3; fc 1; tk 5001; hb 1005001; w; pc 1; fc 1')
    h('error-for-registered-publication-held', 'hb 1000000; ap 1 1; we pr 1 1 1 5 3 4; fp 1; we er 1 3; fp 1; pp 1; cl; pp 1; fp 1')
    h('error-for-registered-publication-not-looked-up', 'hb 1000000; ap 1 1; we pr 1 1 1 5 3 4; we er 1 3; fp 1; fp 1; cl')
    h('error-for-registered-subscription-held', 'hb 1000000; as 1 1; we sr 1 6; fs 1; we ai 50 1 2 1; we er 1 3; fs 1; ps 1; cl; ps 1; fs 1')
    h('error-for-registered-subscription-cached', 'hb 1000000; as 1 1; we sr 1 6; we ai 50 1 2 1; we er 1 3; fs 1; ps 1; fs 1; we ct 0; ps 1')
    h('error-for-registered-destination', 'hb 1000000; ad 0 1 1; we os 1; fd 1; we er 1 3; fd 1; fd 1')
    if has_find_excl_hook():
        h('chan-error-xpub', 'hb 1000000; ax 1 1; ax 2 2; ax 3 3; we xr 1 1 5 3 6; we xr 2 2 5 3 6; we xr 3 3 5 3 7; fx 1; fx 3; we er 6 4; px 1; fx 1; fx 2; fx 3; px 3; dx 1; we er 6 4; fx 2; cl')
    if has_find_excl_hook():
        # exclusive publications looked up / peeked at / dropped through the hook find_exclusive_publication_for_verif
        h('xpub-timeout-vs-notready', 'hb 1000000; ax 1 1; fx 1; tk 10000; fx 1; tk 1; fx 1; we xr 1 1 5 3 4; fx 1')
        h('xpub-lifecycle', 'hb 1000000; ax 4 9; fx 1; we xr 1 9 5 3 4; fx 1; fx 1; px 1; we xr 1 9 6 7 8; fx 1; px 1; dx 1; fx 1; dx 1')
        h('xpub-error-once', 'hb 1000000; ax 4 9; we er 1 3; fx 1; fx 1; ax 4 9; we er 3 5; we xr 3 9 5 3 4; fx 3; fx 3')
        h('xpub-wrong-map', 'hb 1000000; ap 1 1; ax 1 1; we pr 1 1 1 5 3 4; we xr 2 1 6 7 8; fx 1; fp 2; fx 2; fp 1; px 2; pp 1; we pr 2 2 1 1 1 1; we xr 1 1 1 1 1; px 2; pp 1')
        h('xpub-close', 'hb 1000000; ax 4 9; ax 5 9; we xr 1 9 5 3 4; we xr 2 9 6 7 8; fx 1; cl; px 1; fx 1; fx 2; dx 1; dx 2; ax 1 1')
        h('xpub-client-timeout', 'hb 1000000; ax 4 9; we xr 1 9 5 3 4; fx 1; we ct 0; px 1; fx 1; dx 1; w')
        h('xpub-ring-full-drop', 'hb 1000000; ax 4 9; we xr 1 9 5 3 4; fx 1; rf 1; dx 1; fx 1; rf 0; fx 1; cl')
        h('xpub-close-then-drop', 'hb 1000000; ax 1 1; we xr 1 1 5 3 4; cx 1; fx 1; cx 1; px 1; fx 1; dx 1; fx 1; cx 1; ax 2 2 488; we xr 3 2 5 3 4; fx 3; cx 3; cl; px 3; dx 3')
        h('xpub-drop-while-conductor-locked', 'hb 1000000; ax 4 9; we xr 1 9 5 3 4; fx 1; Dx 1; fx 1; Dx 1; ax 4 9; we xr 3 9 5 3 4; fx 3; cx 3; Dx 3')
        h('error-for-registered-xpub', 'hb 1000000; ax 4 9; ax 5 9; we xr 1 9 5 3 4; we xr 2 9 5 3 4; fx 1; we er 1 3; we er 2 3; fx 1; px 1; fx 2; fx 2; cl; px 1')
        h('xpub-same-while-held', 'hb 1000000; ax 4 9; ax 4 9; we xr 2 9 5 3 4; we xr 1 9 5 3 4; fx 2; fx 1; fx 2; fx 1; px 1; px 2; dx 2; fx 1; fx 2')
    return [conv(c) for c in H]


def with_locked_drops(case, rng):
    """A variant of the history in which handle drops happen while another thread holds the conductor mutex (harness ops Dp / Dx / Ds / Dc,
    150 ms each): the observation must be that of the plain drop. At most four per history (time)."""
    ops, k = [], 0
    for o in case['ops']:
        if o[0] in ('dp', 'dx', 'ds', 'dc') and k < 4 and rng.random() < 0.7:
            ops.append(['D' + o[0][1]] + list(o[1:]))
            k += 1
        else:
            ops.append(o)
    return dict(case, ops=ops)


def shrink(c):
    """Remove one operation, or halve a number."""
    out = []
    ops = c['ops']
    for i in range(len(ops)):
        out.append({'kind': c['kind'], 'cfg': c['cfg'], 'ops': ops[:i] + ops[i + 1:]})
    if len(ops) > 4:
        out.append({'kind': c['kind'], 'cfg': c['cfg'], 'ops': ops[:len(ops) // 2]})
        out.append({'kind': c['kind'], 'cfg': c['cfg'], 'ops': ops[:-1]})
    return out
