"""C06 - command ring: each written command is read exactly once, intact, in order."""
import itertools

from vlib import core
from vlib.term import z, to_coq
from props import ringlib as R

ID = 'C06'
PROP_FILE = 'Props/C06.v'
EXTRA_PROP_FILES = ['Props/C06Src.v']     # K1 source tie (tools/props/src_translate.py), see docs/reports/SRC.md
EVAL_FILES = ['Oracle/C06Oracle.v', 'Model/RingThreads.v', 'Oracle/C06ProxyOracle.v']
CRATES = ['c06']
MODES = ['debug', 'release']
IMPORTS = ('Require Import V.Model.WireBytes V.Model.WireCodes V.Model.WireCommands V.Oracle.C13Oracle V.Oracle.C06ProxyOracle. '
           'Require Import V.Base.MachineInt V.Model.LogBase V.Model.Ring V.Model.RingThreads V.Spec.Fifo V.Oracle.C06Oracle.')
RULE = ('seq: operation sequences on one ring (write lengths 0..cap/8+1, read limits {0,1,2,max}, size, next id, heartbeat, '
        'unblock, dump after every op for small rings); length-6 sequences over {write len, read limit} for cap in {8,16,32,64} '
        '(thorough: exhaustive for cap 8, up to 20000 for cap 16, 12000 samples for 32 and 64; quick: stratified sample) with the start rotating over every '
        '8-aligned index of the ring, plus starts at positions next to 2^31 and 2^32 and with a stale head cache; random sequences up to '
        '500 ops for cap <= 4096; malformed stream (type -1, over-long, negative limit). '
        'conc: 2-3 producer threads x 1-3 writes + a consumer thread under the deterministic scheduler on the access hook: random '
        'schedules (uniform and bursty) + all schedules with at most one pre-emption for three fixed programs; trace of hook events, '
        'per-thread results, drain reads and final dump compared with the model. '
        'every write (seq and conc) takes its payload from offset 8, 16 or 0 of a larger source buffer filled with 0xA5. '
        'proxy: 2-3 client threads issue 1-3 different commands each through ONE DriverProxy on one ring under the scheduler (parked '
        'before every access to the ring: next_correlation_id, claim, header, copy, commit): every order of the first steps, one '
        'pre-emption at every step, random schedules; the records drained at the end are judged by holds_proxy (no model run). '
        'non-trivial = seq: the writes pass the end of the data area and something is read; conc, proxy: every case')
ASSUMPTIONS = [
    'known finding refusal-on-stale-tail (KNOWN_FINDINGS.txt): a refusal decided by the wrap check of a caller that was overtaken between its tail read and its head re-read is reported as KNOWN-FINDING, every other unjustified refusal is a violation',
    'message type ids are the command codes AeronCommand::from_command_id maps back (1..14, 0xF01..0xF0A); 0xF9 is C14\'s business',
    'write lengths are 0..cap/8 (+1 for the TooLong stream); negative lengths belong to C16',
    'the preset head cache may be arbitrarily stale (any value in [0, head]); positions stay below 2^62',
    'conc: sequentially consistent interleaving at the granularity of AtomicBuffer accessors; every write of a case has its own type id',
]


def _mk(cap, p0, ops, hc0=None, c0=0, dumps=True):
    ops = R.number_writes(ops)
    if dumps:
        ops = R.with_dumps(ops)
    else:
        ops = ops + [['d']]
    return {'kind': 'seq', 'cap': cap, 'p0': p0, 'hc0': p0 if hc0 is None else hc0, 'c0': c0, 'ops': ops}


def _alphabet(cap):
    return [['w', 1, l, 0] for l in range(0, cap // 8 + 1)] + [['r', 0], ['r', 1], ['r', 2], ['r', R.INF]]


def generate(rng, tier):
    big = tier == 'thorough'
    cases = []
    # boundary cases first
    for cap in (8, 16, 32, 64):
        for p0 in (0, 8, cap - 8, cap, 2**31 - 8, 2**31, 2**32 - 8, 2**32, 2**40 + cap - 16):
            ops = [['w', 1, cap // 8, 0], ['w', 2, 0, 0], ['r', 1], ['w', 3, 1, 0], ['s'], ['r', R.INF], ['r', R.INF], ['u'], ['i'], ['i'], ['h', 12345678901]]
            cases.append(_mk(cap, p0, ops, c0=2**63 - 1 if p0 == 8 else 7))
            cases.append(_mk(cap, p0, ops, hc0=max(0, p0 - cap)))
            if p0 >= 2**32:
                # head cache stale by about 4 GiB: the 64-bit comparison must not be fooled
                cases.append(_mk(cap, p0, [['w', 1, 0, 0]] * (cap // 8 + 2) + [['r', R.INF]], hc0=p0 - 2**32 + 8))
                cases.append(_mk(cap, p0, ops, hc0=p0 - 2**32))
            cases.append(_mk(cap, p0, [['w', 1, cap // 8 + 1, 0], ['w', -1, 0, 0], ['w', 14, 0, 0], ['r', -1], ['r', 1]]))
    # head cache stale by about one lap: the cache was refreshed to a position with a large index, the consumer then
    # moved into the next lap (small index), the producers filled the ring up to `a` bytes before the end of the data
    # area without another refresh; the next record (rq bytes) does not fit behind the tail, the first capacity check
    # fails on the cache and passes on the real head, and the front check must use the *refreshed* head:
    # refused iff b < rq, where b is the real head index.  (cache index = cap - a >= rq always.)
    cases += lap_stale_cases(rng, big)
    # exhaustive / sampled short sequences over the write-length x read-limit alphabet
    for cap in (8, 16, 32, 64):
        alpha = _alphabet(cap)
        n = 6
        total = len(alpha) ** n
        starts = list(range(0, cap, 8))
        if big:
            budget = {8: total, 16: min(total, 20000), 32: 12000, 64: 12000}[cap]     # sized so that the thorough tier ends in about a quarter of an hour
        else:
            budget = {8: 200, 16: 350, 32: 500, 64: 650}[cap]
        if budget >= total:
            seqs = itertools.product(range(len(alpha)), repeat=n)
        else:
            seqs = (tuple(rng.randrange(len(alpha)) for _ in range(n)) for _ in range(budget))
        for i, s in enumerate(seqs):
            p0 = starts[i % len(starts)] if budget >= total else rng.choice(starts)
            cases.append(_mk(cap, p0, [list(alpha[j]) for j in s]))
    # random long sequences
    for _ in range(30 if not big else 600):
        cap = rng.choice([64, 128, 256, 1024, 4096])
        n = rng.choice([20, 60, 150, 500]) if big else rng.choice([20, 60, 150])
        p0 = 8 * rng.randrange(0, cap // 8) + rng.choice([0, 0, 2**31 - cap, 2**32 - cap, 2**33])
        ops = []
        maxl = cap // 8
        wbias = rng.choice([0.5, 0.65, 0.8])
        for _ in range(n):
            x = rng.random()
            if x < wbias:
                l = rng.choice([0, 1, 7, 8, 9, maxl, maxl - 1, rng.randrange(0, maxl + 1), rng.randrange(0, maxl + 1)])
                ops.append(['w', rng.choice(R.CMDS), max(0, l), 0])
            elif x < 0.93:
                ops.append(['r', rng.choice([0, 1, 2, 3, 5, R.INF])])
            else:
                ops.append(rng.choice([['s'], ['i'], ['u'], ['h', rng.randrange(0, 2**62)], ['d']]))
        cases.append(_mk(cap, p0, ops, dumps=False, c0=rng.choice([0, 2**63 - 2, -5, rng.randrange(0, 2**62)]),
                         hc0=rng.choice([p0, p0, max(0, p0 - cap), max(0, p0 - 2**32 + 8), max(0, p0 - 2**31), 0])))
    # malformed stream: too long, non-positive type
    for _ in range(30 if not big else 300):
        cap = rng.choice([8, 16, 64, 256])
        ops = []
        for _ in range(8):
            ops.append(rng.choice([['w', -1, rng.randrange(0, 3), 0], ['w', 1, cap // 8 + rng.randrange(1, 5), 0],
                                   ['w', rng.choice(R.CMDS), rng.randrange(0, cap // 8 + 1), 0], ['r', rng.choice([-1, 0, 1, R.INF])]]))
        cases.append(_mk(cap, 8 * rng.randrange(0, 64), ops))
    cases += gen_conc(rng, tier)
    cases += gen_proxy(rng, tier)
    rng.shuffle(cases)
    return cases


def lap_stale_cases(rng, big):
    out = []
    for cap in (32, 64, 128, 1024):
        maxl = cap // 8
        lens = sorted({maxl, maxl - 1, max(1, maxl // 2), 1, 9})
        for ln in lens:
            if ln > maxl:
                continue
            rq = R.align8(ln + 8)
            for a in range(8, rq, 8):                 # bytes left behind the tail: the record does not fit
                bs = [b for b in range(0, rq + 9, 8) if a + b >= rq and a + b <= cap - 16]
                if not big and len(bs) > 3:
                    bs = [bs[0], bs[len(bs) // 2], bs[-1]]
                for b in bs:                          # real head index: b < rq -> must be refused, b >= rq -> accepted
                    for lap in ((1, 2**22 + 1) if big else (1,)):
                        w_end = (lap + 1) * cap
                        hc = w_end - cap - a          # start position = head cache for the whole prelude
                        if hc < 0 or cap - a < rq:
                            continue
                        ops = []
                        ops += [['w', 1, 0, 0]] * ((a + b) // 8)          # tail -> w_end - cap + b
                        ops += [['r', R.INF], ['r', R.INF]]                # head -> w_end - cap + b
                        ops += [['w', 2, 0, 0]] * ((cap - a - b) // 8)                # tail -> w_end - a, no refresh
                        ops += [['w', 3, ln, 0], ['s']]                    # the write in question
                        ops += [['r', R.INF], ['r', R.INF], ['r', R.INF], ['w', 4, 0, 0], ['r', R.INF]]
                        out.append(_mk(cap, hc, ops, hc0=hc, dumps=(cap <= 64)))
    if not big and len(out) > 110:
        keep = [c for c in out if c['cap'] <= 64]
        rest = [c for c in out if c['cap'] > 64]
        rng.shuffle(rest)
        out = keep + rest[:max(0, 110 - len(keep))]
    return out


def _conc(cap, p0, pre, limits, progs, sched, post=None, stops=None):
    return {'kind': 'conc', 'cap': cap, 'p0': p0, 'hc0': p0, 'c0': 0, 'pre': pre, 'limits': limits, 'progs': progs,
            'sched': sched, 'stops': stops if stops is not None else [-1] * (len(progs) + 1),
            'post': post if post is not None else [['r', R.INF], ['r', R.INF], ['d']]}


def gen_conc(rng, tier):
    big = tier == 'thorough'
    cases = []
    nrand = 300 if not big else 2500
    for i in range(nrand):
        cap = rng.choice([32, 64, 64, 128])
        nprod = rng.choice([2, 2, 3])
        nw = [rng.randrange(1, 4) for _ in range(nprod)]
        types = R.fresh_types(rng, sum(nw))
        progs, k = [], 0
        for n in nw:
            prog = []
            for _ in range(n):
                prog.append([types[k], rng.choice([0, 1, 7, 8, cap // 8, rng.randrange(0, cap // 8 + 1)]), k])
                k += 1
            progs.append(prog)
        limits = [rng.choice([1, 2, R.INF]) for _ in range(rng.randrange(1, 4))]
        p0 = rng.choice([0, cap - 8, cap - 16, cap - 24, 8 * rng.randrange(0, cap // 8), 2**32 - 16])
        pre = []
        if rng.random() < 0.3:
            pre = [['w', 14, rng.randrange(0, cap // 8 + 1), 99], ['r', 1]] if rng.random() < 0.5 else [['w', 14, cap // 8, 99]]
        nthreads = nprod + 1
        sched = [rng.randrange(0, nthreads) for _ in range(rng.choice([10, 30, 60, 120]))]
        if rng.random() < 0.5:
            # bursts: longer runs of one thread
            sched = []
            for _ in range(12):
                sched += [rng.randrange(0, nthreads)] * rng.randrange(1, 12)
        cases.append(_conc(cap, p0, pre, limits, progs, R.rle(sched)))
    # all schedules with at most one pre-emption for a few fixed programs
    fixed = [
        (32, 8, [], [R.INF], [[[1, 0, 0]], [[2, 8 - 8, 1]]]),
        (32, 16, [], [1, R.INF], [[[1, 4, 0], [3, 0, 2]], [[2, 1, 1]]]),
        (64, 40, [['w', 14, 8, 99]], [2, R.INF], [[[1, 8, 0]], [[2, 3, 1], [4, 0, 3]]]),
    ]
    for cap, p0, pre, limits, progs in fixed if not big else fixed * 1:
        scheds = R.one_preemption_schedules(len(progs) + 1, max_steps=40 if big else 26, every=1)
        for s in scheds:
            cases.append(_conc(cap, p0, pre, limits, progs, s))
    return cases


# ---- commands through one DriverProxy shared by several threads ---------------------------------------------
def _req_token(r):
    k = r['kind']
    if k == 'addpub':
        return 'addpub:%d:%d:%d:%d' % (1 if r['excl'] else 0, r['stream'], r['ck'], r['cn'])
    if k == 'addsub':
        return 'addsub:%d:%d:%d' % (r['stream'], r['ck'], r['cn'])
    if k == 'remove':
        return 'remove:%d:%d' % (r['k'], r['reg'])
    if k == 'dest':
        return 'dest:%d:%d:%d:%d' % (r['k'], r['reg'], r['ck'], r['cn'])
    if k == 'counter':
        return 'counter:%d:%d:%d:%d:%d' % (r['type'], r['kk'], r['kn'], r['lk'], r['ln'])
    if k in ('keepalive', 'close'):
        return k
    if k == 'terminate':
        return 'terminate:%d:%d' % (r['tk'], r['tn'])
    raise ValueError(r)


def _req_coq(r):
    k = r['kind']
    if k == 'addpub':
        return 'RqAddPublication %s (cstr %s %s) %s' % ('true' if r['excl'] else 'false', z(r['ck']), z(r['cn']), z(r['stream']))
    if k == 'addsub':
        return 'RqAddSubscription (cstr %s %s) %s' % (z(r['ck']), z(r['cn']), z(r['stream']))
    if k == 'remove':
        return 'RqRemove %s %s' % (['RmPublication', 'RmSubscription', 'RmCounter'][r['k']], z(r['reg']))
    if k == 'dest':
        return 'RqDestination %s %s (cstr %s %s)' % (['DsAdd', 'DsRemove', 'DsAddRcv', 'DsRemoveRcv'][r['k']], z(r['reg']), z(r['ck']), z(r['cn']))
    if k == 'counter':
        return 'RqAddCounter %s (blob %s %s) (cstr %s %s)' % (z(r['type']), z(r['kk']), z(r['kn']), z(r['lk']), z(r['ln']))
    if k == 'keepalive':
        return 'RqKeepalive'
    if k == 'close':
        return 'RqClientClose'
    if k == 'terminate':
        return 'RqTerminateDriver (blob %s %s)' % (z(r['tk']), z(r['tn']))
    raise ValueError(r)


def _rand_req(rng, i):
    k = rng.choice(['addpub', 'addpub', 'addsub', 'addsub', 'remove', 'dest', 'counter', 'keepalive', 'close'])
    if k == 'addpub':
        return {'kind': k, 'excl': rng.random() < 0.3, 'stream': 1000 + 17 * i + rng.randrange(0, 5), 'ck': 3 * i + 1, 'cn': rng.choice([1, 8, 21, 40, 90])}
    if k == 'addsub':
        return {'kind': k, 'stream': 2000 + 13 * i, 'ck': 5 * i + 2, 'cn': rng.choice([3, 12, 33, 70])}
    if k == 'remove':
        return {'kind': k, 'k': rng.randrange(0, 3), 'reg': 10**9 + 7 * i}
    if k == 'dest':
        return {'kind': k, 'k': rng.randrange(0, 4), 'reg': 5 * 10**8 + i, 'ck': 7 * i + 3, 'cn': rng.choice([5, 30, 64])}
    if k == 'counter':
        return {'kind': k, 'type': 100 + i, 'kk': i + 1, 'kn': rng.choice([0, 3, 8, 17]), 'lk': 11 * i + 4, 'ln': rng.choice([0, 6, 31])}
    return {'kind': k}


def _proxy(cap, c0, progs, sched):
    return {'kind': 'proxy', 'cap': cap, 'c0': c0, 'progs': progs, 'sched': sched}


def gen_proxy(rng, tier):
    big = tier == 'thorough'
    BIG = 400
    cases = []
    # two threads, different commands of different lengths: every split of the first thread's steps by the second
    a = {'kind': 'addpub', 'excl': False, 'stream': 1001, 'ck': 1, 'cn': 40}
    b = {'kind': 'addsub', 'stream': 2002, 'ck': 2, 'cn': 12}
    c = {'kind': 'remove', 'k': 0, 'reg': 123456789012}
    for first, second in ((a, b), (b, a), (a, c), (c, a)):
        for j in range(0, 11):
            for j2 in (1, 2, BIG):
                cases.append(_proxy(1024, 7, [[first], [second]], [[0, j], [1, j2], [0, BIG], [1, BIG]]))
    # commands on both sides of the ring's max message length (capacity / 8), which is below the proxy's 512-byte scratch buffer
    # for small rings: an Ok answer must put exactly that record in front of the consumer, an Err answer nothing
    for cap, lens in ((1024, (103, 104, 105, 200, 480)), (2048, (231, 232, 233, 480)), (4096, (480, 488, 489))):
        for cn in lens:
            long_pub = {'kind': 'addpub', 'excl': False, 'stream': 77, 'ck': 9, 'cn': cn}
            long_sub = {'kind': 'addsub', 'stream': 78, 'ck': 10, 'cn': cn - 8}
            for first, second in ((long_pub, c), (c, long_pub), (long_sub, b), (long_pub, long_sub)):
                for j in (0, 1, 3, BIG):
                    cases.append(_proxy(cap, 7, [[first, c], [second]], [[0, j], [1, 2], [0, BIG], [1, BIG]]))
    for i in range(120 if not big else 1200):
        nthr = rng.choice([2, 2, 3])
        k = 0
        progs = []
        for _ in range(nthr):
            prog = []
            for _ in range(rng.randrange(1, 4)):
                prog.append(_rand_req(rng, k))
                k += 1
            progs.append(prog)
        sched = [[rng.randrange(0, nthr), rng.choice([1, 1, 2, 3, 5, 9])] for _ in range(rng.randrange(2, 16))]
        cases.append(_proxy(rng.choice([1024, 1024, 4096]), rng.choice([0, 7, 2**40, -5]), progs, sched))
    return cases


def impl_line(c):
    if c['kind'] == 'proxy':
        return 'proxy %d %d %s sched=%s' % (c['cap'], c['c0'], ' '.join('thr=' + '|'.join(_req_token(r) for r in p) for p in c['progs']),
                                         ','.join('%d*%d' % (t, n) for t, n in c['sched']))
    if c['kind'] == 'seq':
        return R.seq_line(c)
    if c['kind'] == 'conc':
        return R.conc_line(c)
    raise ValueError(c)


def model_expr(c, mode):
    if c['kind'] == 'proxy':
        return None
    if c['kind'] == 'seq':
        return 'snd (run %s %s %s)' % (R.mode_c(mode), R.seq_init(c), R.ops_coq(c['ops']))
    if c['kind'] == 'conc':
        return R.conc_model(c, mode)
    raise ValueError(c)


def oracle_expr(c, mode, obs):
    if c['kind'] == 'proxy':
        if isinstance(obs, int) or obs[0] != 'tuple' or len(obs[1]) != 2:
            return 'false'
        progs = '[' + '; '.join('[' + '; '.join(_req_coq(r) for r in p) + ']' for p in c['progs']) + ']'
        return 'holds_proxy %s %s %s %s' % (z(c['c0']), progs, to_coq(obs[1][0]), to_coq(obs[1][1]))
    if c['kind'] == 'seq':
        return 'holds_seq %s %s %s %s %s %s' % (z(c['cap']), z(c['p0']), z(c['hc0']), z(c['c0']), R.ops_coq(c['ops']), to_coq(obs))
    if c['kind'] == 'conc':
        return 'holds_conc %s %s %s %s %s %s' % (z(c['cap']), z(c['p0']), R.ops_coq(c['pre']), R.progs_coq(c), R.ops_coq(c['post']), to_coq(obs))
    raise ValueError(c)


normalize = R.normalize

_known_cache = {}


def known_class(c, mode, obs):
    """refusal-on-stale-tail: decided by the Coq predicate KnownClass_refusal_on_stale_tail_obs on the implementation's observation
    (everything else holds, some InsufficientCapacity answer is not justified at any instant of its call, and every such answer
    was decided by a caller whose tail read had been overtaken when it re-read the head)."""
    if c.get('kind') != 'conc' or isinstance(obs, int):
        return None
    text = to_coq(obs)
    if 'InsufficientCapacity' not in text:
        return None          # cheap pre-filter: the class needs a refused write
    key = (c['cap'], c['p0'], R.ops_coq(c['pre']), R.progs_coq(c), R.ops_coq(c['post']), text)
    if key not in _known_cache:
        try:
            v = core.coq_eval('C06_known_%d' % (len(_known_cache) % 8), IMPORTS,
                              ['KnownClass_refusal_on_stale_tail_obs %s %s %s %s %s %s' % (z(c['cap']), z(c['p0']), key[2], key[3], key[4], text)])
            _known_cache[key] = v[0] == ('app', 'true', [])
        except Exception:
            _known_cache[key] = False
    return 'refusal-on-stale-tail' if _known_cache[key] else None


def nontrivial(c):
    if c['kind'] == 'seq':
        tot = sum(R.align8(o[2] + 8) for o in c['ops'] if o[0] == 'w' and o[1] >= 1 and o[2] <= c['cap'] // 8)
        return (c['p0'] % c['cap']) + tot > c['cap'] and any(o[0] == 'r' for o in c['ops'])
    return True


def shrink(c):
    out = []
    if c['kind'] == 'seq':
        ops = c['ops']
        for i in range(len(ops)):
            d = dict(c)
            d['ops'] = ops[:i] + ops[i + 1:]
            out.append(d)
        for half in (ops[:len(ops) // 2], ops[len(ops) // 2:]):
            d = dict(c)
            d['ops'] = half
            out.append(d)
    return out
