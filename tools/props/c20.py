"""C20 - Multi-image subscription polling: bounded, fair, and sessions never mix."""
import os

from vlib import core
from vlib.term import z, to_coq
from props import c05

ID = 'C20'
PROP_FILE = 'Props/C20.v'
EXTRA_PROP_FILES = ['Props/C20Src.v']     # K1 source tie (tools/props/src_translate.py), see docs/reports/SRC.md
EVAL_FILES = ['Oracle/C20Oracle.v']
CRATES = ['c20']
MODES = ['debug', 'release']
IMPORTS = ('Require Import V.Base.MachineInt V.Model.LogBase V.Model.Reader V.Model.Image V.Model.Subscription '
           'V.Model.Assembler V.Model.BufferBuilder V.Model.AssemblerBB V.Oracle.C05Cases V.Oracle.C05Oracle V.Oracle.C20Cases V.Oracle.C20Oracle.')
RULE = ('histories of 4-11 operations on a Subscription obtained from the conductor with 1-5 images (each on its own log '
        'file, distinct session ids incl. i32::MIN/MAX, own geometry position: term counts {0,1,2,65536,2^31-2}, random aligned '
        'start offsets, start possibly in the middle of a fragmented message): Subscription::poll through a FragmentAssembler '
        '(initial buffer lengths default, 0, 1, 2, 32, 33, 64, 100, 4096), Subscription::controlled_poll with handler answers chosen per frame offset, '
        'Subscription::block_poll, frames committed in steps between calls (per-image backlogs 0..14 frames), add_image / '
        'remove_image between calls (on_available_image / on_unavailable_image), fragment limits {0,1,2,3,10,MAX,-1}; frame '
        'streams: unfragmented, BEGIN/MIDDLE*/END runs with payloads 1..160, padding, claimed tail; a malformed stream '
        '(END without BEGIN, BEGIN after BEGIN, MIDDLE alone, empty BEGIN payload, unfragmented inside a run). '
        'kind padded: images standing on (or reaching) the padding frame that closes their term, the publisher continuing in the next '
        'term (roll), images added / removed at every point of the round-robin (kind rotate); '
        'kind bb: one BufferBuilder::new(initial length in {0,1,2,31..129,4096,65536,2^20,negative,2^31,2^32+5,2^40,2^62,2^62+1,i64::MIN}) '
        'then 3-12 of append(0..30000 bytes) / reset / set_limit, observing limit, capacity and the bytes [32, limit); '
        'kind find (only when the repository carries hooks/sub.diff): find_suitable_capacity on capacities / requirements around '
        '2, 64, 2^30, BB_SAFE = 1431655765, MAX = 2147483639 and i32::MAX. '
        'non-trivial = at least two images and two polls, or a builder case that grows at least once; distinct = distinct case descriptions')
ASSUMPTIONS = [
    'session ids of the images of one subscription are distinct (the driver creates one image per session)',
    'every frame of an image log carries the session id of that image',
    'one polling thread per subscription; add / remove of images happen between polls (AtomicVec is not exercised concurrently here)',
    'BufferBuilder is modelled as the code is (Model/BufferBuilder.v, numbers regenerated from the source by tools/props/c20_translate.py); its source pointer arithmetic and the allocator are trusted; appends beyond BB_SAFE = 1431655765 bytes (debug and release builds differ there) are reachable only through the find_suitable_capacity hook',
] + c05.ASSUMPTIONS[:3]
PER_CASE_TIMEOUT = 1.0
CHUNK = 20

MAXI = 2**31 - 1
MINI = -2**31


def mode_c(mode):
    return 'Debug' if mode == 'debug' else 'Release'


def gen_stream(rng, budget, malformed):
    out = []
    used = 0
    k = rng.randrange(1, 1000)
    n = rng.choice([0, 1, 2, 3, 5, 8, 14])
    while len(out) < n:
        r = rng.random()
        group = []
        if r < 0.40:
            group.append([1, 192, 32 + rng.choice([0, 1, 31, 32, 33, 100, rng.randrange(0, 200)]), k, 0])
        elif r < 0.80:
            mp = rng.choice([32, 64, 96, 160])
            mids = rng.choice([0, 0, 1, 2, 3])
            group.append([1, 128, 32 + mp, k, 0])
            for j in range(mids):
                group.append([1, 0, 32 + mp, k + 1 + j, 0])
            group.append([1, 64, 32 + rng.choice([1, mp // 2, mp]), k + 1 + mids, 0])
        elif r < 0.88:
            group.append([0, 0, 32 * rng.choice([1, 2, 3]), 0, 0])
        elif malformed:
            kind = rng.randrange(5)
            if kind == 0:
                group.append([1, 64, 32 + rng.randrange(1, 60), k, 0])
            elif kind == 1:
                group.append([1, 128, 32 + rng.randrange(1, 60), k, 0])
            elif kind == 2:
                group.append([1, 0, 32 + rng.randrange(1, 60), k, 0])
            elif kind == 3:
                group += [[1, 128, 32, k, 0], [1, 0, 40, k + 1, 0], [1, 64, 40, k + 2, 0]]
            else:
                group += [[1, 128, 64, k, 0], [1, 192, 50, k + 1, 0], [1, 64, 40, k + 2, 0]]
        else:
            group.append([1, 192, 32 + rng.randrange(0, 120), k, 0])
        need = sum(c05.al(g[2]) for g in group)
        if used + need > budget:
            break
        out += group
        used += need
        k += len(group) + 1
    return out, used


def gen_case(rng, malformed=False, padded=False):
    """padded: some images sit on (or reach) the padding frame that closes their term; the publisher then continues in the
    next term (op 'roll'), so that an image whose poll does not leave the padding frame is never served again."""
    nslots = rng.choice([1, 2, 2, 3, 3, 4, 5])
    sessions = [11, -22, 33, MAXI, MINI, 0, 7]
    rng.shuffle(sessions)
    slots = []
    rolls = []
    for i in range(nslots):
        bits = 16
        tl = 1 << bits
        init = rng.choice([0, 1, -1, MAXI, MINI, rng.randrange(MINI, MAXI + 1)])
        n = rng.choice([0, 0, 1, 2, 65536, 2**31 - 2])
        frames, used = gen_stream(rng, 6000, malformed)
        off = 32 * rng.randrange(0, (tl - used) // 32 + 1) if rng.random() < 0.7 else 0
        if rng.random() < 0.1:
            off = tl - used
        pad_here = padded and (i == 0 or rng.random() < 0.5)
        if pad_here:
            if rng.random() < 0.6:
                off = tl - used - 32 * rng.choice([1, 1, 2, 3, 10, 100])
            if tl - off - used >= 32:
                frames = frames + [[0, 0, tl - off - used, 0, 0]]
        vis = rng.choice([0, len(frames), rng.randrange(0, len(frames) + 1), rng.randrange(0, len(frames) + 1)])
        if pad_here:
            vis = rng.choice([len(frames), len(frames), max(0, len(frames) - 1)])
        seg = [n, off, vis, rng.choice([0, 0, 1]), frames]
        bs = c05.boundaries(seg, tl)
        pos0 = bs[0] if rng.random() < 0.7 else rng.choice(bs)
        if pad_here and len(frames) >= 1 and rng.random() < 0.6:
            pos0 = bs[-2]          # caught up: exactly on the padding frame (or the last frame) that closes the term
        slots.append([bits, init, sessions[i], pos0, seg])
        if pad_here:
            nf, _ = gen_stream(rng, 3000, False)
            if not nf:
                nf = [[1, 192, 32 + rng.choice([1, 40, 100]), rng.randrange(1, 1000), 0]]
            rolls.append(['roll', i, rng.choice([len(nf), len(nf), rng.randrange(0, len(nf) + 1)]), rng.choice([0, 0, 1]), nf])
    order = list(range(nslots))
    rng.shuffle(order)
    initial = order[:rng.choice([nslots, nslots, max(1, nslots - 1), rng.randrange(0, nslots + 1)])]
    ibl = rng.choice([0, 0, 0, 32, 64, 100, 2, 33, 4096])
    if rng.random() < 0.02:
        ibl = rng.choice([1, -1])
    ops = []
    for _ in range(rng.randrange(4, 12)):
        r = rng.random()
        limit = rng.choice([1, 1, 2, 2, 3, 10, MAXI, 0, -1])
        if r < 0.50:
            ops.append(['poll', limit])
        elif r < 0.63:
            tab = [rng.choice([4, 4, 3, 3, 1, 2]) for _ in range(rng.choice([0, 1, 2, 3, 5]))]
            ops.append(['cpoll', limit, rng.randrange(0, 7), tab])
        elif r < 0.70:
            ops.append(['block', rng.choice([0, 32, 64, 96, 128, 1000, 65536, -1, MAXI, MAXI, 2**31 - 65536, 2**30])])
        elif r < 0.86:
            ops.append(['grow', rng.randrange(nslots), rng.choice([1, 1, 2, 3, 100])])
        elif r < 0.93:
            ops.append(['add', rng.randrange(nslots)])
        else:
            ops.append(['remove', rng.randrange(nslots)])
    if padded:
        initial = order[:nslots] if rng.random() < 0.8 else initial
        for r in rolls:
            at = rng.randrange(0, len(ops) + 1)
            ops.insert(at, ['grow', r[1], 1])
            at2 = rng.randrange(at + 1, len(ops) + 1)
            ops.insert(at2, r)
            for _ in range(rng.choice([0, 1, 2])):
                ops.insert(rng.randrange(at2 + 1, len(ops) + 1), ['grow', r[1], rng.choice([1, 2, 100])])
        for _ in range(rng.choice([2, 4, 6])):
            limit = rng.choice([1, 1, 2, 3, 10, MAXI])
            if rng.random() < 0.8:
                ops.append(['poll', limit])
            else:
                ops.append(['cpoll', limit, rng.randrange(0, 7), [rng.choice([4, 4, 3, 1, 2]) for _ in range(rng.choice([0, 1, 3]))]])
    return {'kind': 'malformed' if malformed else ('padded' if padded else 'sub'), 'slots': slots, 'initial': initial, 'ibl': ibl, 'ops': ops}


def boundary_cases():
    a = [[1, 128, 96, 1, 0], [1, 0, 96, 2, 0], [1, 64, 40, 3, 0], [1, 192, 50, 4, 0], [1, 192, 60, 5, 0]]
    b = [[1, 192, 50, 7, 0], [1, 128, 64, 8, 0], [1, 64, 64, 9, 0], [1, 192, 33, 10, 0]]
    c = [[1, 192, 40, 12, 0], [1, 192, 41, 13, 0], [1, 192, 42, 14, 0], [1, 192, 43, 15, 0]]
    out = []
    for limit in (1, 2, MAXI):
        out.append({'kind': 'sub', 'slots': [[16, 5, 77, 0, [0, 0, 5, 0, a]], [16, 9, 88, 64, [0, 64, 4, 0, b]],
                                               [16, -3, 99, 65536 * 2, [2, 0, 4, 0, c]]],
                    'initial': [0, 1, 2], 'ibl': 0,
                    'ops': [['poll', limit]] * 5 + [['remove', 1], ['poll', limit], ['poll', limit], ['block', 1000]]})
    # joined in the middle of a message: image 0 starts at the MIDDLE fragment
    out.append({'kind': 'sub', 'slots': [[16, 5, 77, 96, [0, 0, 5, 0, a]], [16, 9, 88, 64, [0, 64, 4, 0, b]]],
                'initial': [1, 0], 'ibl': 32, 'ops': [['poll', 1], ['poll', 1], ['poll', 10], ['poll', 10]]})
    # fairness across a term end: image 1 has caught up and sits exactly on the padding frame that closes its term while
    # images 0 and 2 always have data; the publisher continues in the next term (roll).  Every image must be served.
    pad = [[1, 192, 50, 20, 0], [0, 0, 65536 - 4096 - 64, 0, 0]]
    nxt = [[1, 128, 96, 21, 0], [1, 64, 40, 22, 0], [1, 192, 44, 23, 0]]
    for limit in (1, 10):
        out.append({'kind': 'padded', 'slots': [[16, 5, 77, 0, [0, 0, 5, 0, a]], [16, MAXI, 88, 2 * 65536 + 4096 + 64, [2, 4096, 2, 0, pad]],
                                                  [16, -3, 99, 65536 * 2, [2, 0, 4, 0, c]]],
                    'initial': [0, 1, 2], 'ibl': 0,
                    'ops': [['poll', limit]] * 4 + [['roll', 1, 3, 0, nxt]] + [['poll', limit]] * 5})
    # the padding frame becomes visible only after the image has caught up with the last data frame
    out.append({'kind': 'padded', 'slots': [[16, 9, 88, 65536 + 4096, [1, 4096, 1, 0, pad]], [16, 5, 77, 0, [0, 0, 5, 0, a]]],
                'initial': [0, 1], 'ibl': 64,
                'ops': [['poll', 1], ['poll', 1], ['grow', 0, 1], ['cpoll', 1, 0, [1]], ['poll', 1], ['poll', 1], ['roll', 0, 2, 1, nxt],
                        ['poll', 1], ['poll', 1], ['grow', 0, 1], ['poll', 2], ['poll', 2]]})
    return out


BB_SAFE = 1431655765
BB_MAX = 2**31 - 1 - 8


def gen_bb(rng):
    initial = rng.choice([0, 1, 2, 31, 32, 33, 63, 64, 65, 100, 127, 128, 129, 4096, 5000, 65536, 2**20, -1, -5, 2**31, 2**31 + 1,
                          2**32 + 5, 2**40, 2**62, 2**62 + 1, -2**63, rng.randrange(1, 10000)])
    ops = []
    for _ in range(rng.randrange(3, 13)):
        r = rng.random()
        if r < 0.70:
            ln = rng.choice([0, 1, 2, 31, 32, 33, 63, 64, 95, 96, 97, 100, 1000, 4064, 4065, rng.randrange(0, 300), rng.randrange(0, 300),
                             rng.randrange(0, 3000), rng.randrange(0, 30000) if rng.random() < 0.15 else 50])
            ops.append(['append', rng.randrange(1, 1000), ln])
        elif r < 0.85:
            ops.append(['reset'])
        else:
            ops.append(["setlimit", rng.choice([MAXI, MAXI, MAXI, 0, 31, 32, 33, 64, 100, 4096, 6000, rng.randrange(0, 8000)])])
    return {'kind': 'bb', 'initial': initial, 'ops': ops}


def bb_boundary():
    out = []
    # the first growth from every small initial capacity, one byte below / at / above the capacity
    for initial in (0, 64, 65, 128, 2048):
        cap = max(64, 1 << (initial - 1).bit_length()) if initial > 0 else 64
        for d in (-1, 0, 1):
            out.append({'kind': 'bb', 'initial': initial,
                        'ops': [['append', 3, cap - 32 + d], ['setlimit', MAXI], ['append', 4, cap], ['reset'], ['append', 5, 3 * cap]]})
    # a message assembled from many fragments: the capacity walks 64, 96, 144, 216, 324, ...
    out.append({'kind': 'bb', 'initial': 1, 'ops': [['append', k, 40] for k in range(1, 13)]})
    return out


def has_bb_hook():
    try:
        return 'fn find_suitable_capacity_for_verif' in open(os.path.join(core.REPO, 'src/buffer_builder.rs')).read()
    except OSError:
        return False


def find_cases():
    caps = [2, 3, 64, 100, 4096, 2**20, 2**30, 1500000000, BB_SAFE - 1, BB_SAFE, BB_SAFE + 1, BB_SAFE + 2, 2000000000, BB_MAX - 1, BB_MAX]
    out = []
    for c in caps:
        for r in sorted({c + 1, 2 * c, 3 * c + 7, BB_SAFE, BB_SAFE + 1, BB_SAFE + 2, BB_MAX - 1, BB_MAX, BB_MAX + 1, MAXI}):
            if c < r <= MAXI:
                out.append({'kind': 'find', 'cap': c, 'req': r})
    return out


def rotate_cases():
    """add / remove of an image between polls at every point of the round-robin: n images with data everywhere, limit 1,
    k polls, then the change, then n + 2 polls."""
    out = []
    for n in (2, 3):
        for k in range(0, n + 2):
            for change in ('add', 'remove_first', 'remove_last', 'remove_next'):
                slots = []
                for i in range(n + 1):
                    frames = [[1, 192, 40 + j, 10 * i + j + 1, 0] for j in range(8)]
                    slots.append([16, i, 50 + i, 0, [0, 0, 8, 0, frames]])
                initial = list(range(n))
                ops = [['poll', 1]] * k
                if change == 'add':
                    ops = ops + [['add', n]]
                elif change == 'remove_first':
                    ops = ops + [['remove', 0]]
                elif change == 'remove_last':
                    ops = ops + [['remove', n - 1]]
                else:
                    ops = ops + [['remove', k % n]]
                ops = ops + [['poll', 1]] * (n + 2)
                out.append({'kind': 'rotate', 'slots': slots, 'initial': initial, 'ibl': 0, 'ops': ops})
    return out


def generate(rng, tier):
    n = 12000 if tier == 'thorough' else 700      # sized so that the thorough tier ends in about a quarter of an hour
    cases = boundary_cases() + bb_boundary() + rotate_cases()
    if has_bb_hook():
        cases += find_cases()
    for i in range(n):
        cases.append(gen_case(rng, malformed=(i % 8 == 5), padded=(i % 8 in (2, 6))))
    bbs = [gen_bb(rng) for i in range(n // 6)]
    # spread the builder cases (the most expensive ones to evaluate) evenly, so that the evaluation shards are balanced
    step = max(1, len(cases) // max(1, len(bbs)))
    out = []
    for i, c in enumerate(cases):
        out.append(c)
        if i % step == step - 1 and bbs:
            out.append(bbs.pop())
    return out + bbs


def impl_line(c):
    if c['kind'] == 'bb':
        p = ['bb', c['initial'], len(c['ops'])]
        for o in c['ops']:
            if o[0] == 'append':
                p += [1, o[1], o[2]]
            elif o[0] == 'reset':
                p += [2]
            else:
                p += [3, o[1]]
        return ' '.join(str(x) for x in p)
    if c['kind'] == 'find':
        return 'find %d %d' % (c['cap'], c['req'])
    p = ['sub', len(c['slots'])]
    for bits, init, se, pos0, (n, off, vis, claim, frames) in c['slots']:
        p += [bits, init, se, pos0, n, off, vis, claim, len(frames)]
        for f in frames:
            p += f
    p += [len(c['initial'])] + c['initial'] + [c['ibl'], len(c['ops'])]
    for o in c['ops']:
        k = o[0]
        if k == 'poll':
            p += [1, o[1]]
        elif k == 'cpoll':
            p += [2, o[1], o[2], len(o[3])] + o[3]
        elif k == 'block':
            p += [3, o[1]]
        elif k == 'grow':
            p += [4, o[1], o[2]]
        elif k == 'add':
            p += [5, o[1]]
        elif k == 'remove':
            p += [6, o[1]]
        elif k == 'roll':
            p += [7, o[1], o[2], o[3], len(o[4])]
            for f in o[4]:
                p += f
        else:
            raise ValueError(o)
    return ' '.join(str(x) for x in p)


def c_slots(c):
    out = []
    for bits, init, se, pos0, (n, off, vis, claim, frames) in c['slots']:
        fs = '[' + '; '.join('(%s, %s, %s, %s, %s)' % tuple(z(x) for x in f) for f in frames) + ']'
        out.append('(%s, %s, %s, %s, (%s, %s, %s, %s, %s))' % (z(bits), z(init), z(se), z(pos0), z(n), z(off), z(vis),
                                                              'true' if claim else 'false', fs))
    return '[' + '; '.join(out) + ']'


def c_op(o):
    k = o[0]
    if k == 'poll':
        return 'SPoll %s' % z(o[1])
    if k == 'cpoll':
        return 'SCPoll %s %s %s' % (z(o[1]), z(o[2]), c05.c_script(o[3]))
    if k == 'block':
        return 'SBlock %s' % z(o[1])
    if k == 'grow':
        return 'SGrow %s %s' % (z(o[1]), z(o[2]))
    if k == 'add':
        return 'SAdd %s' % z(o[1])
    if k == 'remove':
        return 'SRemove %s' % z(o[1])
    if k == 'roll':
        fs = '[' + '; '.join('(%s, %s, %s, %s, %s)' % tuple(z(x) for x in f) for f in o[4]) + ']'
        return 'SRoll %s %s %s %s' % (z(o[1]), z(o[2]), 'true' if o[3] else 'false', fs)
    raise ValueError(o)


def c_ops(c):
    return '[' + '; '.join(c_op(o) for o in c['ops']) + ']'


def c_initial(c):
    return '[' + '; '.join(z(i) for i in c['initial']) + ']'


def c_bops(c):
    out = []
    for o in c['ops']:
        if o[0] == 'append':
            out.append('BAppend %s %s' % (z(o[1]), z(o[2])))
        elif o[0] == 'reset':
            out.append('BReset')
        else:
            out.append('BSetLimit %s' % z(o[1]))
    return '[' + '; '.join(out) + ']'


def model_expr(c, mode):
    if c['kind'] == 'bb':
        return 'run_bb_case %s %s %s' % (mode_c(mode), z(c['initial']), c_bops(c))
    if c['kind'] == 'find':
        return 'find_suitable_capacity %s %s %s' % (mode_c(mode), z(c['cap']), z(c['req']))
    # the model with the assembler's real BufferBuilders; a run in which a builder operation fails prints as []
    return 'match run_sub_case_bb %s %s %s %s %s with Ok l => l | _ => [] end' % (mode_c(mode), z(c['ibl']), c_slots(c), c_initial(c), c_ops(c))


def oracle_expr(c, mode, obs):
    if c['kind'] == 'find':
        if isinstance(obs, int) or obs[0] != 'app':
            return 'false'
        return 'holds_find %s %s (%s)' % (z(c['cap']), z(c['req']), to_coq(obs))
    if isinstance(obs, int) or obs[0] != 'list':
        return 'false'     # the whole case crashed, hung or could not be parsed: nothing satisfies the property
    if c['kind'] == 'bb':
        return 'holds_bb_case %s %s %s' % (z(c['initial']), c_bops(c), to_coq(obs))
    return 'holds_sub_case %s %s %s %s' % (c_slots(c), c_initial(c), c_ops(c), to_coq(obs))


def nontrivial(c):
    if c['kind'] == 'bb':
        return sum(o[2] for o in c['ops'] if o[0] == 'append') > 64
    if c['kind'] == 'find':
        return True
    return len(c['slots']) >= 2 and sum(1 for o in c['ops'] if o[0] in ('poll', 'cpoll')) >= 2


def shrink(c):
    out = []
    if c['kind'] == 'find':
        return out
    if c['kind'] == 'bb':
        for i in range(len(c['ops'])):
            d = dict(c)
            d['ops'] = c['ops'][:i] + c['ops'][i + 1:]
            out.append(d)
        return out
    ops = c['ops']
    for i in range(len(ops)):
        d = dict(c)
        d['ops'] = ops[:i] + ops[i + 1:]
        if d['ops']:
            out.append(d)
    for si, s in enumerate(c['slots']):
        frames = s[4][4]
        if frames and s[3] == s[4][0] * (1 << s[0]) + s[4][1]:
            d = dict(c)
            ns = [list(x) for x in c['slots']]
            seg = list(s[4])
            seg[4] = frames[:-1]
            seg[2] = min(seg[2], len(seg[4]))
            ns[si] = [s[0], s[1], s[2], s[3], seg]
            d['slots'] = ns
            out.append(d)
    if len(c['slots']) > 1:
        # drop the last slot when no operation names it
        last = len(c['slots']) - 1
        if all(not (o[0] in ('grow', 'add', 'remove', 'roll') and o[1] == last) for o in ops):
            d = dict(c)
            d['slots'] = c['slots'][:-1]
            d['initial'] = [i for i in c['initial'] if i != last]
            out.append(d)
    return out
