"""C20 - Multi-image subscription polling: bounded, fair, and sessions never mix."""
from vlib.term import z, to_coq
from props import c05

ID = 'C20'
PROP_FILE = 'Props/C20.v'
EXTRA_PROP_FILES = ['Props/C20Src.v']     # K1 source tie (tools/props/src_translate.py), see docs/reports/SRC.md
EVAL_FILES = ['Oracle/C20Oracle.v']
CRATES = ['c20']
MODES = ['debug', 'release']
IMPORTS = ('Require Import V.Base.MachineInt V.Model.LogBase V.Model.Reader V.Model.Image V.Model.Subscription '
           'V.Model.Assembler V.Oracle.C05Cases V.Oracle.C05Oracle V.Oracle.C20Cases V.Oracle.C20Oracle.')
RULE = ('histories of 4-11 operations on a Subscription obtained from the conductor with 1-5 images (each on its own log '
        'file, distinct session ids incl. i32::MIN/MAX, own geometry position: term counts {0,1,2,65536,2^31-2}, random aligned '
        'start offsets, start possibly in the middle of a fragmented message): Subscription::poll through a FragmentAssembler '
        '(initial buffer lengths default, 0, 1, 2, 32, 33, 64, 100, 4096), Subscription::controlled_poll with handler answers chosen per frame offset, '
        'Subscription::block_poll, frames committed in steps between calls (per-image backlogs 0..14 frames), add_image / '
        'remove_image between calls (on_available_image / on_unavailable_image), fragment limits {0,1,2,3,10,MAX,-1}; frame '
        'streams: unfragmented, BEGIN/MIDDLE*/END runs with payloads 1..160, padding, claimed tail; a malformed stream '
        '(END without BEGIN, BEGIN after BEGIN, MIDDLE alone, empty BEGIN payload, unfragmented inside a run). '
        'non-trivial = at least two images and two polls; distinct = distinct case descriptions')
ASSUMPTIONS = [
    'session ids of the images of one subscription are distinct (the driver creates one image per session)',
    'every frame of an image log carries the session id of that image',
    'one polling thread per subscription; add / remove of images happen between polls (AtomicVec is not exercised concurrently here)',
    'BufferBuilder capacity growth is not modelled; it is exercised by small initial buffer lengths (0 and 1 made find_suitable_capacity loop for ever before fixes/C20-buffer-builder-min-capacity.diff)',
] + c05.ASSUMPTIONS[:3]
PER_CASE_TIMEOUT = 1.0
CHUNK = 20

MAXI = 2**31 - 1
MINI = -2**31


def mode_c(mode):
    return 'Debug' if mode == 'debug' else 'Release'


def gen_stream(rng, budget, malformed):
    out = []
    used = 0
    k = rng.randrange(1, 1000)
    n = rng.choice([0, 1, 2, 3, 5, 8, 14])
    while len(out) < n:
        r = rng.random()
        group = []
        if r < 0.40:
            group.append([1, 192, 32 + rng.choice([0, 1, 31, 32, 33, 100, rng.randrange(0, 200)]), k, 0])
        elif r < 0.80:
            mp = rng.choice([32, 64, 96, 160])
            mids = rng.choice([0, 0, 1, 2, 3])
            group.append([1, 128, 32 + mp, k, 0])
            for j in range(mids):
                group.append([1, 0, 32 + mp, k + 1 + j, 0])
            group.append([1, 64, 32 + rng.choice([1, mp // 2, mp]), k + 1 + mids, 0])
        elif r < 0.88:
            group.append([0, 0, 32 * rng.choice([1, 2, 3]), 0, 0])
        elif malformed:
            kind = rng.randrange(5)
            if kind == 0:
                group.append([1, 64, 32 + rng.randrange(1, 60), k, 0])
            elif kind == 1:
                group.append([1, 128, 32 + rng.randrange(1, 60), k, 0])
            elif kind == 2:
                group.append([1, 0, 32 + rng.randrange(1, 60), k, 0])
            elif kind == 3:
                group += [[1, 128, 32, k, 0], [1, 0, 40, k + 1, 0], [1, 64, 40, k + 2, 0]]
            else:
                group += [[1, 128, 64, k, 0], [1, 192, 50, k + 1, 0], [1, 64, 40, k + 2, 0]]
        else:
            group.append([1, 192, 32 + rng.randrange(0, 120), k, 0])
        need = sum(c05.al(g[2]) for g in group)
        if used + need > budget:
            break
        out += group
        used += need
        k += len(group) + 1
    return out, used


def gen_case(rng, malformed=False):
    nslots = rng.choice([1, 2, 2, 3, 3, 4, 5])
    sessions = [11, -22, 33, MAXI, MINI, 0, 7]
    rng.shuffle(sessions)
    slots = []
    for i in range(nslots):
        bits = 16
        tl = 1 << bits
        init = rng.choice([0, 1, -1, MAXI, MINI, rng.randrange(MINI, MAXI + 1)])
        n = rng.choice([0, 0, 1, 2, 65536, 2**31 - 2])
        frames, used = gen_stream(rng, 6000, malformed)
        off = 32 * rng.randrange(0, (tl - used) // 32 + 1) if rng.random() < 0.7 else 0
        if rng.random() < 0.1:
            off = tl - used
        vis = rng.choice([0, len(frames), rng.randrange(0, len(frames) + 1), rng.randrange(0, len(frames) + 1)])
        seg = [n, off, vis, rng.choice([0, 0, 1]), frames]
        bs = c05.boundaries(seg, tl)
        pos0 = bs[0] if rng.random() < 0.7 else rng.choice(bs)
        slots.append([bits, init, sessions[i], pos0, seg])
    order = list(range(nslots))
    rng.shuffle(order)
    initial = order[:rng.choice([nslots, nslots, max(1, nslots - 1), rng.randrange(0, nslots + 1)])]
    ibl = rng.choice([0, 0, 0, 32, 64, 100, 2, 33, 4096])
    if rng.random() < 0.02:
        ibl = rng.choice([1, -1])
    ops = []
    for _ in range(rng.randrange(4, 12)):
        r = rng.random()
        limit = rng.choice([1, 1, 2, 2, 3, 10, MAXI, 0, -1])
        if r < 0.50:
            ops.append(['poll', limit])
        elif r < 0.63:
            tab = [rng.choice([4, 4, 3, 3, 1, 2]) for _ in range(rng.choice([0, 1, 2, 3, 5]))]
            ops.append(['cpoll', limit, rng.randrange(0, 7), tab])
        elif r < 0.70:
            ops.append(['block', rng.choice([0, 32, 64, 96, 128, 1000, 65536, -1])])
        elif r < 0.86:
            ops.append(['grow', rng.randrange(nslots), rng.choice([1, 1, 2, 3, 100])])
        elif r < 0.93:
            ops.append(['add', rng.randrange(nslots)])
        else:
            ops.append(['remove', rng.randrange(nslots)])
    return {'kind': 'malformed' if malformed else 'sub', 'slots': slots, 'initial': initial, 'ibl': ibl, 'ops': ops}


def boundary_cases():
    a = [[1, 128, 96, 1, 0], [1, 0, 96, 2, 0], [1, 64, 40, 3, 0], [1, 192, 50, 4, 0], [1, 192, 60, 5, 0]]
    b = [[1, 192, 50, 7, 0], [1, 128, 64, 8, 0], [1, 64, 64, 9, 0], [1, 192, 33, 10, 0]]
    c = [[1, 192, 40, 12, 0], [1, 192, 41, 13, 0], [1, 192, 42, 14, 0], [1, 192, 43, 15, 0]]
    out = []
    for limit in (1, 2, MAXI):
        out.append({'kind': 'sub', 'slots': [[16, 5, 77, 0, [0, 0, 5, 0, a]], [16, 9, 88, 64, [0, 64, 4, 0, b]],
                                               [16, -3, 99, 65536 * 2, [2, 0, 4, 0, c]]],
                    'initial': [0, 1, 2], 'ibl': 0,
                    'ops': [['poll', limit]] * 5 + [['remove', 1], ['poll', limit], ['poll', limit], ['block', 1000]]})
    # joined in the middle of a message: image 0 starts at the MIDDLE fragment
    out.append({'kind': 'sub', 'slots': [[16, 5, 77, 96, [0, 0, 5, 0, a]], [16, 9, 88, 64, [0, 64, 4, 0, b]]],
                'initial': [1, 0], 'ibl': 32, 'ops': [['poll', 1], ['poll', 1], ['poll', 10], ['poll', 10]]})
    return out


def generate(rng, tier):
    n = 40000 if tier == 'thorough' else 1200
    cases = boundary_cases()
    for i in range(n):
        cases.append(gen_case(rng, malformed=(i % 8 == 5)))
    return cases


def impl_line(c):
    p = ['sub', len(c['slots'])]
    for bits, init, se, pos0, (n, off, vis, claim, frames) in c['slots']:
        p += [bits, init, se, pos0, n, off, vis, claim, len(frames)]
        for f in frames:
            p += f
    p += [len(c['initial'])] + c['initial'] + [c['ibl'], len(c['ops'])]
    for o in c['ops']:
        k = o[0]
        if k == 'poll':
            p += [1, o[1]]
        elif k == 'cpoll':
            p += [2, o[1], o[2], len(o[3])] + o[3]
        elif k == 'block':
            p += [3, o[1]]
        elif k == 'grow':
            p += [4, o[1], o[2]]
        elif k == 'add':
            p += [5, o[1]]
        elif k == 'remove':
            p += [6, o[1]]
        else:
            raise ValueError(o)
    return ' '.join(str(x) for x in p)


def c_slots(c):
    out = []
    for bits, init, se, pos0, (n, off, vis, claim, frames) in c['slots']:
        fs = '[' + '; '.join('(%s, %s, %s, %s, %s)' % tuple(z(x) for x in f) for f in frames) + ']'
        out.append('(%s, %s, %s, %s, (%s, %s, %s, %s, %s))' % (z(bits), z(init), z(se), z(pos0), z(n), z(off), z(vis),
                                                              'true' if claim else 'false', fs))
    return '[' + '; '.join(out) + ']'


def c_op(o):
    k = o[0]
    if k == 'poll':
        return 'SPoll %s' % z(o[1])
    if k == 'cpoll':
        return 'SCPoll %s %s %s' % (z(o[1]), z(o[2]), c05.c_script(o[3]))
    if k == 'block':
        return 'SBlock %s' % z(o[1])
    if k == 'grow':
        return 'SGrow %s %s' % (z(o[1]), z(o[2]))
    if k == 'add':
        return 'SAdd %s' % z(o[1])
    if k == 'remove':
        return 'SRemove %s' % z(o[1])
    raise ValueError(o)


def c_ops(c):
    return '[' + '; '.join(c_op(o) for o in c['ops']) + ']'


def c_initial(c):
    return '[' + '; '.join(z(i) for i in c['initial']) + ']'


def model_expr(c, mode):
    return 'run_sub_case %s %s %s %s' % (mode_c(mode), c_slots(c), c_initial(c), c_ops(c))


def oracle_expr(c, mode, obs):
    if isinstance(obs, int) or obs[0] != 'list':
        return 'false'     # the whole case crashed, hung or could not be parsed: nothing satisfies the property
    return 'holds_sub_case %s %s %s %s' % (c_slots(c), c_initial(c), c_ops(c), to_coq(obs))


def nontrivial(c):
    return len(c['slots']) >= 2 and sum(1 for o in c['ops'] if o[0] in ('poll', 'cpoll')) >= 2


def shrink(c):
    out = []
    ops = c['ops']
    for i in range(len(ops)):
        d = dict(c)
        d['ops'] = ops[:i] + ops[i + 1:]
        if d['ops']:
            out.append(d)
    for si, s in enumerate(c['slots']):
        frames = s[4][4]
        if frames and s[3] == s[4][0] * (1 << s[0]) + s[4][1]:
            d = dict(c)
            ns = [list(x) for x in c['slots']]
            seg = list(s[4])
            seg[4] = frames[:-1]
            seg[2] = min(seg[2], len(seg[4]))
            ns[si] = [s[0], s[1], s[2], s[3], seg]
            d['slots'] = ns
            out.append(d)
    if len(c['slots']) > 1:
        # drop the last slot when no operation names it
        last = len(c['slots']) - 1
        if all(not (o[0] in ('grow', 'add', 'remove') and o[1] == last) for o in ops):
            d = dict(c)
            d['slots'] = c['slots'][:-1]
            d['initial'] = [i for i in c['initial'] if i != last]
            out.append(d)
    return out
