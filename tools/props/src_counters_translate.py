"""K1 generator of coq/Generated for the area 'counters' of the general source translator (tools/props/src_translate.py)."""
from props import src_translate


def generate():
    return src_translate.generate_area('counters')


TABLES = [generate]
