"""C09 - registration protocol: add / find / release follow the driver's answers exactly."""
import random

from vlib.term import z, to_coq
from props import cond_common as cc

ID = 'C09'
PROP_FILE = 'Props/C09.v'
EVAL_FILES = ['Oracle/C09Oracle.v']
CRATES = ['c09']
MODES = ['debug']
IMPORTS = 'Require Import V.Base.MachineInt V.Model.Conductor V.Oracle.C09Oracle.'
PER_CASE_TIMEOUT = 8.0
CHUNK = 40
RULE = ('histories of up to 70 operations on a full in-process client (real conductor, ring, broadcast transmitter/receiver, listener adapter, '
        'controllable clock; the harness plays the driver): scripted boundary histories for every clause (duplicate / late / conflicting / '
        'foreign-kind / unknown-id answers, time-out boundary t0+T and t0+T+1, error-once, release, close) followed by random histories mixing '
        '1-4 publications, exclusive publications, subscriptions, counters and destinations with answers in any order, lookups, handle drops, '
        'clock jumps and close; in about a tenth of the random histories (and three scripted ones) handles are dropped while another thread holds the conductor mutex '
        '(harness ops Dp/Dx/Ds/Dc: helper thread locks, signals, holds 150 ms - same expected observation as the plain drop); a case is non-trivial when it contains at least one answer event and one lookup; distinct = distinct histories')
ASSUMPTIONS = [
    'the capacity arithmetic of the command ring is C06\'s: here the ring either has room (the harness drains it after every operation) or, between SetRingFull true / false, refuses every command; strings fit the 512-byte scratch buffer (C13)',
    'driver events are well formed: ASCII strings, counter ids inside the counters buffer, an existing log file with legal geometry, '
    'exclusive-publication answers carry registration id = correlation id; an ErrorResponse with error code 4 (channel endpoint error) carries a channel status indicator id in its correlation-id field (generated: ids of live resources, other ids, ids that only agree as i32)',
    'callbacks do not call back into the client; the clock stays below 2^62 and above the linger time-out (C11/C12)',
    'find_exclusive_publication is pub(crate): it is reached through the add-only hook ClientConductor::find_exclusive_publication_for_verif '
    '(hooks/cond-find-exclusive.diff); while the repository lacks the hook exclusive publications are exercised through add, answers and close only',
]
TRUSTED = ['harness/c09 encodes driver events by hand from the flyweight layouts (checked by C14) and decodes commands from the layouts of C13']


def generate(rng, tier):
    cc.clean_scratch()
    cases = list(cc.scripted())
    n = 500 if tier != 'thorough' else 20000
    for _ in range(n):
        cases.append(cc.gen_history(rng, tier, 'protocol' if rng.random() < 0.75 else 'faults'))
    # in about a tenth of the random histories the handle drops happen while another thread is inside the conductor (own random stream:
    # the histories themselves stay what they were)
    rng2 = random.Random(rng.getrandbits(32) ^ 0xC09D)
    first = len(cases) - n
    for i in range(first, len(cases)):
        if rng2.random() < 0.1:
            cases[i] = cc.with_locked_drops(cases[i], rng2)
    return cases


impl_line = cc.impl_line
model_expr = cc.model_expr
shrink = cc.shrink
normalize = cc.normalize


def extra_checks(run):
    import os
    import re
    from vlib import core
    # K1-command-buffer: the private constant behind Conductor.CMD_BUF and the strictness of ensure_command_fits, re-read from the source
    src = re.sub(r'\s+', ' ', open(os.path.join(core.REPO, 'src', 'driver_proxy.rs')).read())
    ok = 'const COMMAND_BUFFER_LENGTH: usize = 512;' in src and 'if encoded_length > COMMAND_BUFFER_LENGTH {' in src
    return [cc.hook_note(),
            (ok, 'K1-command-buffer', 'driver_proxy.rs: COMMAND_BUFFER_LENGTH = 512, ensure_command_fits refuses encoded_length > 512 (model: CMD_BUF, add_illegal)'
             if ok else 'COMMAND_BUFFER_LENGTH / ensure_command_fits changed: Conductor.add_illegal no longer describes the source')]


def oracle_expr(case, mode, obs):
    c = case['cfg']
    if isinstance(obs, int) or obs[0] != 'list':
        return 'false'     # the whole case crashed / hung: no per-operation observations
    return 'holds_c09 %s %s %s %s %s %s' % (z(c[0]), z(c[1]), z(c[2]), z(c[3]), cc.ops_expr(case), to_coq(obs))


def nontrivial(case):
    names = [o[0] for o in case['ops']]
    return 'we' in names and any(n[0] == 'f' for n in names)
