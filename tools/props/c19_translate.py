"""K1 source translator for C19 (channel URIs).

Reads  <repo>/src/channel_uri.rs  and  <repo>/src/channel_uri_string_builder.rs  and writes
coq/Generated/GenUriTables.v :

  * every `pub const NAME: &str = "...";` of channel_uri.rs as a code-point list,
  * `setter_table`: one row per `pub fn` of `impl ChannelUriStringBuilder` taking `&mut self`
    (name, argument type, the early-return checks in source order, the field assignments),
  * `emit_table`: one row per `if let Some(x) = &self.<field> { sb += &format!("{}={}|", channel_uri::<CONST>, <value>) }`
    of `build()` (field, parameter name resolved through the constants, value format),
  * the two fields `build()` reads for the prefix and the media.

The translator understands a small subset of Rust (the one these two files are written in). Anything it
does not understand makes it *fail* (reported by the runner as a broken K1 translation) -- it never guesses.
The Coq types of the rows are in coq/Model/UriTypes.v.
"""
import os
import re

from vlib import core


class Unsupported(Exception):
    pass


# ----------------------------------------------------------------------------------------------
# lexer

_TOKEN = re.compile(r'''
    (?P<ws>\s+)
  | (?P<lcomment>//[^\n]*)
  | (?P<bcomment>/\*.*?\*/)
  | (?P<str>"(?:[^"\\]|\\.)*")
  | (?P<chr>'(?:[^'\\]|\\.)')
  | (?P<num>\d[\d_]*(?:[iu](?:8|16|32|64|size))?)
  | (?P<id>[A-Za-z_][A-Za-z_0-9]*)
  | (?P<p>\.\.=|::|->|=>|&&|\|\||==|!=|<=|>=|\+=|-=|[{}()\[\];,.:=<>!&|+\-*/?#'])
''', re.S | re.X)


def lex(src):
    toks = []
    pos = 0
    while pos < len(src):
        m = _TOKEN.match(src, pos)
        if not m:
            raise Unsupported('lexer: cannot read %r' % src[pos:pos + 30])
        pos = m.end()
        k = m.lastgroup
        if k in ('ws', 'lcomment', 'bcomment'):
            continue
        toks.append((k, m.group(k)))
    return toks


def unescape(lit):
    """Rust string / char literal body -> python str (the escapes that occur in practice)."""
    body = lit[1:-1]
    out = []
    i = 0
    while i < len(body):
        c = body[i]
        if c != '\\':
            out.append(c)
            i += 1
            continue
        n = body[i + 1]
        simple = {'n': '\n', 't': '\t', 'r': '\r', '0': '\0', '\\': '\\', '"': '"', "'": "'"}
        if n in simple:
            out.append(simple[n])
            i += 2
        elif n == 'x':
            out.append(chr(int(body[i + 2:i + 4], 16)))
            i += 4
        elif n == 'u':
            j = body.index('}', i)
            out.append(chr(int(body[i + 3:j], 16)))
            i = j + 1
        else:
            raise Unsupported('escape \\%s' % n)
    return ''.join(out)


# ----------------------------------------------------------------------------------------------
# parser for the statement / expression subset

class P:
    def __init__(self, toks):
        self.t = toks
        self.i = 0

    def peek(self, k=0):
        j = self.i + k
        return self.t[j] if j < len(self.t) else ('eof', '')

    def at(self, text, k=0):
        return self.peek(k)[1] == text and self.peek(k)[0] in ('p', 'id')

    def next(self):
        x = self.peek()
        self.i += 1
        return x

    def eat(self, text):
        x = self.next()
        if x[1] != text:
            raise Unsupported('expected %r, found %r (token %d)' % (text, x[1], self.i))
        return x

    def ident(self):
        x = self.next()
        if x[0] != 'id':
            raise Unsupported('expected identifier, found %r' % (x[1],))
        return x[1]

    # -- statements
    def block(self):
        self.eat('{')
        stmts = []
        while not self.at('}'):
            stmts.append(self.stmt())
        self.eat('}')
        return stmts

    def skip_to_semicolon(self):
        depth = 0
        while True:
            k, v = self.next()
            if k == 'eof':
                raise Unsupported('unterminated statement')
            if v in ('(', '{', '['):
                depth += 1
            elif v in (')', '}', ']'):
                depth -= 1
            elif v == ';' and depth == 0:
                return

    def stmt(self):
        if self.at('if'):
            e = self.if_expr()
            return ('expr', e)
        if self.at('let'):
            self.next()
            mut = False
            if self.at('mut'):
                self.next()
                mut = True
            name = self.ident()
            self.eat('=')
            e = self.expr()
            self.eat(';')
            return ('let', name, e, mut)
        if self.at('return'):
            self.next()
            is_err = self.at('Err')
            self.skip_to_semicolon()
            return ('return_err',) if is_err else ('return_other',)
        e = self.expr()
        if self.at('='):
            self.next()
            r = self.expr()
            self.eat(';')
            return ('assign', e, r)
        if self.at('+='):
            self.next()
            r = self.expr()
            self.eat(';')
            return ('addassign', e, r)
        if self.at(';'):
            self.next()
            return ('semi', e)
        if self.at('}'):
            return ('tail', e)
        raise Unsupported('statement: unexpected %r' % (self.peek()[1],))

    def if_expr(self):
        self.eat('if')
        if self.at('let'):
            self.next()
            self.eat('Some')
            self.eat('(')
            var = self.ident()
            self.eat(')')
            self.eat('=')
            scrut = self.expr(no_struct=True)
            body = self.block()
            if self.at('else'):
                raise Unsupported('if let ... else')
            return ('iflet', var, scrut, body)
        c = self.expr(no_struct=True)
        then = self.block()
        els = None
        if self.at('else'):
            self.next()
            els = self.block()
        return ('if', c, then, els)

    # -- expressions (precedence climbing; Rust's order: as > * / > + - > & > | > comparisons > && > ||)
    def expr(self, no_struct=True):
        return self.e_or()

    def e_or(self):
        a = self.e_and()
        while self.at('||'):
            self.next()
            a = ('or', a, self.e_and())
        return a

    def e_and(self):
        a = self.e_cmp()
        while self.at('&&'):
            self.next()
            a = ('and', a, self.e_cmp())
        return a

    def e_cmp(self):
        a = self.e_range()
        if self.peek()[1] in ('==', '!=', '<', '>', '<=', '>=') and self.peek()[0] == 'p':
            op = self.next()[1]
            b = self.e_range()
            return ('cmp', op, a, b)
        return a

    def e_range(self):
        a = self.e_bitor()
        if self.at('..='):
            self.next()
            return ('range_incl', a, self.e_bitor())
        return a

    def e_bitor(self):
        a = self.e_bitand()
        while self.at('|'):
            self.next()
            a = ('bitor', a, self.e_bitand())
        return a

    def e_bitand(self):
        a = self.e_add()
        while self.at('&'):
            self.next()
            a = ('bitand', a, self.e_add())
        return a

    def e_add(self):
        a = self.e_mul()
        while self.peek() in (('p', '+'), ('p', '-')):
            op = self.next()[1]
            a = ('add' if op == '+' else 'sub', a, self.e_mul())
        return a

    def e_mul(self):
        a = self.e_cast()
        while self.peek() in (('p', '*'), ('p', '/')):
            op = self.next()[1]
            a = ('mul' if op == '*' else 'div', a, self.e_cast())
        return a

    def e_cast(self):
        a = self.e_unary()
        while self.at('as'):
            self.next()
            a = ('cast', a, self.ident())
        return a

    def e_unary(self):
        if self.peek() == ('p', '!'):
            self.next()
            return ('not', self.e_unary())
        if self.peek() == ('p', '&'):
            self.next()
            if self.at('mut'):
                self.next()
            return ('ref', self.e_unary())
        if self.peek() == ('p', '-'):
            self.next()
            return ('neg', self.e_unary())
        if self.peek() == ('p', '*'):
            self.next()
            return ('deref', self.e_unary())
        return self.e_postfix()

    def args(self):
        self.eat('(')
        out = []
        while not self.at(')'):
            out.append(self.expr())
            if self.at(','):
                self.next()
        self.eat(')')
        return out

    def e_postfix(self):
        a = self.e_atom()
        while True:
            if self.peek() == ('p', '.'):
                self.next()
                name = self.ident()
                if self.peek() == ('p', '('):
                    a = ('method', a, name, self.args())
                else:
                    a = ('field', a, name)
            elif self.peek() == ('p', '('):
                a = ('call', a, self.args())
            elif self.peek() == ('p', '?'):
                self.next()
                a = ('try', a)
            else:
                return a

    def e_atom(self):
        k, v = self.peek()
        if k == 'num':
            self.next()
            return ('num', int(re.sub(r'[iu](8|16|32|64|size)$', '', v).replace('_', '')))
        if k == 'str':
            self.next()
            return ('str', unescape(v))
        if k == 'chr':
            self.next()
            return ('chr', unescape(v))
        if (k, v) == ('p', '('):
            self.next()
            e = self.expr()
            self.eat(')')
            return ('paren', e)
        if (k, v) == ('id', 'if'):
            return self.if_expr()
        if k == 'id':
            path = [self.ident()]
            while self.at('::'):
                self.next()
                path.append(self.ident())
            if self.peek() == ('p', '!') and self.peek(1) == ('p', '('):
                self.next()
                return ('macro', tuple(path), self.args())
            return ('path', tuple(path))
        raise Unsupported('expression: unexpected %r' % (v,))


def strip_paren(e):
    while e[0] == 'paren':
        e = e[1]
    return e


# ----------------------------------------------------------------------------------------------
# locating items

def find_fns(toks):
    """All `fn` items inside `impl ChannelUriStringBuilder { .. }` / `impl Value { .. }` blocks:
    {(impl_name, fn_name): (is_pub, params, ret_tokens, body_tokens)}"""
    fns = {}
    i = 0
    n = len(toks)
    while i < n:
        if toks[i] == ('id', 'impl') and toks[i + 1][0] == 'id' and toks[i + 2] == ('p', '{'):
            impl_name = toks[i + 1][1]
            j = i + 3
            depth = 1
            while j < n and depth > 0:
                if toks[j] == ('id', 'fn') and depth == 1:
                    is_pub = j > 0 and toks[j - 1] == ('id', 'pub')
                    name = toks[j + 1][1]
                    k = j + 2
                    assert toks[k] == ('p', '('), toks[k]
                    d = 0
                    p0 = k
                    while True:
                        if toks[k][1] == '(' and toks[k][0] == 'p':
                            d += 1
                        elif toks[k][1] == ')' and toks[k][0] == 'p':
                            d -= 1
                            if d == 0:
                                break
                        k += 1
                    params = toks[p0 + 1:k]
                    k += 1
                    r0 = k
                    while toks[k] != ('p', '{'):
                        k += 1
                    ret = toks[r0:k]
                    b0 = k
                    d = 0
                    while True:
                        if toks[k] == ('p', '{'):
                            d += 1
                        elif toks[k] == ('p', '}'):
                            d -= 1
                            if d == 0:
                                break
                        k += 1
                    body = toks[b0:k + 1]
                    if (impl_name, name) in fns:
                        raise Unsupported('duplicate fn %s::%s' % (impl_name, name))
                    fns[(impl_name, name)] = (is_pub, params, ret, body)
                    j = k + 1
                    continue
                if toks[j] == ('p', '{'):
                    depth += 1
                elif toks[j] == ('p', '}'):
                    depth -= 1
                j += 1
            i = j
        else:
            i += 1
    return fns


def split_params(params):
    """token list of a parameter list -> (self_kind, [(name, type_text)])"""
    parts, cur, depth = [], [], 0
    for t in params:
        if t[1] in ('(', '<', '[') and t[0] == 'p':
            depth += 1
        if t[1] in (')', '>', ']') and t[0] == 'p':
            depth -= 1
        if t == ('p', ',') and depth == 0:
            parts.append(cur)
            cur = []
        else:
            cur.append(t)
    if cur:
        parts.append(cur)
    self_kind = None
    out = []
    for p in parts:
        text = ' '.join(x[1] for x in p)
        if text == '& mut self':
            self_kind = 'mut'
        elif text == '& self':
            self_kind = 'ref'
        elif text == 'self':
            self_kind = 'val'
        else:
            if len(p) < 3 or p[1] != ('p', ':'):
                raise Unsupported('parameter %r' % text)
            out.append((p[0][1], ''.join(x[1] for x in p[2:])))
    return self_kind, out


ARG_TYPES = {'&str': 'TStr', 'bool': 'TBool', 'u8': 'TU8', 'u32': 'TU32', 'i32': 'TI32', 'i64': 'TI64'}

# numeric constants the builder's checks may mention: last path segment -> name in GenConsts.v
KNOWN_NUMERIC = {'FRAME_ALIGNMENT': 'GenConsts.FRAME_ALIGNMENT', 'TERM_MAX_LENGTH': 'GenConsts.TERM_MAX_LENGTH',
                 'TERM_MIN_LENGTH': 'GenConsts.TERM_MIN_LENGTH'}


# ----------------------------------------------------------------------------------------------
# translation of setters

class SetterCtx:
    def __init__(self, arg, argty, str_consts):
        self.arg = arg
        self.argty = argty
        self.bound = None          # variable bound by the enclosing `if let Some(x) = &self.f`
        self.bool01 = set()        # local variables holding `if arg {1} else {0}`
        self.str_consts = str_consts


def subj(e, cx):
    e = strip_paren(e)
    if e[0] == 'ref':
        return subj(e[1], cx)
    if e == ('path', (cx.arg,)) and cx.argty == 'TStr':
        return 'SArg'
    if cx.bound is not None and e == ('path', (cx.bound,)):
        return 'SBound'
    raise Unsupported('string subject %r' % (e,))


def str_const(e, cx):
    e = strip_paren(e)
    if e[0] == 'ref':
        return str_const(e[1], cx)
    if e[0] == 'path' and len(e[1]) == 2 and e[1][0] == 'channel_uri' and e[1][1] in cx.str_consts:
        return e[1][1]
    if e[0] == 'str':
        return cps(e[1])
    raise Unsupported('string constant %r' % (e,))


def iexp(e, cx):
    e = strip_paren(e)
    k = e[0]
    if k == 'ref' or k == 'deref':
        return iexp(e[1], cx)
    if k == 'num':
        return '(ILit %d)' % e[1]
    if k == 'neg' and strip_paren(e[1])[0] == 'num':
        return '(ILit (%d))' % (-strip_paren(e[1])[1])
    if k == 'path':
        if e[1] == (cx.arg,) and cx.argty in ('TU8', 'TU32', 'TI32', 'TI64'):
            return 'IArg'
        if e[1][-1] in KNOWN_NUMERIC and len(e[1]) >= 2:
            return '(ILit %s)' % KNOWN_NUMERIC[e[1][-1]]
        raise Unsupported('integer operand %r' % (e[1],))
    if k == 'bitand':
        return '(IAnd %s %s)' % (iexp(e[1], cx), iexp(e[2], cx))
    if k == 'sub':
        return '(ISub %s %s)' % (iexp(e[1], cx), iexp(e[2], cx))
    if k == 'cast':
        casts = {'u32': 'ICastU32', 'i64': 'ICastI64', 'i32': 'ICastI32'}
        if e[2] not in casts:
            raise Unsupported('cast to %s' % e[2])
        return '(%s %s)' % (casts[e[2]], iexp(e[1], cx))
    raise Unsupported('integer expression %r' % (e,))


def cond(e, cx):
    e = strip_paren(e)
    k = e[0]
    if k == 'not':
        return '(CNot %s)' % cond(e[1], cx)
    if k == 'and':
        return '(CAnd %s %s)' % (cond(e[1], cx), cond(e[2], cx))
    if k == 'or':
        return '(COr %s %s)' % (cond(e[1], cx), cond(e[2], cx))
    if k == 'method':
        recv, name, args = e[1], e[2], e[3]
        if name == 'eq' and len(args) == 1:
            return '(CStrEq %s %s)' % (subj(recv, cx), str_const(args[0], cx))
        if name == 'is_empty' and not args:
            return '(CStrEmpty %s)' % subj(recv, cx)
        if name == 'contains' and len(args) == 1:
            r = strip_paren(recv)
            if r[0] == 'range_incl' and strip_paren(r[1])[0] == 'num' and strip_paren(r[2])[0] == 'num':
                return '(CInRange %d %d %s)' % (strip_paren(r[1])[1], strip_paren(r[2])[1], iexp(args[0], cx))
        raise Unsupported('method call .%s in a condition' % name)
    if k == 'cmp':
        op = {'<': 'CLt', '>': 'CGt', '<=': 'CLe', '>=': 'CGe', '==': 'CEq', '!=': 'CNe'}[e[1]]
        return '(%s %s %s)' % (op, iexp(e[2], cx), iexp(e[3], cx))
    raise Unsupported('condition %r' % (e,))


def is_self_field(e):
    e = strip_paren(e)
    if e[0] == 'ref':
        e = strip_paren(e[1])
    if e[0] == 'field' and e[1] == ('path', ('self',)):
        return e[2]
    return None


def only_return_err(stmts):
    return len(stmts) == 1 and stmts[0] == ('return_err',)


def setter_checks(st, cx):
    """A statement that can return early -> list of check terms, or None if the statement is not a check."""
    if st[0] == 'expr' and st[1][0] == 'if':
        _, c, then, els = st[1]
        if els is not None or not only_return_err(then):
            raise Unsupported('if-statement that is not `if c { return Err(..); }`')
        return ['(CkIf %s)' % cond(c, cx)]
    if st[0] == 'expr' and st[1][0] == 'iflet':
        _, var, scrut, body = st[1]
        f = is_self_field(scrut)
        if f is None:
            raise Unsupported('if let on something other than &self.<field>')
        cx.bound = var
        out = []
        for inner in body:
            if not (inner[0] == 'expr' and inner[1][0] == 'if' and inner[1][3] is None and only_return_err(inner[1][2])):
                raise Unsupported('body of `if let Some(..) = &self.%s` in a setter' % f)
            out.append('(CkIfSome "%s" %s)' % (f, cond(inner[1][1], cx)))
        cx.bound = None
        return out
    if st[0] == 'semi' and st[1][0] == 'try':
        c = st[1][1]
        if c[0] == 'call' and c[1][0] == 'path' and c[1][1][-1] == 'check_term_length' and len(c[2]) == 1:
            return ['(CkIf (CTermLengthBad %s))' % iexp(c[2][0], cx)]
        raise Unsupported('`?` on %r' % (c,))
    return None


def rhs(e, cx):
    e = strip_paren(e)
    if e == ('path', ('None',)):
        return 'RNone'
    if e == ('path', ('false',)):
        return 'RFalse'
    if e == ('path', (cx.arg,)) and cx.argty == 'TBool':
        return 'RBoolArg'
    if e[0] == 'call' and e[1] == ('path', ('Some',)) and len(e[2]) == 1:
        inner = strip_paren(e[2][0])
        if inner[0] == 'call' and inner[1] == ('path', ('String', 'from')) and len(inner[2]) == 1:
            if strip_paren(inner[2][0]) == ('path', (cx.arg,)) and cx.argty == 'TStr':
                return 'RSomeStrArg'
        if inner[0] == 'call' and inner[1] == ('path', ('Value', 'new')) and len(inner[2]) == 1:
            v = strip_paren(inner[2][0])
            if v[0] == 'cast' and v[2] == 'i64':
                v = strip_paren(v[1])
            if v == ('path', (cx.arg,)) and cx.argty in ('TU8', 'TU32', 'TI32', 'TI64'):
                return 'RSomeIntArg'
            if v[0] == 'path' and len(v[1]) == 1 and v[1][0] in cx.bool01:
                return 'RSomeBool01Arg'
    raise Unsupported('assigned value %r' % (e,))


def is_bool01(e, cx):
    e = strip_paren(e)
    if e[0] != 'if' or e[3] is None:
        return False
    c, then, els = strip_paren(e[1]), e[2], e[3]
    return (c == ('path', (cx.arg,)) and cx.argty == 'TBool'
            and then == [('tail', ('num', 1))] and els == [('tail', ('num', 0))])


def translate_setter(name, params, body_toks, str_consts):
    if len(params) > 1:
        raise Unsupported('setter %s takes %d arguments' % (name, len(params)))
    if params:
        arg, ty = params[0]
        if ty not in ARG_TYPES:
            raise Unsupported('setter %s: argument type %s' % (name, ty))
        argty = ARG_TYPES[ty]
    else:
        arg, argty = None, 'TUnit'
    cx = SetterCtx(arg, argty, str_consts)
    p = P(body_toks)
    stmts = p.block()
    checks, assigns = [], []
    for idx, st in enumerate(stmts):
        ck = setter_checks(st, cx)
        if ck is not None:
            if assigns:
                raise Unsupported('setter %s: a check after an assignment' % name)
            checks += ck
            continue
        if st[0] == 'let':
            if not is_bool01(st[2], cx):
                raise Unsupported('setter %s: let %s = <not `if arg {1} else {0}`>' % (name, st[1]))
            cx.bool01.add(st[1])
            continue
        if st[0] == 'assign':
            f = is_self_field(st[1])
            if f is None:
                raise Unsupported('setter %s: assignment to %r' % (name, st[1]))
            assigns.append('("%s", %s)' % (f, rhs(st[2], cx)))
            continue
        if st[0] == 'tail' and idx == len(stmts) - 1:
            e = st[1]
            if e == ('path', ('self',)) or e == ('call', ('path', ('Ok',)), [('path', ('self',))]):
                continue
        raise Unsupported('setter %s: statement %r' % (name, st[:2]))
    return ('{| s_name := "%s"; s_arg := %s;\n     s_checks := [%s];\n     s_assigns := [%s] |}'
            % (name, argty, '; '.join(checks), '; '.join(assigns)))


# ----------------------------------------------------------------------------------------------
# translation of build()

def norm_tokens(toks):
    return ' '.join(t[1] for t in toks)


EXPECT_BOOL_TO_STRING = '{ if value . value == 1 { "true" } else { "false" } }'
EXPECT_PREFIX_TAG = '{ if is_tagged { format ! ( "{}{}" , channel_uri :: TAG_PREFIX , value . value ) } else { value . value . to_string ( ) } }'
EXPECT_VALUE_NEW = '{ Self { value } }'


def fmt_macro(e):
    """`&format!("..", a, b)` -> (format string, [args])"""
    e = strip_paren(e)
    if e[0] == 'ref':
        e = strip_paren(e[1])
    if e[0] == 'macro' and e[1] == ('format',) and e[2] and e[2][0][0] == 'str':
        return e[2][0][1], e[2][1:]
    raise Unsupported('expected &format!(..), found %r' % (e,))


def translate_build(body_toks, str_consts):
    stmts = P(body_toks).block()
    it = iter(stmts)

    def nxt():
        try:
            return next(it)
        except StopIteration:
            raise Unsupported('build(): ends early')

    st = nxt()
    if st != ('let', 'sb', ('call', ('path', ('String', 'new')), []), True):
        raise Unsupported('build(): first statement is not `let mut sb = String::new();`')
    # prefix part
    st = nxt()
    ok = False
    if st[0] == 'expr' and st[1][0] == 'iflet':
        _, var, scrut, body = st[1]
        pf = is_self_field(scrut)
        if pf and len(body) == 1 and body[0][0] == 'expr' and body[0][1][0] == 'if':
            _, c, then, els = body[0][1]
            want_c = ('not', ('method', ('path', (var,)), 'is_empty', []))
            if c == want_c and els is None and len(then) == 1 and then[0][0] == 'addassign' and then[0][1] == ('path', ('sb',)):
                f, a = fmt_macro(then[0][2])
                if f == '{}:' and a == [('path', (var,))]:
                    ok = True
    if not ok:
        raise Unsupported('build(): prefix part has an unexpected shape')
    # scheme + media
    st = nxt()
    ok = False
    if st[0] == 'addassign' and st[1] == ('path', ('sb',)):
        f, a = fmt_macro(st[2])
        if f == '{}:{}?' and len(a) == 2 and a[0] == ('path', ('channel_uri', 'AERON_SCHEME')):
            m = a[1]
            if (m[0] == 'method' and m[2] == 'expect' and m[1][0] == 'method' and m[1][2] == 'as_ref'
                    and is_self_field(m[1][1])):
                mf = is_self_field(m[1][1])
                ok = True
    if not ok:
        raise Unsupported('build(): scheme/media part has an unexpected shape')
    rows = []
    st = nxt()
    while st[0] == 'expr' and st[1][0] == 'iflet':
        _, var, scrut, body = st[1]
        f = is_self_field(scrut)
        if not f or len(body) != 1 or body[0][0] != 'addassign' or body[0][1] != ('path', ('sb',)):
            raise Unsupported('build(): emit block for %r' % (scrut,))
        fs, a = fmt_macro(body[0][2])
        if fs != '{}={}|' or len(a) != 2:
            raise Unsupported('build(): format string %r' % fs)
        name = a[0]
        if not (name[0] == 'path' and len(name[1]) == 2 and name[1][0] == 'channel_uri' and name[1][1] in str_consts):
            raise Unsupported('build(): parameter name %r' % (name,))
        v = strip_paren(a[1])
        if v == ('path', (var,)):
            fmt = 'FmtStr'
        elif v == ('field', ('path', (var,)), 'value'):
            fmt = 'FmtInt'
        elif v == ('call', ('path', ('Value', 'bool_to_string')), [('path', (var,))]):
            fmt = 'FmtBool'
        elif (v[0] == 'call' and v[1] == ('path', ('Self', 'prefix_tag')) and len(v[2]) == 2
              and is_self_field(v[2][0]) and v[2][1] == ('path', (var,))):
            fmt = 'FmtTagged "%s"' % is_self_field(v[2][0])
        else:
            raise Unsupported('build(): value expression %r' % (v,))
        rows.append('{| e_field := "%s"; e_name := %s; e_fmt := %s |}' % (f, name[1][1], fmt))
        st = nxt()
    # tail
    want = ('let', 'last_char',
            ('method', ('method', ('method', ('path', ('sb',)), 'chars', []), 'last', []), 'unwrap', []), False)
    if st != want:
        raise Unsupported('build(): expected `let last_char = sb.chars().last().unwrap();`, found %r' % (st[:2],))
    st = nxt()
    want = ('expr', ('if', ('or', ('cmp', '==', ('path', ('last_char',)), ('chr', '|')),
                            ('cmp', '==', ('path', ('last_char',)), ('chr', '?'))),
                     [('semi', ('method', ('path', ('sb',)), 'pop', []))], None))
    if st != want:
        raise Unsupported('build(): trailing-separator removal has an unexpected shape')
    st = nxt()
    if st != ('tail', ('path', ('sb',))):
        raise Unsupported('build(): does not end with `sb`')
    for extra in it:
        raise Unsupported('build(): statements after the result')
    return pf, mf, rows


# ----------------------------------------------------------------------------------------------

def cps(s):
    return '[' + '; '.join(str(ord(c)) for c in s) + ']'


def coq_comment_safe(s):
    return s.replace('(*', '( *').replace('*)', '* )')


def translate(repo):
    uri_src = open(os.path.join(repo, 'src', 'channel_uri.rs')).read()
    b_src = open(os.path.join(repo, 'src', 'channel_uri_string_builder.rs')).read()
    # -- constants
    consts = []
    cut = uri_src.split('#[cfg(test)]')[0]
    ctoks = lex(cut)
    i = 0
    while i + 8 < len(ctoks):
        if (ctoks[i] == ('id', 'pub') and ctoks[i + 1] == ('id', 'const') and ctoks[i + 2][0] == 'id'
                and ctoks[i + 3] == ('p', ':') and ctoks[i + 4] == ('p', '&') and ctoks[i + 5] == ('id', 'str')
                and ctoks[i + 6] == ('p', '=') and ctoks[i + 7][0] == 'str' and ctoks[i + 8] == ('p', ';')):
            consts.append((ctoks[i + 2][1], unescape(ctoks[i + 7][1])))
            i += 9
        else:
            i += 1
    names = [c[0] for c in consts]
    if len(set(names)) != len(names):
        raise Unsupported('duplicate constant names in channel_uri.rs')
    need = ['SPY_QUALIFIER', 'AERON_SCHEME', 'AERON_PREFIX', 'IPC_MEDIA', 'UDP_MEDIA', 'SPY_PREFIX',
            'SESSION_ID_PARAM_NAME', 'TAG_PREFIX', 'MDC_CONTROL_MODE_MANUAL', 'MDC_CONTROL_MODE_DYNAMIC']
    for n in need:
        if n not in names:
            raise Unsupported('constant %s not found in channel_uri.rs' % n)
    str_consts = set(names)
    # -- builder
    btoks = lex(b_src.split('#[cfg(test)]')[0])
    fns = find_fns(btoks)
    helper_errors = []
    for key, want in ((('Value', 'bool_to_string'), EXPECT_BOOL_TO_STRING), (('Value', 'new'), EXPECT_VALUE_NEW),
                      (('ChannelUriStringBuilder', 'prefix_tag'), EXPECT_PREFIX_TAG)):
        if key not in fns:
            helper_errors.append('helper %s::%s not found' % key)
            continue
        got = norm_tokens(fns[key][3])
        if got != want:
            helper_errors.append('helper %s::%s changed: %s' % (key[0], key[1], got))
    setters = []
    build = None
    errors = list(helper_errors)
    for (impl, name), (is_pub, params, ret, body) in fns.items():
        if impl != 'ChannelUriStringBuilder':
            continue
        try:
            self_kind, ps = split_params(params)
            if name == 'build':
                if self_kind != 'ref' or ps:
                    raise Unsupported('build() signature')
                build = translate_build(body, str_consts)
            elif self_kind == 'mut':
                setters.append(translate_setter(name, ps, body, str_consts))
            elif name == 'prefix_tag':
                continue
            else:
                raise Unsupported('unexpected method %s' % name)
        except (Unsupported, IndexError, KeyError, AssertionError) as e:
            # fail closed for this item only: the row is left out (tables_ok then fails), the rest is still
            # translated so that model and oracle keep compiling and a failing input can be searched for
            errors.append('%s: %s' % (name, e))
    if build is None:
        if not any(x.startswith('build') for x in errors):
            errors.append('build: not found')
        build = ('prefix', 'media', [])
    pf, mf, rows = build
    out = ['(* GENERATED on every run by tools/props/c19_translate.py from src/channel_uri.rs and',
           '   src/channel_uri_string_builder.rs of the repository under check. Do not edit. *)']
    if errors:
        out.append('(* INCOMPLETE - the translator did not understand: %s.' % coq_comment_safe('; '.join(errors)))
        out.append('   The rows concerned are missing (an untranslated build() has no emit rows); K1 is reported broken. *)')
    out += ['From Coq Require Import ZArith List String.',
            'Require Import V.Generated.GenConsts.', 'Require Import V.Model.UriTypes.',
            'Import ListNotations.', 'Open Scope Z_scope.', 'Local Open Scope string_scope.', '']
    for n, v in consts:
        out.append('Definition %s : str := %s.  (* "%s" *)' % (n, cps(v), coq_comment_safe(v)))
    out.append('')
    out.append('Definition setter_table : list setter_row :=\n  [ ' + ';\n    '.join(setters) + ' ].')
    out.append('')
    out.append('Definition emit_table : list emit_row :=\n  [ ' + ';\n    '.join(rows) + ' ].')
    out.append('')
    out.append('Definition build_prefix_field : string := "%s".' % pf)
    out.append('Definition build_media_field : string := "%s".' % mf)
    out.append('')
    out.append('Definition gen_tables : tables :=\n  {| t_setters := setter_table; t_emits := emit_table;\n'
               '     t_prefix_field := build_prefix_field; t_media_field := build_media_field;\n'
               '     t_scheme := AERON_SCHEME |}.')
    return '\n'.join(out) + '\n', len(consts), len(setters), len(rows), errors


def generate():
    """Writes GenUriTables.v whenever the constants could be read (so that the Coq files keep compiling and the
    search for a failing input can go on); returns ok = False as soon as any item was not understood."""
    try:
        text, nc, ns, ne, errors = translate(core.REPO)
    except Unsupported as e:
        return False, 'c19_translate: unsupported source shape: %s' % e
    except (OSError, AssertionError, IndexError, KeyError) as e:
        return False, 'c19_translate: %s: %s' % (type(e).__name__, e)
    core.write_if_changed(os.path.join(core.COQ, 'Generated', 'GenUriTables.v'), text)
    if errors:
        return False, 'c19_translate: unsupported source shape: %s' % '; '.join(errors)
    return True, 'uri tables: %d constants, %d setters, %d emit rows' % (nc, ns, ne)


if __name__ == '__main__':
    import sys
    t, a, b, c, errs = translate(sys.argv[1] if len(sys.argv) > 1 else '/repo')
    sys.stdout.write(t)
    sys.stderr.write('errors: %s\n' % errs)


TABLES = [generate]
