"""K1 for C20: the numbers and the growth expression of src/buffer_builder.rs, regenerated from the repository's
working tree on every run into coq/Generated/GenBufferBuilder.v.

The two constants are private to the module, so harness/vconsts cannot print them; they are read from the source text and
their constant expressions are evaluated here.  The translator is deliberately strict: every function body of
BufferBuilder must have exactly the shape Model/BufferBuilder.v was written from (whitespace and comments aside); when a
body differs the table is NOT rewritten (the model keeps the last good numbers, so the cases still run and the differential
comparison finds a concrete input) and the translation is reported as broken.
"""
import os
import re

from vlib import core

SRC = 'src/buffer_builder.rs'


def _strip(src):
    src = re.sub(r'/\*.*?\*/', ' ', src, flags=re.S)
    src = re.sub(r'//[^\n]*', ' ', src)
    return src


def _norm(s):
    return re.sub(r'\s+', ' ', s).strip()


def _fn_body(src, name):
    m = re.search(r'\bfn\s+%s\s*(?:<[^>]*>)?\s*\(' % re.escape(name), src)
    if not m:
        return None
    i = src.index('{', m.end())
    depth, j = 0, i
    while j < len(src):
        if src[j] == '{':
            depth += 1
        elif src[j] == '}':
            depth -= 1
            if depth == 0:
                return _norm(src[m.start():j + 1])
        j += 1
    return None


def _const_expr(expr, env):
    """integer constant expressions: literals, i32::MAX, `as Index`, `data_frame_header::LENGTH`, + - * and parentheses"""
    e = expr
    e = re.sub(r'\bas\s+Index\b', '', e)
    e = e.replace('i32::MAX', '2147483647').replace('Index::MAX', '2147483647')
    for k, v in env.items():
        e = re.sub(r'\b%s\b' % re.escape(k), str(v), e)
    e = _norm(e)
    if not re.fullmatch(r'[0-9+\-*() ]+', e):
        raise ValueError('constant expression not understood: %r' % expr)
    return int(eval(e, {'__builtins__': {}}, {}))


# the bodies the model mirrors (normalised text; `SHIFT` is the hole for the growth shift)
EXPECT = {
    'new': 'fn new(initial_length: isize) -> Self { let len = std::cmp::max( bit_utils::find_next_power_of_two_i64(initial_length as i64) as Index, '
           'BUFFER_BUILDER_MIN_CAPACITY, ); Self { capacity: len, limit: data_frame_header::LENGTH, buffer: alloc_buffer_aligned(len), } }',
    'limit': 'fn limit(&self) -> Index { self.limit }',
    'set_limit': 'fn set_limit(&mut self, limit: Index) -> Result<(), AeronError> { if limit >= self.capacity { return '
                 'Err(IllegalArgumentError::LimitOutsideRange { capacity: self.capacity, limit, } .into()); } self.limit = limit; Ok(()) }',
    'reset': 'fn reset(&mut self) -> &mut BufferBuilder { self.limit = data_frame_header::LENGTH; self }',
    'append': 'fn append( &mut self, buffer: &AtomicBuffer, offset: Index, length: Index, _header: &Header, ) -> Result<&BufferBuilder, AeronError> { '
              'self.ensure_capacity(length)?; unsafe { std::ptr::copy( buffer.buffer().offset(offset as isize), '
              'self.buffer.offset(self.limit as isize), length as usize, ); } self.limit += length; Ok(self) }',
    'find_suitable_capacity': 'fn find_suitable_capacity(current_capacity: Index, required_capacity: Index) -> Result<Index, AeronError> { '
                              'let mut capacity = current_capacity; loop { let new_capacity = capacity + (capacity >> SHIFT); '
                              'if new_capacity < capacity || new_capacity > BUFFER_BUILDER_MAX_CAPACITY { '
                              'if capacity == BUFFER_BUILDER_MAX_CAPACITY { return '
                              'Err(IllegalStateError::MaxCapacityReached(BUFFER_BUILDER_MAX_CAPACITY).into()); } '
                              'capacity = BUFFER_BUILDER_MAX_CAPACITY; } else { capacity = new_capacity; } '
                              'if capacity >= required_capacity { break; } } Ok(capacity) }',
    'ensure_capacity': 'fn ensure_capacity(&mut self, additional_capacity: Index) -> Result<(), AeronError> { '
                       'let required_capacity = self.limit + additional_capacity; if required_capacity > self.capacity { '
                       'let new_capacity = BufferBuilder::find_suitable_capacity(self.capacity, required_capacity)?; '
                       'let new_buffer = alloc_buffer_aligned(new_capacity); unsafe { '
                       'std::ptr::copy_nonoverlapping(self.buffer, new_buffer, self.limit as usize); '
                       'dealloc_buffer_aligned(self.buffer, self.capacity) } self.buffer = new_buffer; self.capacity = new_capacity; } Ok(()) }',
}


def gen_buffer_builder():
    path = os.path.join(core.REPO, SRC)
    target = os.path.join(core.COQ, 'Generated', 'GenBufferBuilder.v')
    src = _strip(open(path).read())
    problems = []
    hdr = None
    try:
        gc = open(os.path.join(core.COQ, 'Generated', 'GenConsts.v')).read()
        m = re.search(r'Definition DFH_LENGTH : Z := \(?(-?\d+)\)?\.', gc)
        hdr = int(m.group(1)) if m else None
    except OSError:
        pass
    if hdr is None:
        hdr = 32
    env = {'data_frame_header::LENGTH': hdr}
    consts = {}
    for name in ('BUFFER_BUILDER_MAX_CAPACITY', 'BUFFER_BUILDER_MIN_CAPACITY'):
        m = re.search(r'\bconst\s+%s\s*:\s*Index\s*=\s*([^;]+);' % name, src)
        if not m:
            problems.append('constant %s not found' % name)
            continue
        try:
            consts[name] = _const_expr(m.group(1), env)
        except ValueError as e:
            problems.append(str(e))
    shift = None
    for fn, want in EXPECT.items():
        got = _fn_body(src, fn)
        if got is None:
            problems.append('fn %s not found' % fn)
            continue
        # tolerate `pub ` in front and trailing commas / spacing differences produced by rustfmt
        g = _norm(got.replace(',)', ')').replace(', )', ' )').replace(', }', ' }'))
        w = _norm(want.replace(', )', ' )').replace(', }', ' }'))
        if fn == 'find_suitable_capacity':
            m = re.search(r'capacity \+ \(capacity >> (\d+)\)', g)
            if m:
                shift = int(m.group(1))
                w = w.replace('SHIFT', m.group(1))
        if g != w:
            problems.append('fn %s no longer has the shape the model mirrors: %s' % (fn, g[:400]))
    if shift is None and not any('find_suitable_capacity' in p for p in problems):
        problems.append('growth expression `capacity + (capacity >> k)` not found')
    ibl = None
    try:
        fa = _strip(open(os.path.join(core.REPO, 'src/fragment_assembler.rs')).read())
        m = re.search(r'\bconst\s+DEFAULT_FRAGMENT_ASSEMBLY_BUFFER_LENGTH\s*:\s*isize\s*=\s*([^;]+);', fa)
        if m:
            ibl = _const_expr(m.group(1), env)
        if not re.search(r'initial_buffer_length\.unwrap_or\(DEFAULT_FRAGMENT_ASSEMBLY_BUFFER_LENGTH\)', fa):
            problems.append('FragmentAssembler::new no longer defaults to DEFAULT_FRAGMENT_ASSEMBLY_BUFFER_LENGTH')
    except (OSError, ValueError) as e:
        problems.append('fragment_assembler.rs: %s' % e)
    if ibl is None:
        problems.append('constant DEFAULT_FRAGMENT_ASSEMBLY_BUFFER_LENGTH not found')
    if problems:
        return False, 'buffer_builder.rs: ' + '; '.join(problems) + (' (table kept)' if os.path.exists(target) else '')
    lines = [
        '(* GENERATED on every run by tools/props/c20_translate.py from %s of the repository under check. *)' % SRC,
        'Require Import ZArith.',
        'Open Scope Z_scope.',
        '',
        '(* const BUFFER_BUILDER_MAX_CAPACITY: Index = i32::MAX as Index - 8 *)',
        'Definition BB_MAX_CAPACITY : Z := %d.' % consts['BUFFER_BUILDER_MAX_CAPACITY'],
        '(* const BUFFER_BUILDER_MIN_CAPACITY: Index = 2 * data_frame_header::LENGTH *)',
        'Definition BB_MIN_CAPACITY : Z := %d.' % consts['BUFFER_BUILDER_MIN_CAPACITY'],
        '(* find_suitable_capacity: let new_capacity = capacity + (capacity >> BB_GROW_SHIFT) *)',
        'Definition BB_GROW_SHIFT : Z := %d.' % shift,
        '(* fragment_assembler.rs: const DEFAULT_FRAGMENT_ASSEMBLY_BUFFER_LENGTH: isize *)',
        'Definition BB_DEFAULT_IBL : Z := %d.' % ibl,
        '',
    ]
    changed = core.write_if_changed(target, '\n'.join(lines))
    return True, 'buffer_builder.rs: MAX %d MIN %d growth capacity + (capacity >> %d), 7 function bodies as modelled%s' % (
        consts['BUFFER_BUILDER_MAX_CAPACITY'], consts['BUFFER_BUILDER_MIN_CAPACITY'], shift, ' (rewritten)' if changed else '')


TABLES = [gen_buffer_builder]
