"""K1 generator of coq/Generated for the area 'ring' of the general source translator (tools/props/src_translate.py)."""
from props import src_translate


def generate():
    return src_translate.generate_area('ring')


TABLES = [generate]
