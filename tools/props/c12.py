"""C12 - image lifecycle: notifications exactly once, memory stays mapped while in use."""
import os
import re

from vlib import core
from vlib.term import z, to_coq

ID = 'C12'
PROP_FILE = 'Props/C12.v'
EVAL_FILES = ['Oracle/C12Oracle.v']
CRATES = ['c12']
MODES = ['debug', 'release']
IMPORTS = 'Require Import V.Base.MachineInt V.Model.CondTimers V.Model.ImageLife V.Oracle.C12Oracle.'
RULE = ('histories of 5-45 operations on a full in-process client (real ring, broadcast, counters buffers, harness clock, four real log files '
        'mapped by the conductor, mapping observed in /proc/self/maps): subscribe / publish (add, driver ready event, find), image available / '
        'unavailable events through a real BroadcastTransmitter (known, unknown, released and closed subscriptions, absent and repeated '
        'correlation ids, one image shared by two subscriptions), handle drops (subscription, publication, kept image clone), client close, a stalled driver (the harness fills the to-driver ring until every command is refused; adds and handle drops happen meanwhile; later drained), and '
        'duty cycles whose clock readings are centred on the live deadlines: last resource check + 1000, every lingering list stamp + linger, '
        'every time a log lost its last handle / was seen unreferenced + linger, each hit exactly, one below, one above, plus small steps and large '
        'jumps; linger in {0, 1000, 2500, 5000}; construction times from 0 (clock smaller than the linger timeout) to 2^40; 1-3 subscriptions x 0-4 images. '
        'A malformed stream re-announces present correlation ids, rebinds keys to other files and runs the clock backwards (correspondence only). '
        'Non-trivial: at least one image announced and later withdrawn / released / closed and a duty cycle after it; distinct = distinct histories')
ASSUMPTIONS = [
    'a subscription / publication handle is taken through add -> ready event -> find in one step: the application holds the only strong handle '
    '(ready events out of order or repeated, and handles dropped inside the conductor, are C09/C10 matters)',
    'the liveness timers of C11 do not fire: the harness refreshes the driver heartbeat at every duty cycle, allocates no client heartbeat counter '
    'and uses an inter-service timeout of 10^12 ms',
    'the driver announces log files that exist with legal geometry (driver_events_well_formed); the same key always comes with the same file',
    'the model is the code as repaired by fixes/C12-linger-underflow.diff; until that is applied the check reports the violation (debug: panic in '
    'on_check_managed_resources when clock < linger; release: mapping and lingering lists dropped early)',
    'the munmap itself is the operating system\'s: "unmapped" is observed as the disappearance of the file path from /proc/self/maps',
]
TRUSTED = [
    'RESOURCE_TIMEOUT_MS is a private constant of client_conductor.rs: re-read from the source text on every run and compared with the model; '
    'the shape of on_check_managed_resources (strong_count == 1, MAX_MOMENT test, the two linger comparisons) is re-read likewise (K1-check-shape)',
    '/proc/self/maps as the witness of a mapping',
]
PER_CASE_TIMEOUT = 10.0

KEYS = [1000, 1001, 1002, 1003, 1004, 1005]


def mode_c(mode):
    return 'Debug' if mode == 'debug' else 'Release'


class _Sim:
    """Bookkeeping to aim operations (exact as far as ids go; times are only aims)."""

    def __init__(self, linger, t0, cid):
        self.linger, self.now, self.next_id = linger, t0, cid + 1
        self.t_check = t0
        self.subs = {}      # reg -> {'live': bool, 'imgs': [corr]}
        self.order = []
        self.pubs = {}      # reg -> (key, inmap)
        self.old_keys = []  # keys of publications dropped earlier (a later publication may share that log again)
        self.keyfile = {}
        self.clones = 0
        self.closed = False
        self.full = False   # to-driver ring full (stalled driver)
        self.stamps = []    # times at which something was lingered / dropped / checked
        self.withdrawn = False
        self.ticks_after = False

    def file_of(self, key, rng):
        if key not in self.keyfile:
            self.keyfile[key] = rng.randrange(0, 4)
        return self.keyfile[key]

    def pick_time(self, rng, monotone=True):
        cands = [self.t_check + 1000 + d for d in (-1, 0, 1)]
        for t in self.stamps[-6:]:
            for d in (-1, 0, 1):
                cands.append(t + self.linger + d)
                cands.append(t + self.linger + 1000 + d)
        cands = [c for c in cands if c >= self.now] if monotone else cands
        r = rng.random()
        if r < 0.55 and cands:
            t = rng.choice(cands)
        elif r < 0.85:
            t = self.now + rng.choice([0, 1, 10, 100, 400, 999, 1000, 1001, 1500, 2500])
        elif r < 0.97:
            t = self.now + rng.choice([self.linger, self.linger + 1001, 2 * self.linger + 2002, 60000])
        else:
            t = self.now + 2**33
        if monotone:
            t = max(t, self.now)
        return max(t, 0)

    def cycle(self, now):
        self.now = max(self.now, now)
        if now > self.t_check + 1000:
            self.t_check = now
            self.stamps.append(now)


def gen_history(rng, malformed=False):
    linger = rng.choice([5000, 5000, 1000, 2500, 0])
    t0 = rng.choice([0, 1500, 1500, 4000, 10**6, 10**6, 1600000000000, 2**40])
    cid = rng.choice([0, 3])
    sim = _Sim(linger, t0, cid)
    ops = []
    n = rng.randrange(5, 46)
    # start with a subscription most of the time
    plan_close = rng.random() < 0.25
    stall_plan = rng.random() < 0.35    # this history has a stalled driver (to-driver ring full) at some point
    chan_plan = rng.random() < 0.4      # the driver reports channel endpoint errors for the subscriptions' channel
    for step in range(n):
        r = rng.random()
        live = [g for g in sim.order if g in sim.subs and sim.subs[g]['live']]
        held = [g for g in sim.order if g in sim.subs]
        now = sim.pick_time(rng, monotone=not (malformed and rng.random() < 0.2))
        if step == 0 or (r < 0.10 and len(held) < 3):
            ops.append(['S', now])
            if not sim.closed:
                if not sim.full:
                    sim.subs[sim.next_id] = {'live': True, 'imgs': []}
                    sim.order.append(sim.next_id)
                    sim.cycle(now)
                sim.next_id += 1
        elif r < 0.18 and len(sim.pubs) < 3:
            keys = [k for (k, _) in sim.pubs.values()] + sim.old_keys
            share = rng.choice(keys) if keys and rng.random() < 0.5 else -1
            key = share if share >= 0 else sim.next_id
            f = sim.file_of(key, rng)
            if malformed and rng.random() < 0.3:
                f = rng.randrange(0, 4)
            ops.append(['P', now, share, f])
            if not sim.closed:
                if not sim.full:
                    sim.pubs[sim.next_id] = (key, True)
                    sim.cycle(now)
                sim.next_id += 1
        elif r < 0.38:
            # image available
            q = rng.random()
            if live and q < 0.8:
                reg = rng.choice(live)
            elif held and q < 0.9:
                reg = rng.choice(held)
            else:
                reg = rng.choice([0, sim.next_id + 2, cid])
            corr = rng.choice(KEYS)
            present = reg in sim.subs and corr in sim.subs[reg]['imgs']
            if present and not malformed:
                free = [k for k in KEYS if k not in sim.subs[reg]['imgs']]
                if not free:
                    ops.append(['T', now])
                    sim.cycle(now)
                    continue
                corr = rng.choice(free)
            f = sim.file_of(corr, rng)
            if malformed and rng.random() < 0.3:
                f = rng.randrange(0, 4)
            ops.append(['A', now, corr, reg, f])
            if reg in sim.subs and sim.subs[reg]['live']:
                sim.subs[reg]['imgs'].append(corr)
                sim.stamps.append(now)
            sim.cycle(now)
        elif r < 0.52:
            q = rng.random()
            withimg = [g for g in live if sim.subs[g]['imgs']]
            if withimg and q < 0.7:
                reg = rng.choice(withimg)
                corr = rng.choice(sim.subs[reg]['imgs'])
            elif held and q < 0.9:
                reg = rng.choice(held)
                corr = rng.choice(KEYS)          # often absent, or a repeated withdrawal
            else:
                reg, corr = rng.choice([0, sim.next_id + 2]), rng.choice(KEYS)
            ops.append(['U', now, corr, reg])
            if reg in sim.subs and sim.subs[reg]['live'] and corr in sim.subs[reg]['imgs']:
                sim.subs[reg]['imgs'].remove(corr)
                sim.stamps.append(now)
                sim.withdrawn = True
            sim.cycle(now)
        elif r < 0.545 and stall_plan and not sim.full and step > 2:
            ops.append(['ST'])
            sim.full = True
        elif r < 0.57 and sim.full:
            ops.append(['DR'])
            sim.full = False
        elif r < 0.78:
            ops.append(['T', now])
            if sim.withdrawn:
                sim.ticks_after = True
            sim.cycle(now)
        elif (r < 0.83 or (sim.full and r < 0.90)) and held:
            reg = rng.choice(held) if rng.random() < 0.9 else sim.next_id + 1
            ops.append(['DS', now, reg])
            sim.now = max(sim.now, now)
            if reg in sim.subs:
                if sim.subs[reg]['live']:
                    sim.next_id += 1
                    if sim.subs[reg]['imgs']:
                        sim.withdrawn = True
                    sim.stamps.append(now)
                del sim.subs[reg]
        elif r < 0.87 and sim.pubs:
            reg = rng.choice(list(sim.pubs))
            ops.append(['DP', now, reg])
            sim.now = max(sim.now, now)
            if sim.pubs[reg][1]:
                sim.next_id += 1
            sim.old_keys.append(sim.pubs[reg][0])
            del sim.pubs[reg]
            sim.stamps.append(now)
        elif r < 0.93 and held:
            reg = rng.choice(held)
            k = len(sim.subs[reg]['imgs'])
            idx = rng.randrange(0, k) if k and rng.random() < 0.85 else rng.choice([k, k + 1, -1])
            ops.append(['H', reg, idx])
            if 0 <= idx < k:
                sim.clones += 1
        elif r < 0.96 and sim.clones:
            j = rng.randrange(0, sim.clones) if rng.random() < 0.9 else sim.clones
            ops.append(['UH', j])
            if j < sim.clones:
                sim.clones -= 1
                sim.stamps.append(sim.now)
        elif chan_plan and r < 0.975 and held:
            # a channel endpoint error (error code 4) on the subscriptions' channel status indicator: every registered subscription
            # loses its images and is forgotten by the conductor; later announcements for it must be ignored
            ops.append(['E', now])
            for g in sim.subs:
                if sim.subs[g]['live']:
                    if sim.subs[g]['imgs']:
                        sim.withdrawn = True
                    sim.subs[g] = {'live': False, 'imgs': []}
            sim.stamps.append(now)
            sim.cycle(now)
        elif plan_close and step > n // 2:
            ops.append(['X', now])
            sim.now = max(sim.now, now)
            if not sim.closed:
                sim.closed = True
                for g in sim.subs:
                    if sim.subs[g]['live'] and sim.subs[g]['imgs']:
                        sim.withdrawn = True
                    sim.subs[g] = {'live': False, 'imgs': []}
                sim.pubs = {k: (v[0], False) for k, v in sim.pubs.items()}
                sim.stamps.append(now)
        else:
            ops.append(['T', now])
            if sim.withdrawn:
                sim.ticks_after = True
            sim.cycle(now)
    # drain: a few resource checks far enough apart to see the mappings go
    t = sim.now
    for _ in range(rng.randrange(0, 5)):
        t += rng.choice([1001, linger + 1, linger + 1001, 1000, linger])
        ops.append(['T', t])
        if sim.withdrawn:
            sim.ticks_after = True
    return {'kind': 'malformed' if malformed else 'run', 'cfg': [linger, t0, cid], 'ops': ops,
            'nt': bool(sim.withdrawn and sim.ticks_after)}


def scripted():
    cases = []
    # the suspected defect: clock 1500, linger 5000, one lingering list, first resource check
    cases.append({'kind': 'run', 'cfg': [5000, 1500, 0], 'ops': [['S', 1500], ['A', 1600, 1000, 1, 0], ['T', 2600]], 'nt': False})
    for d in (-1, 0, 1):
        # one image withdrawn at 1000200: the list lingers until a check later than 1005200, the registry entry is then seen
        # unreferenced at the next check c and unmapped at the first check later than c + 5000
        ops = [['S', 10**6], ['A', 10**6 + 100, 1000, 4, 1], ['U', 10**6 + 200, 1000, 4],
               ['T', 10**6 + 5200 + d], ['T', 10**6 + 6300], ['T', 10**6 + 11300 + d], ['T', 10**6 + 12400], ['T', 10**6 + 20000]]
        cases.append({'kind': 'run', 'cfg': [5000, 10**6, 3], 'ops': ops, 'nt': True})
        # two subscriptions share one image (same correlation id, same file); kept clone outlives both
        ops = [['S', 5000], ['S', 5000], ['A', 5100, 1001, 1, 2], ['A', 5100, 1001, 2, 2], ['H', 1, 0], ['DS', 5200, 1], ['U', 5300, 1001, 2],
               ['U', 5300, 1001, 2], ['T', 6301 + d], ['T', 12000], ['T', 18000], ['UH', 0], ['T', 19001], ['T', 24001 + d], ['T', 25002], ['T', 40000]]
        cases.append({'kind': 'run', 'cfg': [5000, 5000, 0], 'ops': ops, 'nt': True})
        # publication sharing a log, client close, handles dropped later
        ops = [['P', 7000, -1, 3], ['P', 7000, 1, 3], ['S', 7000], ['A', 7100, 1002, 3, 0], ['X', 7200], ['T', 8201], ['DP', 8300, 1],
               ['T', 9400], ['T', 15000], ['DP', 15000, 2], ['DS', 15100, 3], ['T', 16101 + d], ['T', 21102 + d], ['T', 30000]]
        cases.append({'kind': 'run', 'cfg': [5000, 7000, 0], 'ops': ops, 'nt': True})
    for d in (-1, 0, 1):
        # a publication dropped, its log seen unreferenced (stamped at 21001), the log handed out again to a second publication
        # before the linger period ends, that one dropped at 25000: the mapping must survive until 30000 at least
        ops = [['P', 20000, -1, 1], ['DP', 20500, 1], ['T', 21001], ['P', 24000, 1, 1], ['DP', 25000, 3], ['T', 26002 + d], ['T', 27003],
               ['T', 30000 + d], ['T', 32004 + d], ['T', 40000]]
        cases.append({'kind': 'run', 'cfg': [5000, 20000, 0], 'ops': ops, 'nt': True})
    # the driver stalls (to-driver ring full): adds are refused, a subscription with 1-3 images and publications are dropped meanwhile
    for nimg in (1, 2, 3):
        ops = [['S', 50000], ['P', 50000, -1, 3]] + [['A', 50100 + i, 1000 + i, 1, i] for i in range(nimg)] + \
              [['ST'], ['S', 50200], ['P', 50200, 2, 3], ['DS', 50300, 1], ['DP', 50400, 2], ['DR'], ['S', 50500], ['T', 51501], ['T', 56502],
               ['T', 57503], ['T', 62504], ['X', 63000], ['T', 64001], ['T', 70000], ['T', 76000]]
        cases.append({'kind': 'run', 'cfg': [5000, 50000, 0], 'ops': ops, 'nt': True})
    # channel endpoint error (error code 4) on the subscriptions' channel status indicator: subscriptions with 0 / 1 / 2 images,
    # announcements and withdrawals afterwards (ignored), a kept clone, a new subscription, the mappings going away after linger
    for nimg in (0, 1, 2):
        ops = [['S', 90000], ['S', 90000]] + [['A', 90100 + i, 1000 + i, 1, i] for i in range(nimg)] + ([['H', 1, 0]] if nimg else []) + \
              [['E', 90200], ['A', 90300, 1002, 1, 2], ['A', 90300, 1003, 2, 3], ['U', 90400, 1000, 1], ['S', 90500], ['A', 90600, 1003, 3, 3],
               ['E', 90700], ['T', 91701], ['T', 96702], ['T', 97703], ['T', 102704], ['DS', 102800, 1], ['DS', 102800, 2], ['T', 110000]]
        cases.append({'kind': 'run', 'cfg': [5000, 90000, 0], 'ops': ops, 'nt': True})
    cases.append({'kind': 'run', 'cfg': [5000, 90000, 0], 'nt': True,
                  'ops': [['S', 90000], ['P', 90000, -1, 3], ['A', 90100, 1000, 1, 0], ['E', 90200], ['X', 90300], ['E', 90400], ['T', 91401], ['T', 96402], ['T', 101403], ['DP', 101500, 2], ['T', 110000]]})
    return cases


def generate(rng, tier):
    big = tier == 'thorough'
    cases = scripted()
    for _ in range(500 if not big else 4000):
        cases.append(gen_history(rng))
    for _ in range(60 if not big else 200):
        cases.append(gen_history(rng, malformed=True))
    return cases


# ---------------------------------------------------------------------------------------------

def impl_line(c):
    return 'run %d %d %d | %s' % (tuple(c['cfg']) + (' ; '.join(' '.join(str(x) for x in o) for o in c['ops']),))


_NAMES = {'S': 'Subscribe', 'P': 'Publish', 'A': 'Avail', 'U': 'Unavail', 'T': 'Tick', 'DS': 'DropSub', 'DP': 'DropPub',
          'H': 'Hold', 'UH': 'Unhold', 'X': 'CloseClient', 'ST': 'Stall', 'DR': 'Drain', 'E': 'ChanErr'}


def _ops(c):
    return '[' + '; '.join('%s %s' % (_NAMES[o[0]], ' '.join(z(x) for x in o[1:])) for o in c['ops']) + ']'


def model_expr(c, mode):
    linger, t0, cid = c['cfg']
    return 'run %s %s (init %s %s) %s' % (mode_c(mode), z(linger), z(t0), z(cid), _ops(c))


def oracle_expr(c, mode, obs):
    if isinstance(obs, int) or obs[0] != 'list':
        return 'false'      # Crash / Hang / unparsable: the history did not even complete
    linger, t0, cid = c['cfg']
    return 'holds_run %s %s %s %s' % (z(linger), z(t0), _ops(c), to_coq(obs))


def nontrivial(c):
    return bool(c.get('nt'))


def shrink(c):
    out = []
    ops = c['ops']
    for k in (len(ops) // 2, len(ops) - 1):
        if 0 < k < len(ops):
            out.append(dict(c, ops=ops[:k]))
    for i in range(len(ops)):
        out.append(dict(c, ops=ops[:i] + ops[i + 1:]))
    return out


def extra_checks(run):
    src = open(os.path.join(core.REPO, 'src', 'client_conductor.rs')).read()
    body = src.split('#[cfg(test)]')[0]
    res = []
    consts = dict(re.findall(r'const (RESOURCE_TIMEOUT_MS): Moment = ([0-9_]+);', body))
    vals = core.coq_eval('C12_k1', IMPORTS, ['RESOURCE_TIMEOUT_MS'])
    ok = 'RESOURCE_TIMEOUT_MS' in consts and int(consts['RESOURCE_TIMEOUT_MS'].replace('_', '')) == vals[0]
    res.append((ok, 'K1-consts', 'source %s vs model %s' % (consts, vals[0])))
    norm = re.sub(r'\s+', ' ', body)
    needed = [
        'if Arc::strong_count(&entry.log_buffers) == 1 {',
        'if MAX_MOMENT == entry.time_of_last_state_change_ms { entry.time_of_last_state_change_ms = now_ms; }',
        'if now_ms > self.time_of_last_check_managed_resources_ms + RESOURCE_TIMEOUT_MS { self.on_check_managed_resources(now_ms);',
        'lb.time_of_last_state_change_ms = MAX_MOMENT;',
        'time_of_last_state_change_ms: MAX_MOMENT,',
    ]
    missing = [n for n in needed if n not in norm]
    res.append((not missing, 'K1-check-shape', 'missing: %s' % missing))
    return res
