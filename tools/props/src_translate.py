"""General K1 source translator (pure helper functions and small decision functions of every area).

Reuses the lexer / function finder / expression parser of c17_translate.py and adds, see docs/reports/SRC.md:

    types       i8 i16 i32 i64 u8 u16 u32 u64 usize isize bool, Index (= i32), Moment (= u64), AeronCommand (#[repr(C)] enum, i32)
    body        stmt* [expr]
    stmt        'let' ['mut'] x [':' T] '=' expr ';'
              | x ('=' | '+=' | '-=' | '*=') expr ';'                  (x a `let mut` / `mut` parameter)
              | 'self' '.' f ('=' | '+=' | '-=') expr ';'              (effect "self.f" + the new value is what later reads see)
              | 'if' cond '{' body '}' ['else' ('if' ... | '{' body '}')]
              | 'return' expr ';'
              | expr '?' ';'                                           (a translated function returning Result)
              | effect-call ';'                                        (listed per function: a call that writes state the function does not own)
              | 'log' '!' '(' ... ')' ';'                              (ignored)
    expr        everything of c17_translate.py, plus
              | 'if' cond '{' body '}' 'else' ...                      (as a value)
              | 'Ok' '(' (expr | '(' ')') ')' | 'Err' '(' errval ')' | errval
              | [path '::'] 'Self' '{' field [':' expr] ',' ... '}'    (struct literal: numeric fields only, others must be listed as skipped)
              | 'self' '.' field | 'Self' '::' CONST | '*' CONST (lazy_static) | 'true' | 'false'
              | e '.' ('saturating_add' | 'saturating_sub') '(' e ')' | e '.' 'clamp' '(' e ',' e ')' | e '.' 'trailing_zeros' '(' ')'
              | opaque read (listed per function by its token text: becomes a parameter)
    errval      path ['{' field [':' expr] ',' ... '}' | '(' expr ',' ... ')'] ['.' 'into' '(' ')']

Fragments: besides whole functions, a named `let` (or the n-th `if` / `while` condition, an `x op= e` statement, a
field of a struct literal) inside a function that as a whole is outside the grammar can be translated on its own; its
free variables become parameters whose types are read from the function's signature / the struct declaration, or are
given in the table below (types of locals bound to buffer reads).

Anything outside the grammar makes that function / fragment *untranslated*: left out of the generated file (every
proof about it fails), the generator returns ok = False, the rest is still written.
"""
import os
import re

from vlib import core
from props import c17_translate as c17
from props.c17_translate import TranslateError, strip_comments, par, lit, show, coq_comment_safe

# ----------------------------------------------------------------------------------------------
# lexing (c17_translate's token set plus `?`, string / char literals, lifetimes, `#`, `@`, `$`, `..`)

_SUF = r'(?:(?:i|u)(?:8|16|32|64|128|size))?'
_TOK = re.compile(r'''\s*(?:
    (?P<num>0[xX][0-9a-fA-F_]+%s|0[oO][0-7_]+%s|0[bB][01_]+%s|\d[\d_]*%s)
  | (?P<str>"(?:[^"\\]|\\.)*")
  | (?P<life>'[A-Za-z_][A-Za-z_0-9]*(?!'))
  | (?P<chr>'(?:[^'\\]|\\.)')
  | (?P<id>[A-Za-z_][A-Za-z_0-9]*)
  | (?P<op><<=|>>=|\.\.=|\.\.|<<|>>|&&|\|\||<=|>=|==|!=|::|->|=>|\+=|-=|\*=|/=|%%=|&=|\|=|\^=|[-+*/%%<>=!(){}\[\];,.:&|^?#@$~])
)''' % (_SUF, _SUF, _SUF, _SUF), re.X)


def lex(s):
    out = []
    pos = 0
    s = s.rstrip()
    while pos < len(s):
        m = _TOK.match(s, pos)
        if not m:
            if s[pos:].strip() == '':
                break
            raise TranslateError('cannot tokenize %r' % s[pos:pos + 30].strip())
        pos = m.end()
        for k in ('num', 'id', 'op', 'str', 'life', 'chr'):
            if m.group(k) is not None:
                out.append((k, m.group(k)))
                break
    return out


def norm_text(s):
    try:
        return ' '.join(v for _, v in lex(s))
    except TranslateError:
        return ' '.join(s.split())


def find_fn(src, name, start=0):
    """(param-list text, return type text (with any where clause), body text) of the first `fn name` in src[start:]"""
    m = re.compile(r'\bfn\s+%s\s*(?=[<(])' % re.escape(name)).search(src, start)
    if not m:
        raise TranslateError('fn %s not found' % name)
    i = m.end()
    if src[i] == '<':                       # generic parameters
        d = 0
        while i < len(src):
            if src[i] == '<':
                d += 1
            elif src[i] == '>' and src[i - 1] != '-':
                d -= 1
                if d == 0:
                    i += 1
                    break
            i += 1
        while src[i].isspace():
            i += 1
    if src[i] != '(':
        raise TranslateError('fn %s: parameter list not found' % name)
    i += 1
    depth = 1
    j = i
    while depth and j < len(src):
        depth += {'(': 1, ')': -1}.get(src[j], 0)
        j += 1
    params = src[i:j - 1]
    k = src.find('{', j)
    semi = src.find(';', j)
    if k < 0 or (0 <= semi < k):
        raise TranslateError('fn %s has no body' % name)
    ret = src[j:k].strip()
    ret = re.split(r'\bwhere\b', ret)[0].strip()
    depth = 1
    e = k + 1
    while depth and e < len(src):
        depth += {'{': 1, '}': -1}.get(src[e], 0)
        e += 1
    if depth:
        raise TranslateError('unbalanced braces in fn %s' % name)
    return params, ret, src[k + 1:e - 1]

# ----------------------------------------------------------------------------------------------
# types

TYPES = {'i8': 'i8', 'i16': 'i16', 'i32': 'i32', 'i64': 'i64', 'u8': 'u8', 'u16': 'u16', 'u32': 'u32', 'u64': 'u64',
         'usize': 'usize', 'isize': 'isize', 'bool': 'bool', 'Index': 'i32', 'Moment': 'u64', 'AeronCommand': 'i32'}
BITS = {'i8': 8, 'i16': 16, 'i32': 32, 'i64': 64, 'u8': 8, 'u16': 16, 'u32': 32, 'u64': 64, 'usize': 64, 'isize': 64}
SIGNED = {'i8', 'i16', 'i32', 'i64', 'isize'}
TAG = {'i8': 'TI8', 'i16': 'TI16', 'i32': 'TI32', 'i64': 'TI64', 'isize': 'TI64', 'u8': 'TU8', 'u16': 'TU16', 'u32': 'TU32',
       'u64': 'TU64', 'usize': 'TU64', 'bool': 'TBool'}


def lo(t):
    return -(1 << (BITS[t] - 1)) if t in SIGNED else 0


def hi(t):
    return (1 << (BITS[t] - 1)) - 1 if t in SIGNED else (1 << BITS[t]) - 1


def canon(t):
    """usize / isize behave as u64 / i64 (64-bit target) but never unify with them in Rust's type checker"""
    return t


def op_text(ty, op):
    """Gallina head of the checked operator `op` at type ty (i32 / i64 keep the operators of MachineInt.v / MachineInt2.v)"""
    if ty in ('i32', 'i64'):
        w = '32' if ty == 'i32' else '64'
        return {'+': 'add%s m' % w, '-': 'sub%s m' % w, '*': 'mul%s m' % w, '/': 'div%s' % w, '%': 'rem%s' % w,
                '<<': 'cshl%s m' % w, '>>': 'cshr%s m' % w, 'neg': 'neg%s m' % w}[op]
    t = TAG[ty]
    return {'+': 'addT m %s' % t, '-': 'subT m %s' % t, '*': 'mulT m %s' % t, '/': 'divT %s' % t, '%': 'remT %s' % t,
            '<<': 'shlT m %s' % t, '>>': 'shrT m %s' % t, 'neg': 'negT m %s' % t}[op]


def wrap_text(ty):
    if ty == 'i32':
        return 'wrap32'
    if ty == 'i64':
        return 'wrap64'
    return 'castT %s' % TAG[ty]


# ----------------------------------------------------------------------------------------------
# source files, scopes, `use` resolution

class Source:
    """the text of one .rs file (comments stripped, test module cut off) and its items"""

    def __init__(self, repo, path):
        self.path = path
        self.text = strip_comments(open(os.path.join(repo, path)).read())
        self.text = re.split(r'#\[cfg\(test\)\]\s*(?:pub\s+)?mod\b', self.text)[0]
        self._cont = {}

    def container(self, cont):
        """text of `mod name { .. }` / all `impl name { .. }` blocks; None = the whole file"""
        if cont is None:
            return self.text
        if cont in self._cont:
            return self._cont[cont]
        out = []
        for m in re.finditer(r'\b(?:mod|impl(?:\s*<[^>{]*>)?)\s+(?:[A-Za-z_][\w:]*\s+for\s+)?%s\b[^{;]*\{' % re.escape(cont), self.text):
            k = m.end() - 1
            depth, e = 1, k + 1
            while depth and e < len(self.text):
                depth += {'{': 1, '}': -1}.get(self.text[e], 0)
                e += 1
            out.append(self.text[k + 1:e - 1])
        if not out:
            raise TranslateError('%s: no `mod %s` / `impl %s`' % (self.path, cont, cont))
        self._cont[cont] = '\n'.join(out)
        return self._cont[cont]

    def kind_of(self, name):
        if re.search(r'\bmod\s+%s\s*\{' % re.escape(name), self.text):
            return 'mod'
        if re.search(r'\bimpl(?:\s*<[^>{]*>)?\s+%s\b' % re.escape(name), self.text):
            return 'impl'
        return None


def use_paths(text):
    """every path imported by the `use` statements of text, as lists of segments"""
    out = []

    def expand(prefix, tree):
        tree = tree.strip()
        if not tree:
            return
        # split on top-level commas
        if tree.startswith('{') and tree.endswith('}') and _balanced_braces(tree):
            depth, cur, parts = 0, '', []
            for ch in tree[1:-1]:
                if ch == ',' and depth == 0:
                    parts.append(cur)
                    cur = ''
                else:
                    depth += {'{': 1, '}': -1}.get(ch, 0)
                    cur += ch
            parts.append(cur)
            for p in parts:
                expand(prefix, p)
            return
        m = re.match(r'^([A-Za-z_]\w*)\s*::\s*(.*)$', tree, flags=re.S)
        if m:
            expand(prefix + [m.group(1)], m.group(2))
            return
        m = re.match(r'^([A-Za-z_]\w*)(?:\s+as\s+([A-Za-z_]\w*))?$', tree)
        if m:
            out.append((prefix + [m.group(1)], m.group(2) or m.group(1)))
            return
        if tree == '*':
            out.append((prefix + ['*'], '*'))
            return
        raise TranslateError('use tree `%s` not understood' % tree)

    for m in re.finditer(r'\buse\s+([^;]+);', text):
        expand([], ' '.join(m.group(1).split()))
    return out


def _balanced_braces(s):
    d = 0
    for i, c in enumerate(s):
        d += {'{': 1, '}': -1}.get(c, 0)
        if d == 0 and i < len(s) - 1:
            return False
    return d == 0


class Repo:
    def __init__(self, repo):
        self.repo = repo
        self.files = {}

    def src(self, path):
        if path not in self.files:
            self.files[path] = Source(self.repo, path)
        return self.files[path]

    def module_file(self, segs):
        """crate path of a module -> repo-relative file or None"""
        for cand in ('src/' + '/'.join(segs) + '.rs', 'src/' + '/'.join(segs) + '/mod.rs'):
            if os.path.exists(os.path.join(self.repo, cand)):
                return cand
        return None

    def resolve_path(self, scope, segs):
        """an imported crate path -> ('scope', (file, container)) for a module / type, or ('item', (file, container), name)"""
        path, cont = scope
        if segs and segs[0] == 'super' and cont is not None and self.src(path).kind_of(cont) == 'mod':
            rest = segs[1:]
            if len(rest) == 1:
                k = self.src(path).kind_of(rest[0])
                if k:
                    return ('scope', (path, rest[0]))
                return ('item', (path, None), rest[0])
            raise TranslateError('path %s not understood' % '::'.join(segs))
        if segs and segs[0] == 'crate':
            segs = segs[1:]
        elif segs and segs[0] in ('std', 'core', 'alloc'):
            return ('extern', None)
        f = self.module_file(segs)
        if f:
            return ('scope', (f, None))
        if len(segs) >= 2:
            f = self.module_file(segs[:-1])
            if f:
                k = self.src(f).kind_of(segs[-1])
                if k:
                    return ('scope', (f, segs[-1]))
                return ('item', (f, None), segs[-1])
        return ('extern', None)

    def imports(self, scope):
        """name -> resolution, for the `use` statements visible in scope"""
        path, cont = scope
        s = self.src(path)
        text = s.container(cont) if (cont is not None and s.kind_of(cont) == 'mod') else _top_level_uses(s.text)
        out = {}
        for segs, alias in use_paths(text):
            if alias == '*':
                continue
            out[alias] = self.resolve_path(scope, segs)
        return out

    def qualifier(self, scope, q):
        """the scope a path qualifier `q::` names when written inside `scope`"""
        path, cont = scope
        s = self.src(path)
        if q == 'Self':
            return scope
        in_mod = cont is not None and s.kind_of(cont) == 'mod'
        if not in_mod and s.kind_of(q):
            return (path, q)
        imp = self.imports(scope)
        if q in imp and imp[q][0] == 'scope':
            return imp[q][1]
        raise TranslateError('qualifier %s:: not resolved in %s' % (q, path))

    def lookup(self, scope, pre, name):
        """the scope in which the item `pre::name` written inside `scope` is defined"""
        path, cont = scope
        if pre:
            if pre[0] in ('crate', 'super') or len(pre) > 1:
                r = self.resolve_path(scope, list(pre))
                if r[0] == 'scope':
                    return r[1]
                raise TranslateError('path %s::%s not resolved' % ('::'.join(pre), name))
            return self.qualifier(scope, pre[0])
        s = self.src(path)
        in_mod = cont is not None and s.kind_of(cont) == 'mod'
        if in_mod:
            if _defines(s.container(cont), name):
                return scope
        else:
            if _defines(_strip_nested_mods(s.text), name):
                return (path, None)
        imp = self.imports(scope)
        if name in imp and imp[name][0] == 'item':
            return imp[name][1]
        raise TranslateError('%s is not defined or imported in %s%s' % (name, path, '::' + cont if cont else ''))


def _top_level_uses(text):
    return _strip_nested_mods(text)


def _strip_nested_mods(text):
    """text without the bodies of nested `mod x { .. }`"""
    out = []
    i = 0
    for m in re.finditer(r'\bmod\s+[A-Za-z_]\w*\s*\{', text):
        if m.start() < i:
            continue
        out.append(text[i:m.end()])
        depth, e = 1, m.end()
        while depth and e < len(text):
            depth += {'{': 1, '}': -1}.get(text[e], 0)
            e += 1
        i = e - 1
    out.append(text[i:])
    return ''.join(out)


def _defines(text, name):
    return re.search(r'\b(?:fn|const|static\s+ref|static)\s+%s\b' % re.escape(name), text) is not None


def const_decl(text, name):
    """(type text, rhs text) of `const NAME: T = rhs;` / `static ref NAME: T = rhs;` in text, or None"""
    m = re.search(r'\b(?:const|static\s+ref)\s+%s\s*:\s*([A-Za-z_]\w*)\s*=\s*([^;]*);' % re.escape(name), text)
    return (m.group(1), m.group(2).strip()) if m else None


# ----------------------------------------------------------------------------------------------
# parsing.  AST of c17_translate.py plus
#   ('if', cond, (stmts, tail), (stmts, tail) | None)   ('ok', e | None)   ('err', e)   ('errv', name, [args])
#   ('struct', [(field, e)])   ('opaque', pname, ty)   ('self', 'field', f)   ('bool', b)   ('try', e)
#   ('sat', 'add' | 'sub', a, b)   ('clamp', x, lo, hi)   ('tz', a)   ('call', name, args, pre [, 'method'])
# statements: ('let', x, ty, e | None, mut)  ('assign', ('var', x) | ('self', f), op, e)  ('ifs', cond, A, B | None)
#             ('return', e | None)  ('try', e)  ('eff', name, [args])

ASSIGN_OPS = ('=', '+=', '-=', '*=')
CAMEL = re.compile(r'^[A-Z][a-z0-9]\w*$|^[A-Z]$')
UPPER = re.compile(r'^[A-Z][A-Z0-9_]*$')


class SParser(c17.Parser):
    def __init__(self, toks, opaque=(), effects=(), skip_fields=()):
        c17.Parser.__init__(self, toks, set(), allow_self=True)
        self.opaque = [(o[0], o[1], o[2]) for o in opaque]       # (token texts, parameter name, type)
        self.effects = set(effects)
        self.skip_fields = set(skip_fields)
        self.no_struct = 0

    def type(self):
        v = self.expect('id')
        if v not in TYPES:
            raise TranslateError('type %s not in the grammar' % v)
        return TYPES[v]

    # -- statements ------------------------------------------------------------------
    def block(self):
        self.expect('op', '{')
        saved, self.no_struct = self.no_struct, 0
        b = self.body(closing=True)
        self.no_struct = saved
        self.expect('op', '}')
        return b

    def at_end(self, closing):
        return self.done() or (closing and self.peek() == ('op', '}'))

    def body(self, closing=False):
        stmts = []
        tail = None
        while not self.at_end(closing):
            k, v = self.peek()
            if (k, v) == ('id', 'let'):
                self.next()
                stmts.append(self.let_stmt())
            elif (k, v) == ('id', 'return'):
                self.next()
                e = None
                if self.peek() != ('op', ';') and not self.at_end(closing):
                    e = self.expr()
                self.accept('op', ';')
                stmts.append(('return', e))
            elif (k, v) == ('id', 'if'):
                e = self.if_expr()
                if self.accept('op', ';') or not self.at_end(closing):
                    stmts.append(('ifs', e[1], e[2], e[3]))
                else:
                    tail = e
            elif (k, v) == ('id', 'log') and self.peek(1) == ('op', '!'):
                self.next()
                self.next()
                self.skip_parens()
                self.accept('op', ';')
            elif (k, v) == ('id', 'self') and self.peek(1) == ('op', '.') and self.peek(2)[0] == 'id' \
                    and self.peek(3)[0] == 'op' and self.peek(3)[1] in ASSIGN_OPS:
                self.next()
                self.next()
                f = self.next()[1]
                op = self.next()[1]
                e = self.expr()
                self.expect('op', ';')
                stmts.append(('assign', ('self', f), op, e))
            elif k == 'id' and v not in c17.KEYWORDS and self.peek(1)[0] == 'op' and self.peek(1)[1] in ASSIGN_OPS:
                self.next()
                op = self.next()[1]
                e = self.expr()
                self.expect('op', ';')
                stmts.append(('assign', ('var', v), op, e))
            elif self.effect_ahead():
                stmts.append(self.effect_call())
            elif (k, v) == ('op', '{'):
                # a bare block used as a statement: its statements are spliced in (no `let`, so nothing can leak out of it)
                inner, itail = self.block()
                if itail is not None or any(x[0] == 'let' for x in inner):
                    raise TranslateError('bare block with a value or a `let` not in the grammar')
                self.accept('op', ';')
                stmts += inner
            else:
                e = self.expr()
                if self.accept('op', ';'):
                    if e[0] == 'try':
                        stmts.append(('try', e[1]))
                    else:
                        raise TranslateError('expression statement not in the grammar: %s' % show(e))
                elif self.at_end(closing):
                    tail = e
                else:
                    raise TranslateError('statement not in the grammar near `%s`' % self.near())
            if tail is not None and not self.at_end(closing):
                raise TranslateError('statement not in the grammar near `%s`' % self.near())
        return (stmts, tail)

    def skip_parens(self):
        self.expect('op', '(')
        d = 1
        while d:
            k, v = self.next()
            if k == 'op' and v in '([{':
                d += 1
            elif k == 'op' and v in ')]}':
                d -= 1

    def let_stmt(self):
        mut = bool(self.accept('id', 'mut'))
        name = self.expect('id')
        if name in c17.KEYWORDS or name == '_':
            raise TranslateError('let pattern %s not in the grammar' % name)
        ty = None
        if self.accept('op', ':'):
            ty = self.type()
        e = None
        if self.accept('op', '='):
            e = self.expr()
        elif not mut:
            raise TranslateError('`let %s;` without a value' % name)
        self.expect('op', ';')
        return ('let', name, ty, e, mut)

    def effect_ahead(self):
        """path-or-method call whose name is a listed effect, used as a statement"""
        i = 0
        last = None
        while True:
            k, v = self.peek(i)
            if k != 'id':
                return False
            last = v
            k2, v2 = self.peek(i + 1)
            if (k2, v2) in (('op', '::'), ('op', '.')):
                i += 2
                continue
            return (k2, v2) == ('op', '(') and last in self.effects

    def effect_call(self):
        name = None
        while True:
            name = self.expect('id')
            if self.accept('op', '::') or self.accept('op', '.'):
                continue
            break
        self.expect('op', '(')
        args = []
        while not self.accept('op', ')'):
            if self.peek() == ('op', '&'):
                # a reference to state the function does not own: skipped (`&self.buffer`, `&mut x`)
                self.next()
                self.accept('id', 'mut')
                while self.peek()[0] == 'id' or self.peek() == ('op', '.'):
                    self.next()
            else:
                args.append(self.expr())
            if not self.accept('op', ','):
                self.expect('op', ')')
                break
        self.expect('op', ';')
        return ('eff', name, args)

    def if_expr(self):
        self.expect('id', 'if')
        self.no_struct += 1
        c = self.expr()
        self.no_struct -= 1
        a = self.block()
        b = None
        if self.accept('id', 'else'):
            if self.peek() == ('id', 'if'):
                e = self.if_expr()
                b = ([], e)
            else:
                b = self.block()
        return ('if', c, a, b)

    # -- expressions -----------------------------------------------------------------
    def unary(self):
        if self.peek() == ('op', '*'):
            self.next()
            a = self.post()
            if a[0] != 'const':
                raise TranslateError('dereference of something else than a lazy_static constant')
            return a
        return c17.Parser.unary(self)

    def post(self):
        a = self.atom()
        while True:
            if self.peek() == ('op', '.'):
                # method
                if self.peek(1)[0] != 'id':
                    raise TranslateError('tuple field access not in the grammar')
                self.next()
                meth = self.expect('id')
                if meth in c17.WRAPPING or meth in ('min', 'max', 'saturating_add', 'saturating_sub'):
                    self.expect('op', '(')
                    b = self.expr()
                    self.expect('op', ')')
                    if meth in c17.WRAPPING:
                        a = ('wrap', c17.WRAPPING[meth], a, b, None)
                    elif meth in ('min', 'max'):
                        a = ('minmax', meth, a, b)
                    else:
                        a = ('sat', meth[11:], a, b)
                elif meth == 'clamp':
                    self.expect('op', '(')
                    args = self.args()
                    if len(args) != 2:
                        raise TranslateError('clamp takes two arguments')
                    a = ('clamp', a, args[0], args[1])
                elif meth == 'trailing_zeros':
                    self.expect('op', '(')
                    self.expect('op', ')')
                    a = ('tz', a)
                elif meth == 'into':
                    self.expect('op', '(')
                    self.expect('op', ')')
                    if a[0] != 'errv':
                        raise TranslateError('.into() on something else than an error value')
                else:
                    raise TranslateError('method .%s not in the grammar' % meth)
            elif self.peek() == ('op', '?'):
                self.next()
                a = ('try', a)
            else:
                return a

    def match_opaque(self):
        for toks, pname, ty in self.opaque:
            n = len(toks)
            if [v for _, v in self.t[self.i:self.i + n]] == toks:
                self.i += n
                return ('opaque', pname, ty)
        return None

    def atom(self):
        o = self.match_opaque()
        if o:
            return o
        k, v = self.peek()
        if (k, v) == ('id', 'if'):
            return self.if_expr()
        if (k, v) in (('id', 'true'), ('id', 'false')):
            self.next()
            return ('bool', v == 'true')
        if (k, v) == ('id', 'Ok') and self.peek(1) == ('op', '('):
            self.next()
            self.next()
            if self.peek() == ('op', '(') and self.peek(1) == ('op', ')'):
                self.next()
                self.next()
                self.expect('op', ')')
                return ('ok', None)
            e = self.expr()
            self.expect('op', ')')
            return ('ok', e)
        if (k, v) == ('id', 'Err') and self.peek(1) == ('op', '('):
            self.next()
            self.next()
            e = self.expr()
            self.accept('op', ',')
            self.expect('op', ')')
            return ('err', e)
        if (k, v) == ('id', 'self'):
            self.next()
            self.expect('op', '.')
            f = self.expect('id')
            if self.accept('op', '('):
                return ('call', f, self.args(), ['Self'], 'method')
            return ('self', 'field', f)
        if (k, v) == ('op', '('):
            self.next()
            saved, self.no_struct = self.no_struct, 0
            e = self.expr()
            self.no_struct = saved
            self.expect('op', ')')
            return e
        if k == 'num':
            self.next()
            return self.literal(v)
        if k == 'id' and (v not in c17.KEYWORDS or v in ('crate', 'super', 'Self')):
            self.next()
            path = [v]
            while self.peek() == ('op', '::'):
                self.next()
                if self.peek() == ('op', '<'):
                    raise TranslateError('generic arguments not in the grammar')
                path.append(self.expect('id'))
            if self.peek() == ('op', '(') :
                self.next()
                return self.path_call(path, self.args())
            if self.peek() == ('op', '{') and not self.no_struct and CAMEL.match(path[-1]):
                return self.struct_lit(path)
            return self.path_value(path)
        raise TranslateError('token `%s` not in the grammar' % v)

    def literal(self, v):
        m = re.match(r'^(0[xX][0-9a-fA-F_]+?|0[oO][0-7_]+|0[bB][01_]+|\d[\d_]*?)((?:i|u)(?:8|16|32|64|128|size))?$', v)
        if not m:
            raise TranslateError('literal %s not in the grammar' % v)
        digits = m.group(1).replace('_', '')
        n = int(digits, 0) if digits[:2].lower() in ('0x', '0o', '0b') else int(digits)
        suf = m.group(2)
        if suf and suf not in TYPES:
            raise TranslateError('literal suffix %s not in the grammar' % suf)
        return ('num', n, TYPES[suf] if suf else None)

    def struct_lit(self, path):
        self.expect('op', '{')
        fields = []
        while not self.accept('op', '}'):
            f = self.expect('id')
            if self.accept('op', ':'):
                if f in self.skip_fields or self.macro_ahead():
                    self.skip_field_value()
                    e = None
                else:
                    e = self.expr()
            else:
                e = None if f in self.skip_fields else ('var', f)
            if e is not None:
                fields.append((f, e))
            if not self.accept('op', ','):
                self.expect('op', '}')
                break
        if path[-1] == 'Self' or len(path) == 1:
            return ('struct', sorted(fields))
        return ('errv', '::'.join(path[-2:]), [e for _, e in sorted(fields)])

    def macro_ahead(self):
        return self.peek()[0] == 'id' and self.peek()[1] in ('file', 'line') and self.peek(1) == ('op', '!')

    def skip_field_value(self):
        d = 0
        while True:
            k, v = self.peek()
            if k is None:
                raise TranslateError('unterminated struct literal')
            if d == 0 and k == 'op' and v in (',', '}'):
                return
            if k == 'op' and v in '([{':
                d += 1
            elif k == 'op' and v in ')]}':
                d -= 1
            self.next()

    def path_value(self, path):
        last, pre = path[-1], path[:-1]
        if len(path) == 2 and pre[0] in TYPES and last in ('MAX', 'MIN'):
            if TYPES[pre[0]] == 'bool':
                raise TranslateError('bool::%s' % last)
            return ('limit', TYPES[pre[0]], last)
        if UPPER.match(last) and not (len(last) == 1 and not pre):
            return ('const', last, pre)
        if CAMEL.match(last) and pre:
            return ('errv', '::'.join(path[-2:]), [])
        if not pre and last not in ('Self', 'crate', 'super'):
            return ('var', last)
        raise TranslateError('path %s not in the grammar' % '::'.join(path))

    def path_call(self, path, args):
        last, pre = path[-1], path[:-1]
        if last in ('min', 'max') and pre in ([], ['cmp'], ['std', 'cmp'], ['core', 'cmp']):
            if len(args) != 2:
                raise TranslateError('%s takes two arguments' % last)
            return ('minmax', last, args[0], args[1])
        if len(pre) == 1 and pre[0] in TYPES and TYPES[pre[0]] != 'bool':
            t = TYPES[pre[0]]
            if last in c17.WRAPPING and len(args) == 2:
                return ('wrap', c17.WRAPPING[last], args[0], args[1], t)
            if last == 'from' and len(args) == 1:
                return ('cast', args[0], t, 'from')
            raise TranslateError('call of %s not in the grammar' % '::'.join(path))
        if CAMEL.match(last) and pre:
            return ('errv', '::'.join(path[-2:]), args)
        return ('call', last, args, pre)


# ----------------------------------------------------------------------------------------------
# typing and emission

BITOPS = {'&': 'Z.land', '|': 'Z.lor', '^': 'Z.lxor'}
CMP = c17.CMP
CMPOPS = c17.CMPOPS


def qstr(s):
    return '"%s"%%string' % s


def subrange(a, b):
    return lo(b) <= lo(a) and hi(a) <= hi(b)


class Counter:
    def __init__(self):
        self.n = 0


def _has_control(block):
    """does a block (stmts, tail) contain a statement other than `let` / nested value-free `if`, or a `?`"""
    stmts, tail = block
    for st in stmts:
        if st[0] == 'let':
            if st[3] is not None and _has_try(st[3]):
                return True
        elif st[0] == 'ifs':
            if _has_try(st[1]) or _has_control(st[2]) or (st[3] is not None and _has_control(st[3])):
                return True
        else:
            return True
    return tail is not None and _has_try(tail)


def _has_try(e):
    if isinstance(e, tuple):
        if e and e[0] == 'try':
            return True
        if e and e[0] == 'if':
            return _has_try(e[1]) or _has_control(e[2]) or (e[3] is not None and _has_control(e[3]))
        return any(_has_try(x) for x in e[1:])
    if isinstance(e, list):
        return any(_has_try(x) for x in e)
    return False


def _returns(stmts):
    return any(st[0] == 'return' for st in stmts)


class Em:
    """Compiles statements / expressions to Gallina.  comp() returns a pure term; operations that can panic (and `?`)
    are queued in self.pending in evaluation order and flushed by the statement level as `x <- op ;;` lines."""

    def __init__(self, ctx, env, self_env, opaque_env, counter=None):
        self.ctx = ctx
        self.env = dict(env)                # rust local -> (coq text, type)
        self.self_env = dict(self_env)      # field -> (coq text, type)
        self.opaque_env = dict(opaque_env)  # opaque parameter name -> (coq text, type)
        self.c = counter or Counter()
        self.pending = []                   # (name, term, 'b' | 'q')
        self.open = 0                       # parentheses opened by qbind / do_ that the block must close

    def fork(self):
        return Em(self.ctx, self.env, self.self_env, self.opaque_env, self.c)

    def fresh(self, stem='t'):
        self.c.n += 1
        return '%s%d' % (stem, self.c.n)

    def bind(self, term):
        x = self.fresh()
        self.pending.append((x, term, 'b'))
        return x

    def flush(self):
        lines = []
        for x, t, k in self.pending:
            if k == 'b':
                lines.append('%s <- %s ;;' % (x, t))
            else:
                r = self.fresh('r')
                lines.append('%s <- %s ;;' % (r, t))
                lines.append('qbind %s (fun %s =>' % (r, x))
                self.open += 1
        self.pending = []
        return lines

    def close(self, lines):
        if self.open:
            lines = lines[:-1] + [lines[-1] + ')' * self.open]
            self.open = 0
        return lines

    # -- types ---------------------------------------------------------------
    def ty_of(self, e):
        k = e[0]
        if k == 'num':
            return e[2]
        if k == 'var':
            if e[1] not in self.env:
                raise TranslateError('unknown identifier %s' % e[1])
            return self.env[e[1]][1]
        if k == 'const':
            return self.ctx.const(e)[0]
        if k == 'limit':
            return e[1]
        if k == 'self':
            return self.self_field(e[2])[1]
        if k == 'opaque':
            return e[2]
        if k == 'bool':
            return 'bool'
        if k == 'cast':
            return e[2]
        if k == 'errv':
            return None
        if k == 'wrap':
            return e[4] or self.ty_of(e[2]) or self.ty_of(e[3])
        if k in ('minmax', 'sat'):
            return self.ty_of(e[2]) or self.ty_of(e[3])
        if k == 'clamp':
            return self.ty_of(e[1]) or self.ty_of(e[2]) or self.ty_of(e[3])
        if k == 'tz':
            return 'u32'
        if k == 'un':
            return self.ty_of(e[2])
        if k == 'bin':
            if e[1] in ('&&', '||') or e[1] in CMPOPS:
                return 'bool'
            if e[1] in ('<<', '>>'):
                return self.ty_of(e[2])
            return self.ty_of(e[2]) or self.ty_of(e[3])
        if k == 'call':
            s = self.ctx.call_sig(e)
            return s['rty'] if s['kind'] in ('int', 'bool') else None
        if k == 'try':
            return self.ctx.call_sig(e[1])['rty'] if e[1][0] == 'call' else None
        if k == 'if':
            for br in (e[2], e[3]):
                if br and br[1] is not None:
                    try:
                        t = self.ty_of(br[1])
                    except TranslateError:
                        t = None
                    if t:
                        return t
            return None
        raise TranslateError('typeof %s' % show(e))

    def self_field(self, f):
        if f not in self.self_env:
            raise TranslateError('self.%s is not one of the listed inputs of this function' % f)
        return self.self_env[f]

    # -- terms ---------------------------------------------------------------
    def comp(self, e, want=None):
        ty = self.ty_of(e) or want or 'i32'
        if want and ty != want:
            raise TranslateError('expression of type %s where %s is required (does not compile in Rust): %s' % (ty, want, show(e)))
        k = e[0]
        if ty == 'bool':
            return self.comp_bool(e), 'bool'
        if k == 'num':
            if not lo(ty) <= e[1] <= hi(ty):
                raise TranslateError('literal %d out of range for %s' % (e[1], ty))
            return lit(e[1]), ty
        if k == 'var':
            if self.env[e[1]][0] is None:
                raise TranslateError('%s is read before it is assigned' % e[1])
            return self.env[e[1]][0], ty
        if k == 'const':
            return self.ctx.const(e)[1], ty
        if k == 'limit':
            return lit(lo(ty) if e[2] == 'MIN' else hi(ty)), ty
        if k == 'self':
            return self.self_field(e[2])[0], ty
        if k == 'opaque':
            if e[1] not in self.opaque_env:
                raise TranslateError('opaque input %s not declared' % e[1])
            return self.opaque_env[e[1]][0], ty
        if k == 'cast':
            return self.comp_cast(e, ty)
        if k == 'un':
            a, _ = self.comp(e[2], ty)
            if e[1] == '-':
                if ty not in SIGNED:
                    raise TranslateError('unary minus on %s' % ty)
                return self.bind('%s %s' % (op_text(ty, 'neg'), par(a))), ty
            if ty in SIGNED:
                return 'Z.lnot %s' % par(a), ty
            return 'notT %s %s' % (TAG[ty], par(a)), ty
        if k == 'bin':
            op = e[1]
            if op in ('<<', '>>'):
                a, _ = self.comp(e[2], ty)
                b, tb = self.comp(e[3], None)
                if tb == 'bool':
                    raise TranslateError('shift by a boolean')
                return self.bind('%s %s %s' % (op_text(ty, op), par(a), par(b))), ty
            a, _ = self.comp(e[2], ty)
            b, _ = self.comp(e[3], ty)
            if op in BITOPS:
                return '%s %s %s' % (BITOPS[op], par(a), par(b)), ty
            if op in ('+', '-', '*', '/', '%'):
                return self.bind('%s %s %s' % (op_text(ty, op), par(a), par(b))), ty
            raise TranslateError('operator %s not in the grammar' % op)
        if k == 'wrap':
            a, _ = self.comp(e[2], ty)
            b, _ = self.comp(e[3], ty)
            sign = {'add': '+', 'sub': '-', 'mul': '*'}[e[1]]
            return '%s (%s %s %s)' % (wrap_text(ty), par(a), sign, par(b)), ty
        if k == 'sat':
            a, _ = self.comp(e[2], ty)
            b, _ = self.comp(e[3], ty)
            return 'satT %s (%s %s %s)' % (TAG[ty], par(a), {'add': '+', 'sub': '-'}[e[1]], par(b)), ty
        if k == 'clamp':
            x, _ = self.comp(e[1], ty)
            a, _ = self.comp(e[2], ty)
            b, _ = self.comp(e[3], ty)
            return self.bind('clampT %s %s %s' % (par(x), par(a), par(b))), ty
        if k == 'tz':
            a, ta = self.comp(e[1], None)
            if ta == 'bool':
                raise TranslateError('trailing_zeros of a boolean')
            return 'tzT %s %s' % (TAG[ta], par(a)), 'u32'
        if k == 'minmax':
            a, _ = self.comp(e[2], ty)
            b, _ = self.comp(e[3], ty)
            return 'Z.%s %s %s' % (e[1], par(a), par(b)), ty
        if k == 'call':
            s = self.ctx.call_sig(e)
            if s['kind'] != 'int':
                raise TranslateError('%s does not return an integer here' % e[1])
            return self.bind(self.call_text(e, s)), s['rty']
        if k == 'try':
            if e[1][0] != 'call':
                raise TranslateError('`?` on something else than a call')
            s = self.ctx.call_sig(e[1])
            if s['kind'] != 'res':
                raise TranslateError('`?` on %s, which does not return a Result' % e[1][1])
            x = self.fresh()
            self.pending.append((x, self.call_text(e[1], s), 'q'))
            return x, s['rty'] or ty
        if k == 'if':
            return self.comp_if(e, ty), ty
        raise TranslateError('expression not in the grammar: %s' % show(e))

    def comp_cast(self, e, ty):
        inner = e[1]
        if inner[0] == 'num' and inner[2] is None and len(e) == 3:
            return self.comp(('num', inner[1], ty), ty)
        if inner[0] == 'errv' and inner[1].startswith('AeronCommand::') and not inner[2] and len(e) == 3:
            # a variant of the #[repr(C)] enum AeronCommand cast to an integer: the discriminant the compiler assigned
            g = 'CMD_' + inner[1].split('::')[1]
            if g not in self.ctx.dumped:
                raise TranslateError('%s is not dumped into GenConsts' % inner[1])
            if ty != 'i32':
                return '%s GenConsts.%s' % (wrap_text(ty), g), ty
            return 'GenConsts.%s' % g, ty
        it, ity = self.comp(inner, None)
        if ity == 'bool':
            if len(e) == 4:
                raise TranslateError('%s::from(bool) not in the grammar' % ty)
            return 'b2z %s' % par(it), ty
        if len(e) == 4 and not (subrange(ity, ty) and BITS[ity] <= BITS[ty]):
            raise TranslateError('%s::from(%s) does not compile in Rust' % (ty, ity))
        if subrange(ity, ty):
            return it, ty
        return '%s %s' % (wrap_text(ty), par(it)), ty

    def comp_if(self, e, ty):
        """`if` as a value of type ty"""
        if e[3] is None:
            raise TranslateError('`if` without `else` used as a value')
        for br in (e[2], e[3]):
            if _has_control(br):
                # the branches of a value `if` are compiled on their own: anything that leaves the branch or changes
                # the surrounding state would be lost
                raise TranslateError('`return` / `?` / assignment / effect inside an `if` used as a value')
        c = self.comp_bool(e[1])
        pre = self.flush()
        kind = 'bool' if ty == 'bool' else 'int'
        la = self.fork().block(e[2][0], e[2][1], kind, ty)
        lb = self.fork().block(e[3][0], e[3][1], kind, ty)
        # put the flushed lines back in front (they were evaluated before the branch)
        for l in pre:
            self.prelines.append(l)
        ma = re.match(r'^Ok (.*)$', la[0]) if len(la) == 1 else None
        mb = re.match(r'^Ok (.*)$', lb[0]) if len(lb) == 1 else None
        if ma and mb:
            return '(if %s then %s else %s)' % (c, ma.group(1), mb.group(1))
        return self.bind('(if %s then (%s) else (%s))' % (c, ' '.join(la), ' '.join(lb)))

    def call_text(self, e, s):
        args = e[2]
        if len(args) != len(s['ptys']):
            raise TranslateError('%s called with %d arguments, declared with %d' % (e[1], len(args), len(s['ptys'])))
        xs = []
        for f, t in s['self_inputs']:
            v, vt = self.self_field(f)
            xs.append(v)
        for p, t in s['opaque_inputs']:
            if p not in self.opaque_env:
                raise TranslateError('%s needs the opaque input %s, which the caller does not declare' % (e[1], p))
            xs.append(self.opaque_env[p][0])
        for a, t in zip(args, s['ptys']):
            xs.append(self.comp(a, t)[0])
        return '%s m %s' % (s['coq'], ' '.join(par(x) for x in xs)) if xs else '%s m' % s['coq']

    def comp_bool(self, e):
        k = e[0]
        if k == 'bool':
            return 'true' if e[1] else 'false'
        if k == 'bin' and e[1] in CMPOPS:
            ta, tb = self.ty_of(e[2]), self.ty_of(e[3])
            if ta == 'bool' or tb == 'bool':
                if e[1] not in ('==', '!='):
                    raise TranslateError('ordering of booleans not in the grammar')
                a, b = self.comp_bool(e[2]), self.comp_bool(e[3])
                t = 'Bool.eqb %s %s' % (par(a), par(b))
                return t if e[1] == '==' else 'negb (%s)' % t
            ty = ta or tb or 'i32'
            a, _ = self.comp(e[2], ty)
            b, _ = self.comp(e[3], ty)
            return CMP[e[1]] % (par(a), par(b))
        if k == 'bin' and e[1] in ('&&', '||'):
            a = self.comp_bool(e[2])
            saved, self.pending = self.pending, []
            b = self.comp_bool(e[3])
            inner, self.pending = self.pending, saved
            if not inner:
                return '%s %s %s' % ('andb' if e[1] == '&&' else 'orb', par(a), par(b))
            if any(x[2] != 'b' for x in inner):
                raise TranslateError('`?` inside the right operand of && / ||')
            rhs = '(%s Ok %s)' % (' '.join('%s <- %s ;;' % (x, t) for x, t, _ in inner), par(b))
            if e[1] == '&&':
                return self.bind('if %s then %s else Ok false' % (a, rhs))
            return self.bind('if %s then Ok true else %s' % (a, rhs))
        if k == 'un' and e[1] == '!':
            return 'negb %s' % par(self.comp_bool(e[2]))
        if k == 'var' and self.env.get(e[1], (None, None))[1] == 'bool':
            return self.env[e[1]][0]
        if k == 'self' and self.self_field(e[2])[1] == 'bool':
            return self.self_field(e[2])[0]
        if k == 'opaque' and e[2] == 'bool':
            return self.opaque_env[e[1]][0]
        if k == 'call':
            s = self.ctx.call_sig(e)
            if s['kind'] != 'bool':
                raise TranslateError('%s does not return a boolean' % e[1])
            return self.bind(self.call_text(e, s))
        if k == 'if':
            return self.comp_if(e, 'bool')
        raise TranslateError('boolean expression not in the grammar: %s' % show(e))

    # -- statements ----------------------------------------------------------
    prelines = ()

    def value(self, e, want):
        """-> (lines, pure text, type)"""
        self.prelines = []
        text, ty = (self.comp_bool(e), 'bool') if want == 'bool' else self.comp(e, want)
        lines = list(self.prelines) + self.flush()
        self.prelines = []
        return lines, text, ty

    def named(self, lines, text, name):
        """bind the value `text` to the Gallina name `name` (reusing the last `t <-` line when it is that value)"""
        if lines and lines[-1].startswith('%s <- ' % text) and re.match(r'^t\d+$', text):
            lines[-1] = name + lines[-1][len(text):]
        else:
            lines.append('let %s := %s in' % (name, text))
        return lines

    def block(self, stmts, tail, kind, rty):
        lines = self.block_open(stmts, tail, kind, rty)
        return self.close(lines)

    def block_open(self, stmts, tail, kind, rty):
        lines = []
        for i, s in enumerate(stmts):
            k = s[0]
            if k == 'let':
                _, name, ty, e, mut = s
                if e is None:
                    if ty is None:
                        raise TranslateError('`let mut %s;` without a type' % name)
                    self.env[name] = (None, ty)
                    continue
                want = ty
                ls, text, ety = self.value(e, want)
                coq = self.fresh_var(name)
                lines += self.named(ls, text, coq)
                self.env[name] = (coq, ety)
            elif k == 'assign':
                target, op, e = s[1], s[2], s[3]
                if target[0] == 'var':
                    if target[1] not in self.env:
                        raise TranslateError('assignment to unknown variable %s' % target[1])
                    ty = self.env[target[1]][1]
                    rhs = e if op == '=' else ('bin', op[0], ('var', target[1]), e)
                    ls, text, _ = self.value(rhs, ty)
                    coq = self.fresh_var(target[1])
                    lines += self.named(ls, text, coq)
                    self.env[target[1]] = (coq, ty)
                else:
                    f = target[1]
                    ty = self.self_field(f)[1]
                    rhs = e if op == '=' else ('bin', op[0], ('self', 'field', f), e)
                    ls, text, _ = self.value(rhs, ty)
                    coq = self.fresh_var('self_' + f)
                    lines += self.named(ls, text, coq)
                    self.self_env[f] = (coq, ty)
                    lines.append('do_ %s [%s] (' % (qstr('self.' + f), 'b2z ' + coq if ty == 'bool' else coq))
                    self.open += 1
            elif k == 'eff':
                vals = []
                for a in s[2]:
                    ls, text, ty = self.value(a, None)
                    lines += ls
                    vals.append('b2z %s' % par(text) if ty == 'bool' else text)
                lines.append('do_ %s [%s] (' % (qstr(s[1]), '; '.join(vals)))
                self.open += 1
            elif k == 'try':
                ls, text, ty = self.value(('try', s[1]), None)
                lines += ls
            elif k == 'return':
                if s[1] is None:
                    raise TranslateError('`return;` without a value')
                return lines + self.result(s[1], kind, rty)
            elif k == 'ifs':
                _, c, a, b = s
                ls, ctext, _ = self.value(c, 'bool')
                lines += ls
                rest = list(stmts[i + 1:])
                for br in (a, b):
                    if br is not None and br[1] is not None and not (br[1][0] == 'if'):
                        raise TranslateError('`if` statement whose block has a value')
                # a `let` of a branch that falls through would stay visible in the rest of the function (the rest is
                # compiled once per branch): refuse it when it could capture a name the rest uses
                later = free_vars(rest) + (free_vars(tail) if tail is not None else [])
                for br in (a, b):
                    if br is not None and not _returns(br[0]):
                        for st in br[0]:
                            if st[0] == 'let' and (st[1] in self.env or st[1] in later):
                                raise TranslateError('block-local `let %s` shadows a name used after the block' % st[1])
                fa = self.fork()
                la = fa.block(list(a[0]) + ([('ifs',) + a[1][1:]] if a[1] else []) + rest, tail, kind, rty)
                fb = self.fork()
                bst = (list(b[0]) + ([('ifs',) + b[1][1:]] if b[1] else [])) if b else []
                lb = fb.block(bst + rest, tail, kind, rty)
                lines.append('if %s then (' % ctext)
                lines += ['  ' + l for l in la]
                lines.append(') else (')
                lines += ['  ' + l for l in lb]
                lines.append(')')
                return lines
            else:
                raise TranslateError('statement %s' % k)
        if tail is None:
            raise TranslateError('the function body does not end in an expression or `return`')
        return lines + self.result(tail, kind, rty)

    def fresh_var(self, name):
        base = 'v_' + name
        used = {v[0] for v in self.env.values()} | {v[0] for v in self.self_env.values()}
        if base not in used and base not in self.ctx.reserved:
            self.ctx.reserved.add(base)
            return base
        self.c.n += 1
        x = '%s_%d' % (base, self.c.n)
        self.ctx.reserved.add(x)
        return x

    def result(self, e, kind, rty):
        """lines computing e as the result (`outcome _`) of the function; may leave parentheses to close"""
        k = e[0]
        if k == 'if':
            if e[3] is None:
                raise TranslateError('`if` without `else` as the result')
            ls, ctext, _ = self.value(e[1], 'bool')
            la = self.fork().block(e[2][0], e[2][1], kind, rty)
            lb = self.fork().block(e[3][0], e[3][1], kind, rty)
            return ls + ['if %s then (' % ctext] + ['  ' + l for l in la] + [') else ('] + ['  ' + l for l in lb] + [')']
        if kind in ('int', 'bool'):
            ls, text, ty = self.value(e, rty)
            if ls and re.match(r'^t\d+$', text) and ls[-1].startswith('%s <- ' % text) and not self.open_in(ls):
                last = ls.pop()
                return ls + [last[len(text) + 4:-3]]
            return ls + ['Ok %s' % par(text)]
        # kind == 'res'
        if k == 'ok':
            if e[1] is None:
                return ['Ok (ROk 0)']
            if e[1][0] == 'struct':
                return self.struct_result(e[1])
            if rty is None:
                raise TranslateError('Ok(value) in a function returning Result<(), _>')
            ls, text, ty = self.value(e[1], rty)
            return ls + ['Ok (ROk %s)' % par('b2z ' + text if ty == 'bool' else text)]
        if k == 'struct':
            return self.struct_result(e)
        if k == 'err':
            return self.result(e[1], kind, rty) if e[1][0] in ('errv', 'call') else self.bad(e)
        if k == 'errv':
            vals = []
            lines = []
            for a in e[2]:
                ls, text, ty = self.value(a, None)
                lines += ls
                vals.append('b2z %s' % par(text) if ty == 'bool' else text)
            return lines + ['Ok (RErr %s [%s])' % (qstr(e[1]), '; '.join(vals))]
        if k == 'call':
            s = self.ctx.call_sig(e)
            if s['kind'] != 'res':
                raise TranslateError('%s is returned where a Result / error value is required' % e[1])
            self.prelines = []
            text = self.call_text(e, s)
            ls = list(self.prelines) + self.flush()
            return ls + [text]
        if k == 'try':
            return self.bad(e)
        return self.bad(e)

    def open_in(self, ls):
        return any(l.startswith('qbind ') for l in ls)

    def bad(self, e):
        raise TranslateError('result expression not in the grammar: %s' % show(e))

    def struct_result(self, e):
        lines = []
        fs = []
        for f, x in e[1]:
            ls, text, ty = self.value(x, None)
            lines += ls
            fs.append('(%s, %s)' % (qstr(f), 'b2z ' + par(text) if ty == 'bool' else text))
        return lines + ['Ok (RStruct [%s])' % '; '.join(fs)]


# ----------------------------------------------------------------------------------------------
# context: constants, calls, signatures

RB = 'src/concurrent/ring_buffer.rs'
BTX = 'src/concurrent/broadcast/broadcast_transmitter.rs'
BRX = 'src/concurrent/broadcast/broadcast_receiver.rs'
BBD = 'src/concurrent/broadcast/broadcast_buffer_descriptor.rs'
BRD = 'src/concurrent/broadcast/record_descriptor.rs'
CNT = 'src/concurrent/counters.rs'
FD = 'src/concurrent/logbuffer/frame_descriptor.rs'
DFH = 'src/concurrent/logbuffer/data_frame_header.rs'
LBD = 'src/concurrent/logbuffer/log_buffer_descriptor.rs'
TSCAN = 'src/concurrent/logbuffer/term_scan.rs'
TREAD = 'src/concurrent/logbuffer/term_reader.rs'
TAPP = 'src/concurrent/logbuffer/term_appender.rs'
XAPP = 'src/concurrent/logbuffer/exclusive_term_appender.rs'
BIT = 'src/utils/bit_utils.rs'
TYPES_RS = 'src/utils/types.rs'
MISC = 'src/utils/misc.rs'
PUB = 'src/publication.rs'
XPUB = 'src/exclusive_publication.rs'
IMG = 'src/image.rs'
BB = 'src/buffer_builder.rs'

# (file, container, NAME) -> name in Generated/GenConsts.v (the value the compiler computed)
GEN = {
    (MISC, None, 'CACHE_LINE_LENGTH'): 'CACHE_LINE_LENGTH',
    (TYPES_RS, None, 'I32_SIZE'): 'I32_SIZE', (TYPES_RS, None, 'I64_SIZE'): 'I64_SIZE',
    (RB, None, 'TAIL_POSITION_OFFSET'): 'RB_TAIL_POSITION_OFFSET',
    (RB, None, 'HEAD_CACHE_POSITION_OFFSET'): 'RB_HEAD_CACHE_POSITION_OFFSET',
    (RB, None, 'HEAD_POSITION_OFFSET'): 'RB_HEAD_POSITION_OFFSET',
    (RB, None, 'CORRELATION_COUNTER_OFFSET'): 'RB_CORRELATION_COUNTER_OFFSET',
    (RB, None, 'CONSUMER_HEARTBEAT_OFFSET'): 'RB_CONSUMER_HEARTBEAT_OFFSET',
    (RB, None, 'TRAILER_LENGTH'): 'RB_TRAILER_LENGTH',
    (RB, 'record_descriptor', 'HEADER_LENGTH'): 'RB_HEADER_LENGTH',
    (RB, 'record_descriptor', 'ALIGNMENT'): 'RB_ALIGNMENT',
    (BBD, None, 'TAIL_INTENT_COUNTER_OFFSET'): 'BC_TAIL_INTENT_COUNTER_OFFSET',
    (BBD, None, 'TAIL_COUNTER_OFFSET'): 'BC_TAIL_COUNTER_OFFSET',
    (BBD, None, 'LATEST_COUNTER_OFFSET'): 'BC_LATEST_COUNTER_OFFSET',
    (BBD, None, 'TRAILER_LENGTH'): 'BC_TRAILER_LENGTH',
    (BRD, None, 'HEADER_LENGTH'): 'BC_HEADER_LENGTH',
    (BRD, None, 'RECORD_ALIGNMENT'): 'BC_RECORD_ALIGNMENT',
    (CNT, None, 'COUNTER_LENGTH'): 'COUNTER_LENGTH', (CNT, None, 'METADATA_LENGTH'): 'METADATA_LENGTH',
    (CNT, None, 'MAX_LABEL_LENGTH'): 'MAX_LABEL_LENGTH', (CNT, None, 'MAX_KEY_LENGTH'): 'MAX_KEY_LENGTH',
    (CNT, None, 'RECORD_UNUSED'): 'RECORD_UNUSED', (CNT, None, 'RECORD_ALLOCATED'): 'RECORD_ALLOCATED',
    (CNT, None, 'RECORD_RECLAIMED'): 'RECORD_RECLAIMED', (CNT, None, 'NULL_COUNTER_ID'): 'NULL_COUNTER_ID',
    (CNT, None, 'FREE_TO_REUSE_DEADLINE_OFFSET'): 'FREE_TO_REUSE_DEADLINE_OFFSET',
    (CNT, None, 'LABEL_LENGTH_OFFSET'): 'LABEL_LENGTH_OFFSET', (CNT, None, 'KEY_OFFSET'): 'KEY_OFFSET',
    (CNT, None, 'TYPE_ID_OFFSET'): 'TYPE_ID_OFFSET',
    (FD, None, 'FRAME_ALIGNMENT'): 'FRAME_ALIGNMENT', (FD, None, 'ALIGNED_HEADER_LENGTH'): 'ALIGNED_HEADER_LENGTH',
    (FD, None, 'MAX_MESSAGE_LENGTH'): 'MAX_MESSAGE_LENGTH',
    (FD, None, 'BEGIN_FRAG'): 'BEGIN_FRAG', (FD, None, 'END_FRAG'): 'END_FRAG', (FD, None, 'UNFRAGMENTED'): 'UNFRAGMENTED',
    (FD, None, 'VERSION_OFFSET'): 'FD_VERSION_OFFSET', (FD, None, 'FLAGS_OFFSET'): 'FD_FLAGS_OFFSET',
    (FD, None, 'TYPE_OFFSET'): 'FD_TYPE_OFFSET', (FD, None, 'LENGTH_OFFSET'): 'FD_LENGTH_OFFSET',
    (FD, None, 'TERM_OFFSET'): 'FD_TERM_OFFSET',
    (DFH, None, 'LENGTH'): 'DFH_LENGTH', (DFH, None, 'DATA_OFFSET'): 'DFH_DATA_OFFSET',
    (DFH, None, 'HDR_TYPE_PAD'): 'HDR_TYPE_PAD', (DFH, None, 'HDR_TYPE_DATA'): 'HDR_TYPE_DATA',
    (DFH, None, 'FRAME_LENGTH_FIELD_OFFSET'): 'DFH_FRAME_LENGTH_FIELD_OFFSET',
    (DFH, None, 'VERSION_FIELD_OFFSET'): 'DFH_VERSION_FIELD_OFFSET',
    (DFH, None, 'FLAGS_FIELD_OFFSET'): 'DFH_FLAGS_FIELD_OFFSET',
    (DFH, None, 'TYPE_FIELD_OFFSET'): 'DFH_TYPE_FIELD_OFFSET',
    (DFH, None, 'TERM_OFFSET_FIELD_OFFSET'): 'DFH_TERM_OFFSET_FIELD_OFFSET',
    (DFH, None, 'SESSION_ID_FIELD_OFFSET'): 'DFH_SESSION_ID_FIELD_OFFSET',
    (DFH, None, 'STREAM_ID_FIELD_OFFSET'): 'DFH_STREAM_ID_FIELD_OFFSET',
    (DFH, None, 'TERM_ID_FIELD_OFFSET'): 'DFH_TERM_ID_FIELD_OFFSET',
    (DFH, None, 'RESERVED_VALUE_FIELD_OFFSET'): 'DFH_RESERVED_VALUE_FIELD_OFFSET',
    (LBD, None, 'PARTITION_COUNT'): 'PARTITION_COUNT',
    (LBD, None, 'TERM_MIN_LENGTH'): 'TERM_MIN_LENGTH', (LBD, None, 'TERM_MAX_LENGTH'): 'TERM_MAX_LENGTH',
    (TAPP, None, 'TERM_APPENDER_FAILED'): 'TERM_APPENDER_FAILED',
}

# functions translated by c17_translate.py into Generated/GenDescriptor.v that the functions here may call
EXTERNAL = {
    (BIT, None, 'align'): ('src_align', ['i32', 'i32'], 'i32'),
    (LBD, None, 'next_partition_index'): ('src_next_partition_index', ['i32'], 'i32'),
    (LBD, None, 'previous_partition_index'): ('src_previous_partition_index', ['i32'], 'i32'),
    (LBD, None, 'term_id'): ('src_term_id', ['i64'], 'i32'),
    (LBD, None, 'term_offset'): ('src_term_offset', ['i64', 'i64'], 'i32'),
    (LBD, None, 'index_by_term_count'): ('src_index_by_term_count', ['i64'], 'i32'),
    (LBD, None, 'index_by_position'): ('src_index_by_position', ['i64', 'i32'], 'i32'),
    (LBD, None, 'index_by_term'): ('src_index_by_term', ['i32', 'i32'], 'i32'),
    (LBD, None, 'compute_position'): ('src_compute_position', ['i32', 'i32', 'i32', 'i32'], 'i64'),
    (LBD, None, 'compute_term_begin_position'): ('src_compute_term_begin_position', ['i32', 'i32', 'i32'], 'i64'),
    (FD, None, 'compute_max_message_length'): ('src_compute_max_message_length', ['i32'], 'i32'),
}


class Ctx:
    def __init__(self, repo, dumped, external_ok):
        self.repo = repo
        self.dumped = dumped
        self.sigs = {}
        for key, (coq, ptys, rty) in EXTERNAL.items():
            if coq in external_ok:
                self.sigs[key] = dict(coq='GenDescriptor.' + coq, ptys=ptys, kind='int', rty=rty, self_inputs=[], opaque_inputs=[])
        self.scope = None
        self.reserved = set()

    def const(self, e):
        name, pre = e[1], e[2]
        path, cont = self.repo.lookup(self.scope, pre, name)
        text = self.repo.src(path).container(cont) if cont else _strip_nested_mods(self.repo.src(path).text)
        d = const_decl(text, name)
        if not d:
            raise TranslateError('declaration of constant %s not found in %s' % (name, path))
        if d[0] not in TYPES:
            raise TranslateError('constant %s has type %s' % (name, d[0]))
        ty = TYPES[d[0]]
        g = GEN.get((path, cont, name))
        if g and g in self.dumped:
            return ty, 'GenConsts.%s' % g
        m = re.match(r'^-?\s*(0[xX][0-9a-fA-F_]+|\d[\d_]*)$', d[1])
        if m:                                   # a private constant given by a literal: the literal is its value
            n = int(d[1].replace('_', '').replace(' ', ''), 0)
            if not lo(ty) <= n <= hi(ty):
                raise TranslateError('constant %s out of range' % name)
            return ty, lit(n)
        raise TranslateError('constant %s (%s) is neither dumped into GenConsts nor a literal' % (name, path))

    def call_sig(self, e):
        name, pre = e[1], e[3]
        if len(e) > 4 and e[4] == 'method':
            key = (self.scope[0], self.scope[1], name)
        else:
            try:
                sc = self.repo.lookup(self.scope, pre, name)
            except TranslateError:
                raise TranslateError('call of %s%s, which is not resolved' % ('::'.join(pre) + '::' if pre else '', name))
            key = (sc[0], sc[1], name)
        if key not in self.sigs:
            raise TranslateError('call of %s (%s), which was not translated' % (name, key[0]))
        return self.sigs[key]


def split_top(s, sep=','):
    out, cur, d = [], '', 0
    for i, ch in enumerate(s):
        if ch in '([{<':
            d += 1
        elif ch in ')]}':
            d -= 1
        elif ch == '>' and not (i and s[i - 1] == '-'):
            d -= 1
        if ch == sep and d == 0:
            out.append(cur)
            cur = ''
        else:
            cur += ch
    if cur.strip():
        out.append(cur)
    return [x.strip() for x in out]


def parse_params(params, skip=()):
    """-> (has_self, [(name, type)])"""
    has_self = False
    out = []
    for p in split_top(params):
        q = ' '.join(p.split())
        if re.match(r'^&? ?(mut )?self$', q) or re.match(r"^& ?'\w+ (mut )?self$", q):
            has_self = True
            continue
        m = re.match(r'^(mut )?([A-Za-z_]\w*) ?: ?(.+)$', q)
        if not m:
            raise TranslateError('parameter `%s` not in the grammar' % p)
        name, ty = m.group(2), m.group(3).strip()
        if name in skip:
            continue
        if ty not in TYPES:
            raise TranslateError('parameter `%s` has a type outside the grammar (list it as skipped if the translated part does not use it)' % p)
        out.append((name, TYPES[ty]))
    return has_self, out


def parse_ret(ret, cfg_ret=None):
    """-> (kind, type | None)"""
    r = ' '.join(ret.split())
    if cfg_ret == 'err':
        return 'res', None
    m = re.match(r'^-> ?([A-Za-z_]\w*)$', r)
    if m and m.group(1) in TYPES:
        t = TYPES[m.group(1)]
        return ('bool', 'bool') if t == 'bool' else ('int', t)
    if m and (m.group(1) == 'Self' or CAMEL.match(m.group(1))):
        return 'res', None
    m = re.match(r'^-> ?Result ?< ?(\( ?\)|[A-Za-z_]\w*) ?, ?[A-Za-z_][\w:]* ?>$', r)
    if m:
        t = m.group(1).replace(' ', '')
        if t == '()':
            return 'res', None
        if t in TYPES:
            return 'res', TYPES[t]
        if t == 'Self' or CAMEL.match(t):
            return 'res', None
    raise TranslateError('return type `%s` not in the grammar' % ret)


def struct_fields(text, name):
    m = re.search(r'\bstruct\s+%s\s*\{(.*?)\n\}' % re.escape(name), text, flags=re.S)
    if not m:
        raise TranslateError('struct %s not found' % name)
    out = {}
    for f in split_top(m.group(1)):
        f = re.sub(r'#\[[^\]]*\]', '', f)
        mm = re.match(r'^\s*(?:pub(?:\([a-z]+\))?\s+)?([A-Za-z_]\w*)\s*:\s*(.+?)\s*$', f, flags=re.S)
        if mm:
            out[mm.group(1)] = ' '.join(mm.group(2).split())
    return out


def opaque_list(cfg):
    return [([v for _, v in lex(pat)], pname, ty) for pat, pname, ty in cfg.get('opaque', [])]


def coq_param(text, ty):
    return '(%s : %s)' % (text, 'bool' if ty == 'bool' else 'Z')


def group_params(ps):
    """[(text, ty)] -> binder text, consecutive parameters of the same Gallina type grouped"""
    out = []
    cur, curty = [], None
    for t, ty in ps:
        g = 'bool' if ty == 'bool' else 'Z'
        if g != curty and cur:
            out.append('(%s : %s)' % (' '.join(cur), curty))
            cur = []
        curty = g
        cur.append(t)
    if cur:
        out.append('(%s : %s)' % (' '.join(cur), curty))
    return ' '.join(out)


def translate_fn(ctx, cfg):
    """-> (sig, rust text, head, lines)"""
    src = ctx.repo.src(cfg['file'])
    cont = cfg.get('cont')
    text = src.container(cont)
    ctx.scope = (cfg['file'], cont)
    ctx.reserved = set()
    params, ret, body = find_fn(text, cfg['fn'])
    has_self, ps = parse_params(params, cfg.get('skip_params', ()))
    kind, rty = parse_ret(ret, cfg.get('ret'))
    self_inputs = []
    if cfg.get('self'):
        if not has_self:
            raise TranslateError('%s does not take self' % cfg['fn'])
        fields = struct_fields(src.text, cfg.get('struct', cont))
        for f in cfg['self']:
            if fields.get(f) not in TYPES:
                raise TranslateError('field %s.%s has type %s' % (cont, f, fields.get(f)))
            self_inputs.append((f, TYPES[fields[f]]))
    opq = opaque_list(cfg)
    opaque_inputs = []
    for _, pname, ty in opq:
        if (pname, ty) not in opaque_inputs:
            opaque_inputs.append((pname, ty))
    env = {n: ('v_' + n, t) for n, t in ps}
    if len(env) != len(ps):
        raise TranslateError('duplicate parameter names')
    self_env = {f: ('s_' + f, t) for f, t in self_inputs}
    opaque_env = {p: ('q_' + p, t) for p, t in opaque_inputs}
    ctx.reserved |= {v[0] for v in env.values()}
    em = Em(ctx, env, self_env, opaque_env)
    stmts, tail = SParser(lex(body), opq, cfg.get('effects', ()), cfg.get('skip_fields', ())).body()
    lines = em.block(stmts, tail, kind, rty)
    coq = cfg['coq']
    allp = [(t, ty) for t, ty in self_env.values()] + [(t, ty) for t, ty in opaque_env.values()] + [('v_' + n, t) for n, t in ps]
    rtext = {'int': 'outcome Z', 'bool': 'outcome bool', 'res': 'outcome sres'}[kind]
    head = 'Definition %s (m : mode) %s : %s :=' % (coq, group_params(allp), rtext) if allp else \
        'Definition %s (m : mode) : %s :=' % (coq, rtext)
    sig = dict(coq=coq, ptys=[t for _, t in ps], kind=kind, rty=rty, self_inputs=self_inputs, opaque_inputs=opaque_inputs)
    rust = 'fn %s(%s) %s { %s }' % (cfg['fn'], norm_text(params), ' '.join(ret.split()), norm_text(body))
    return sig, rust, head, lines


# ----------------------------------------------------------------------------------------------
# fragments of functions that as a whole are outside the grammar

def find_fragment(toks, frag):
    """-> (tokens of the expression, declared type text | None)"""
    kind = frag[0]
    if kind == 'let':
        name = frag[1]
        nth = frag[2] if len(frag) > 2 else 0
        seen = 0
        for i in range(len(toks)):
            if toks[i] == ('id', 'let'):
                j = i + 1
                if toks[j] == ('id', 'mut'):
                    j += 1
                if toks[j] == ('id', name):
                    if seen < nth:
                        seen += 1
                        continue
                    j += 1
                    ty = None
                    if toks[j] == ('op', ':'):
                        ty = toks[j + 1][1]
                        j += 2
                    if toks[j] != ('op', '='):
                        continue
                    return _until(toks, j + 1, (';',)), ty
        raise TranslateError('`let %s = ..` not found' % name)
    if kind == 'assign':
        name, op, nth = frag[1], frag[2], (frag[3] if len(frag) > 3 else 0)
        seen = 0
        for i in range(1, len(toks) - 1):
            if toks[i] == ('id', name) and toks[i + 1] == ('op', op) and toks[i - 1][1] in (';', '{', '}') :
                if seen < nth:
                    seen += 1
                    continue
                return _until(toks, i + 2, (';',)), None
        raise TranslateError('`%s %s ..` not found' % (name, op))
    if kind == 'selfassign':
        name, op = frag[1], frag[2]
        for i in range(len(toks) - 4):
            if toks[i] == ('id', 'self') and toks[i + 1] == ('op', '.') and toks[i + 2] == ('id', name) and toks[i + 3] == ('op', op):
                return _until(toks, i + 4, (';',)), None
        raise TranslateError('`self.%s %s ..` not found' % (name, op))
    if kind == 'cond':
        kw, nth = frag[1], frag[2]
        seen = 0
        for i in range(len(toks)):
            if toks[i] == ('id', kw):
                if seen < nth:
                    seen += 1
                    continue
                return _until(toks, i + 1, ('{',), cond=True), 'bool'
        raise TranslateError('%s number %d not found' % (kw, nth))
    if kind == 'return':
        nth = frag[1]
        seen = 0
        for i in range(len(toks)):
            if toks[i] == ('id', 'return'):
                if seen < nth:
                    seen += 1
                    continue
                return _until(toks, i + 1, (';',)), None
        raise TranslateError('return number %d not found' % nth)
    if kind == 'callarg':
        # ('callarg', function or method name, which call of it, which argument)
        fname, nth, argi = frag[1], frag[2], frag[3]
        seen = 0
        for i in range(len(toks) - 1):
            if toks[i] == ('id', fname):
                j = i + 1
                if toks[j] == ('op', '::') and toks[j + 1] == ('op', '<'):      # turbofish
                    while toks[j] != ('op', '>'):
                        j += 1
                    j += 1
                if toks[j] != ('op', '('):
                    continue
                if seen < nth:
                    seen += 1
                    continue
                j += 1
                for _ in range(argi):
                    skipped = _until(toks, j, (',',))
                    j += len(skipped) + 1
                return _until(toks, j, (',', ')')), None
        raise TranslateError('call number %d of %s not found' % (nth, fname))
    if kind == 'closure':
        # ('closure', method name, which call): the body of the closure passed as its first argument
        fname, nth = frag[1], frag[2]
        seen = 0
        for i in range(len(toks) - 2):
            if toks[i] == ('id', fname) and toks[i + 1] == ('op', '(') and toks[i + 2][1] in ('|', '||'):
                if seen < nth:
                    seen += 1
                    continue
                j = i + 2
                if toks[j] == ('op', '|'):
                    j += 1
                    while toks[j] != ('op', '|'):
                        j += 1
                j += 1
                if toks[j] == ('op', '{'):
                    return _until(toks, j + 1, ('}',)), None
                return _until(toks, j, (',', ')')), None
        raise TranslateError('closure number %d passed to %s not found' % (nth, fname))
    if kind == 'field':
        name = frag[1]
        for i in range(1, len(toks) - 1):
            if toks[i] == ('id', name) and toks[i + 1] == ('op', ':') and toks[i - 1][1] in ('{', ','):
                return _until(toks, i + 2, (',', '}')), None
        raise TranslateError('field `%s: ..` not found' % name)
    raise TranslateError('fragment kind %s' % kind)


def _until(toks, i, stops, cond=False):
    d = 0
    j = i
    while j < len(toks):
        k, v = toks[j]
        if d == 0 and k == 'op' and v in stops:
            return toks[i:j]
        if k == 'op' and v in ('(', '[') or (k == 'op' and v == '{' and not cond):
            d += 1
        elif k == 'op' and v in (')', ']') or (k == 'op' and v == '}' and not cond):
            d -= 1
            if d < 0:
                return toks[i:j]
        j += 1
    raise TranslateError('unterminated fragment')


def free_vars(e, acc=None):
    """names of the local variables an expression AST mentions"""
    acc = acc if acc is not None else []
    if isinstance(e, tuple):
        if e and e[0] == 'var':
            if e[1] not in acc:
                acc.append(e[1])
            return acc
        if e and e[0] == 'if':
            free_vars(e[1], acc)
            for br in (e[2], e[3]):
                if br:
                    bound = []
                    for st in br[0]:
                        if st[0] == 'let':
                            if st[3] is not None:
                                for v in free_vars(st[3], []):
                                    if v not in bound and v not in acc:
                                        acc.append(v)
                            bound.append(st[1])
                        else:
                            for v in free_vars(st, []):
                                if v not in bound and v not in acc:
                                    acc.append(v)
                    if br[1] is not None:
                        for v in free_vars(br[1], []):
                            if v not in bound and v not in acc:
                                acc.append(v)
            return acc
        for x in e[1:]:
            free_vars(x, acc)
    elif isinstance(e, list):
        for x in e:
            free_vars(x, acc)
    return acc


def chase_lets(body_toks, e, known, opq, depth=0):
    """`let` statements (in dependency order) defining the locals `e` mentions that are not among `known`:
    a fragment may rest on intermediate `let`s of the same function, which are translated with it"""
    if depth > 8:
        raise TranslateError('chain of local definitions too long')
    out = []
    for v in free_vars(e):
        if v in known or any(v == st[1] for st in out):
            continue
        try:
            toks, dty = find_fragment(body_toks, ('let', v))
        except TranslateError:
            raise TranslateError('local variable %s is neither a listed input nor defined by a `let` of the function' % v)
        if dty is not None and dty not in TYPES:
            raise TranslateError('local variable %s has type %s' % (v, dty))
        p = SParser(toks, opq)
        d = p.expr()
        if not p.done():
            raise TranslateError('definition of %s not in the grammar near `%s`' % (v, p.near()))
        for st in chase_lets(body_toks, d, known, opq, depth + 1):
            if not any(st[1] == x[1] for x in out):
                out.append(st)
        out.append(('let', v, TYPES[dty] if dty else None, d, False))
    return out


def translate_fragment(ctx, cfg):
    src = ctx.repo.src(cfg['file'])
    cont = cfg.get('cont')
    text = src.container(cont)
    ctx.scope = (cfg['file'], cont)
    ctx.reserved = set()
    params, ret, body = find_fn(text, cfg['fn'])
    toks, dty = find_fragment(lex(body), cfg['frag'])
    if not toks:
        raise TranslateError('empty fragment')
    # variables: the function's own parameters (when their types are in the grammar) and the listed locals
    auto = {}
    for p in split_top(params):
        m = re.match(r'^(?:mut )?([A-Za-z_]\w*) ?: ?([A-Za-z_]\w*)$', ' '.join(p.split()))
        if m and m.group(2) in TYPES:
            auto[m.group(1)] = TYPES[m.group(2)]
    ps = []
    for n in cfg.get('params', []):
        if n in cfg.get('vars', {}):
            ps.append((n, cfg['vars'][n]))
        elif n in auto:
            ps.append((n, auto[n]))
        else:
            raise TranslateError('fragment parameter %s has no type' % n)
    self_inputs = []
    if cfg.get('self'):
        fields = struct_fields(src.text, cfg.get('struct', cont))
        for f in cfg['self']:
            if fields.get(f) not in TYPES:
                raise TranslateError('field %s.%s has type %s' % (cont, f, fields.get(f)))
            self_inputs.append((f, TYPES[fields[f]]))
    opq = opaque_list(cfg)
    opaque_inputs = []
    for _, pname, ty in opq:
        if (pname, ty) not in opaque_inputs:
            opaque_inputs.append((pname, ty))
    env = {n: ('v_' + n, t) for n, t in ps}
    self_env = {f: ('s_' + f, t) for f, t in self_inputs}
    opaque_env = {p: ('q_' + p, t) for p, t in opaque_inputs}
    ctx.reserved |= {v[0] for v in env.values()}
    em = Em(ctx, env, self_env, opaque_env)
    p = SParser(toks, opq)
    if cfg['frag'][0] == 'cond':
        p.no_struct = 1
    e = p.expr()
    if not p.done():
        raise TranslateError('fragment not in the grammar near `%s`' % p.near())
    want = TYPES.get(dty) if dty else cfg.get('ty')
    if dty and dty not in TYPES:
        raise TranslateError('fragment has type %s' % dty)
    if cfg['frag'][0] in ('assign', 'selfassign') and cfg['frag'][2] != '=':
        tgt = ('var', cfg['frag'][1]) if cfg['frag'][0] == 'assign' else ('self', 'field', cfg['frag'][1])
        e = ('bin', cfg['frag'][2][0], tgt, e)
    pre = chase_lets(lex(body), e, set(env), opq)
    if pre:
        # type of the fragment: needs the chased locals in scope, so compile them first in a scratch emitter
        probe = em.fork()
        probe.block_open(pre, ('num', 0, 'i32'), 'int', 'i32')
        ty = want or probe.ty_of(e) or 'i32'
    else:
        ty = want or em.ty_of(e) or 'i32'
    kind = 'bool' if ty == 'bool' else 'int'
    lines = em.block(pre, e, kind, ty)
    coq = cfg['coq']
    allp = [(t, ty2) for t, ty2 in self_env.values()] + [(t, ty2) for t, ty2 in opaque_env.values()] + [('v_' + n, t) for n, t in ps]
    rtext = 'outcome bool' if kind == 'bool' else 'outcome Z'
    head = 'Definition %s (m : mode) %s : %s :=' % (coq, group_params(allp), rtext) if allp else \
        'Definition %s (m : mode) : %s :=' % (coq, rtext)
    sig = dict(coq=coq, ptys=[t for _, t in ps], kind=kind, rty=ty, self_inputs=self_inputs, opaque_inputs=opaque_inputs)
    rust = 'in fn %s: %s  %s' % (cfg['fn'], ' '.join(str(x) for x in cfg['frag']), ' '.join(v for _, v in toks))
    return sig, rust, head, lines


# ----------------------------------------------------------------------------------------------
# what is translated, per area (callees first)

def F(file, cont, fn, coq, **kw):
    d = dict(file=file, cont=cont, fn=fn, coq=coq)
    d.update(kw)
    return d


RDL = ('self . buffer . capacity ( )', 'buffer_capacity', 'i32')

AREAS = {}

AREAS['bits'] = dict(out='GenSrcBits', files=[BIT], fns=[
    F(BIT, None, 'is_power_of_two', 'src_is_power_of_two'),
    F(BIT, None, 'number_of_trailing_zeroes', 'src_number_of_trailing_zeroes'),
])

RBM = 'ManyToOneRingBuffer'
AREAS['ring'] = dict(out='GenSrcRing', files=[RB, BIT], requires=['GenSrcBits'], fns=[
    F(RB, None, 'check_capacity', 'src_rb_check_capacity'),
    F(RB, 'record_descriptor', 'length_offset', 'src_rb_length_offset'),
    F(RB, 'record_descriptor', 'type_offset', 'src_rb_type_offset'),
    F(RB, 'record_descriptor', 'encoded_msg_offset', 'src_rb_encoded_msg_offset'),
    F(RB, 'record_descriptor', 'make_header', 'src_rb_make_header'),
    F(RB, 'record_descriptor', 'record_length', 'src_rb_record_length'),
    F(RB, 'record_descriptor', 'message_type_id', 'src_rb_message_type_id'),
    F(RB, 'record_descriptor', 'check_msg_type_id', 'src_rb_check_msg_type_id'),
    F(RB, RBM, 'check_msg_length', 'src_rb_check_msg_length', self=['max_msg_len']),
    F(RB, RBM, 'new', 'src_rb_new', skip_params=['buffer'], skip_fields=['buffer'],
      opaque=[('buffer . capacity ( )', 'buffer_capacity', 'i32')]),
    # write
    F(RB, RBM, 'write', 'src_rb_write_record_len', frag=('let', 'record_len'), params=['length']),
    F(RB, RBM, 'write', 'src_rb_write_required_capacity', frag=('let', 'required_capacity'), params=['record_len'],
      vars={'record_len': 'i32'}),
    # claim
    F(RB, RBM, 'claim', 'src_rb_claim_mask', frag=('let', 'mask'), self=['capacity']),
    F(RB, RBM, 'claim', 'src_rb_claim_available_capacity', frag=('let', 'available_capacity'), self=['capacity'],
      params=['tail', 'head'], vars={'tail': 'i64', 'head': 'i64'}),
    F(RB, RBM, 'claim', 'src_rb_claim_lacks', frag=('cond', 'if', 0), params=['required_capacity', 'available_capacity'],
      vars={'available_capacity': 'i64'}),
    F(RB, RBM, 'claim', 'src_rb_claim_lacks_fresh', frag=('cond', 'if', 1), self=['capacity'],
      params=['required_capacity', 'tail', 'head'], vars={'tail': 'i64', 'head': 'i64'}),
    F(RB, RBM, 'claim', 'src_rb_claim_tail_index', frag=('let', 'tail_index'), params=['tail', 'mask'],
      vars={'tail': 'i64', 'mask': 'i64'}),
    F(RB, RBM, 'claim', 'src_rb_claim_len_to_buffer_end', frag=('let', 'len_to_buffer_end'), self=['capacity'],
      params=['tail_index'], vars={'tail_index': 'i32'}),
    F(RB, RBM, 'claim', 'src_rb_claim_wrap_needed', frag=('cond', 'if', 2), params=['required_capacity', 'len_to_buffer_end'],
      vars={'len_to_buffer_end': 'i32'}),
    F(RB, RBM, 'claim', 'src_rb_claim_head_index', frag=('let', 'head_index'), params=['head', 'mask'],
      vars={'head': 'i64', 'mask': 'i64'}),
    F(RB, RBM, 'claim', 'src_rb_claim_lacks_front', frag=('cond', 'if', 3), params=['required_capacity', 'head_index'],
      vars={'head_index': 'i32'}),
    F(RB, RBM, 'claim', 'src_rb_claim_new_tail', frag=('let', 't2'), params=['tail', 'required_capacity', 'padding'],
      vars={'tail': 'i64', 'padding': 'i32'}),
    # read
    F(RB, RBM, 'read', 'src_rb_read_head_index', frag=('let', 'head_index'), self=['capacity'], params=['head'],
      vars={'head': 'i64'}),
    F(RB, RBM, 'read', 'src_rb_read_contiguous_block_len', frag=('let', 'contiguous_block_len'), self=['capacity'],
      params=['head_index'], vars={'head_index': 'i32'}),
    F(RB, RBM, 'read', 'src_rb_read_continue', frag=('cond', 'while', 0),
      params=['bytes_read', 'contiguous_block_len', 'messages_read', 'msg_count_limit'],
      vars={'bytes_read': 'i32', 'contiguous_block_len': 'i32', 'messages_read': 'i32'}),
    F(RB, RBM, 'read', 'src_rb_read_record_index', frag=('let', 'record_index'), params=['head_index', 'bytes_read'],
      vars={'head_index': 'i32', 'bytes_read': 'i32'}),
    F(RB, RBM, 'read', 'src_rb_read_stop', frag=('cond', 'if', 0), params=['record_len'], vars={'record_len': 'i32'}),
    F(RB, RBM, 'read', 'src_rb_read_advance', frag=('assign', 'bytes_read', '+='), params=['bytes_read', 'record_len'],
      vars={'bytes_read': 'i32', 'record_len': 'i32'}),
    # size / unblock
    F(RB, RBM, 'size', 'src_rb_size', frag=('return', 0), params=['tail', 'head_after'],
      vars={'tail': 'i64', 'head_after': 'i64'}, ty='i32'),
    F(RB, RBM, 'unblock', 'src_rb_unblock_consumer_index', frag=('let', 'consumer_index'), params=['head_position', 'mask'],
      vars={'head_position': 'i64', 'mask': 'i64'}),
    F(RB, RBM, 'unblock', 'src_rb_unblock_producer_index', frag=('let', 'producer_index'), params=['tail_position', 'mask'],
      vars={'tail_position': 'i64', 'mask': 'i64'}),
    F(RB, RBM, 'unblock', 'src_rb_unblock_limit', frag=('let', 'limit'), self=['capacity'],
      params=['producer_index', 'consumer_index'], vars={'producer_index': 'i32', 'consumer_index': 'i32'}),
])


BTXM = 'BroadcastTransmitter'
BRXM = 'BroadcastReceiver'
GET_LEN = ('self . buffer . get :: < i32 > ( record_descriptor :: length_offset ( record_offset ) )', 'length_word', 'i32')
AREAS['broadcast'] = dict(out='GenSrcBroadcast', files=[BBD, BRD, BTX, BRX, BIT], requires=['GenSrcBits'], fns=[
    F(BBD, None, 'check_capacity', 'src_bc_check_capacity'),
    F(BRD, None, 'calculate_max_message_length', 'src_bc_calculate_max_message_length'),
    F(BRD, None, 'length_offset', 'src_bc_length_offset'),
    F(BRD, None, 'type_offset', 'src_bc_type_offset'),
    F(BRD, None, 'msg_offset', 'src_bc_msg_offset'),
    F(BRD, None, 'check_msg_type_id', 'src_bc_check_msg_type_id'),
    F(BTX, BTXM, 'check_message_length', 'src_bc_check_message_length', self=['max_msg_length']),
    F(BTX, BTXM, 'new', 'src_bc_tx_new', skip_params=['buffer'], skip_fields=['buffer'],
      opaque=[('buffer . capacity ( )', 'buffer_capacity', 'i32')]),
    F(BTX, BTXM, 'transmit', 'src_bc_tx_record_offset', frag=('let', 'record_offset'), self=['mask'],
      params=['current_tail'], vars={'current_tail': 'i64'}),
    F(BTX, BTXM, 'transmit', 'src_bc_tx_record_length', frag=('let', 'record_length'), params=['length']),
    F(BTX, BTXM, 'transmit', 'src_bc_tx_aligned_record_length', frag=('let', 'aligned_record_length'),
      params=['record_length'], vars={'record_length': 'i32'}),
    F(BTX, BTXM, 'transmit', 'src_bc_tx_new_tail', frag=('let', 'new_tail'), params=['current_tail', 'aligned_record_length'],
      vars={'current_tail': 'i64', 'aligned_record_length': 'i32'}),
    F(BTX, BTXM, 'transmit', 'src_bc_tx_to_end_of_buffer', frag=('let', 'to_end_of_buffer'), self=['capacity'],
      params=['record_offset'], vars={'record_offset': 'i32'}),
    F(BTX, BTXM, 'transmit', 'src_bc_tx_wraps', frag=('cond', 'if', 0), params=['to_end_of_buffer', 'aligned_record_length'],
      vars={'to_end_of_buffer': 'i32', 'aligned_record_length': 'i32'}),
    F(BTX, BTXM, 'transmit', 'src_bc_tx_intent_wrapped', frag=('callarg', 'signal_tail_intent', 0, 0),
      params=['new_tail', 'to_end_of_buffer'], vars={'new_tail': 'i64', 'to_end_of_buffer': 'i32'}, ty='i64'),
    F(BTX, BTXM, 'transmit', 'src_bc_tx_tail_after_padding', frag=('assign', 'current_tail', '+='),
      params=['current_tail', 'to_end_of_buffer'], vars={'current_tail': 'i64', 'to_end_of_buffer': 'i32'}),
    F(BTX, BTXM, 'transmit', 'src_bc_tx_final_tail', frag=('callarg', 'put_ordered', 0, 1),
      params=['current_tail', 'aligned_record_length'], vars={'current_tail': 'i64', 'aligned_record_length': 'i32'}, ty='i64'),
    F(BRX, BRXM, 'do_validate', 'src_bc_rx_do_validate', self=['capacity'],
      opaque=[('self . buffer . get_volatile :: < i64 > ( self . tail_intent_counter_index )', 'tail_intent', 'i64')]),
    F(BRX, BRXM, 'offset', 'src_bc_rx_offset', self=['record_offset']),
    F(BRX, BRXM, 'length', 'src_bc_rx_length',
      opaque=[('self . buffer . get :: < i32 > ( record_descriptor :: length_offset ( self . record_offset ) )', 'length_word', 'i32')]),
    F(BRX, BRXM, 'receive_next', 'src_bc_rx_available', frag=('cond', 'if', 0), params=['tail', 'cursor'],
      vars={'tail': 'i64', 'cursor': 'i64'}),
    F(BRX, BRXM, 'receive_next', 'src_bc_rx_record_offset', frag=('let', 'record_offset'), self=['mask'],
      params=['cursor'], vars={'cursor': 'i64'}),
    F(BRX, BRXM, 'receive_next', 'src_bc_rx_next_record', frag=('selfassign', 'next_record', '='), params=['cursor'],
      vars={'cursor': 'i64'}, opaque=[GET_LEN], ty='i64'),
    F(BRX, BRXM, 'receive_next', 'src_bc_rx_is_padding', frag=('cond', 'if', 2),
      opaque=[('self . buffer . get :: < i32 > ( record_descriptor :: type_offset ( record_offset ) )', 'type_word', 'i32')]),
    # since fix a146cb8 (receive_next reads the header words, validates, then uses them) the length word at offset 0 is the
    # local `length_after_padding`, read before the second validation: an input of the fragment
    F(BRX, BRXM, 'receive_next', 'src_bc_rx_next_record_after_padding', frag=('selfassign', 'next_record', '+='),
      self=['next_record'], params=['length_after_padding'], vars={'length_after_padding': 'i32'}, ty='i64'),
])

CRD = 'CountersReader'
CMG = 'CountersManager'
AREAS['counters'] = dict(out='GenSrcCounters', files=[CNT], fns=[
    F(CNT, CRD, 'counter_offset', 'src_cnt_counter_offset'),
    F(CNT, CRD, 'metadata_offset', 'src_cnt_metadata_offset'),
    F(CNT, CRD, 'validate_counter_id', 'src_cnt_validate_counter_id', self=['max_counter_id']),
    F(CNT, CRD, 'new', 'src_cnt_max_counter_id', frag=('field', 'max_counter_id'), ty='i32',
      opaque=[('values_buffer . capacity ( )', 'values_capacity', 'i32'),
              ('metadata_buffer . capacity ( )', 'metadata_capacity', 'i32')]),
    F(CNT, CMG, 'check_counters_capacity', 'src_cnt_check_counters_capacity',
      opaque=[('self . reader . values_buffer . capacity ( )', 'values_capacity', 'i32')]),
    F(CNT, CMG, 'check_meta_data_capacity', 'src_cnt_check_meta_data_capacity',
      opaque=[('self . reader . metadata_buffer . capacity ( )', 'metadata_capacity', 'i32')]),
    F(CNT, CMG, 'allocate_opt', 'src_cnt_label_too_long', frag=('cond', 'if', 1),
      opaque=[('label . as_bytes ( ) . len ( )', 'label_len', 'usize')]),
    F(CNT, CMG, 'allocate_opt', 'src_cnt_key_too_long', frag=('cond', 'if', 4),
      opaque=[('key . len ( )', 'key_len', 'usize')]),
    F(CNT, CMG, 'free', 'src_cnt_free_deadline', frag=('callarg', 'put', 0, 1), self=['free_to_reuse_timeout_ms'],
      opaque=[('( self . clock ) ( )', 'now', 'u64')], ty='u64'),
    F(CNT, CMG, 'free', 'src_cnt_free_deadline_offset', frag=('callarg', 'put', 0, 0), params=['record_offset'],
      vars={'record_offset': 'i32'}, ty='i32'),
    F(CNT, CMG, 'next_counter_id', 'src_cnt_reusable', frag=('closure', 'find', 0), ty='bool',
      params=['now_ms'], vars={'now_ms': 'u64'},
      opaque=[('self . reader . metadata_buffer . get_volatile :: < i64 > ( CountersReader :: metadata_offset ( * * id ) + * FREE_TO_REUSE_DEADLINE_OFFSET )',
               'deadline', 'i64')]),
])


AREAS['frame'] = dict(out='GenSrcFrame', files=[FD, DFH, TSCAN, TREAD], fns=[
    F(FD, None, 'check_header_length', 'src_fd_check_header_length'),
    F(FD, None, 'check_max_frame_length', 'src_fd_check_max_frame_length'),
    F(FD, None, 'type_offset', 'src_fd_type_offset'),
    F(FD, None, 'flags_offset', 'src_fd_flags_offset'),
    F(FD, None, 'length_offset', 'src_fd_length_offset'),
    F(FD, None, 'term_offset_offset', 'src_fd_term_offset_offset'),
    F(TSCAN, None, 'scan_outcome', 'src_scan_outcome'),
    F(TSCAN, None, 'available', 'src_scan_available'),
    F(TSCAN, None, 'padding', 'src_scan_padding'),
    # term_scan::scan (block_poll)
    F(TSCAN, None, 'scan', 'src_scan_continue', frag=('cond', 'while', 0), params=['offset', 'limit_offset'], vars={'offset': 'i32'}),
    F(TSCAN, None, 'scan', 'src_scan_stop', frag=('cond', 'if', 0), params=['frame_length'], vars={'frame_length': 'i32'}),
    F(TSCAN, None, 'scan', 'src_scan_aligned_frame_length', frag=('let', 'aligned_frame_length'), params=['frame_length'],
      vars={'frame_length': 'i32'}),
    F(TSCAN, None, 'scan', 'src_scan_padding_first', frag=('cond', 'if', 2), params=['term_offset', 'offset'], vars={'offset': 'i32'}),
    F(TSCAN, None, 'scan', 'src_scan_over_limit', frag=('cond', 'if', 3), params=['offset', 'aligned_frame_length', 'limit_offset'],
      vars={'offset': 'i32', 'aligned_frame_length': 'i32'}),
    F(TSCAN, None, 'scan', 'src_scan_advance', frag=('assign', 'offset', '+=', 1), params=['offset', 'aligned_frame_length'],
      vars={'offset': 'i32', 'aligned_frame_length': 'i32'}),
    # term_reader::read (poll)
    F(TREAD, None, 'read', 'src_read_continue', frag=('cond', 'while', 0),
      params=['fragments_read', 'fragments_limit', 'term_offset', 'capacity'], vars={'fragments_read': 'i32', 'capacity': 'i32'},
      opaque=[('outcome . fragments_read', 'fragments_read_field', 'i32')]),
    F(TREAD, None, 'read', 'src_read_stop', frag=('cond', 'if', 0), params=['frame_length'], vars={'frame_length': 'i32'}),
    F(TREAD, None, 'read', 'src_read_advance', frag=('assign', 'term_offset', '+='), params=['term_offset', 'frame_length'],
      vars={'frame_length': 'i32'}),
    F(TREAD, None, 'read', 'src_read_data_offset', frag=('callarg', 'data_handler', 0, 1), params=['fragment_offset'],
      vars={'fragment_offset': 'i32'}, ty='i32'),
    F(TREAD, None, 'read', 'src_read_data_length', frag=('callarg', 'data_handler', 0, 2), params=['frame_length'],
      vars={'frame_length': 'i32'}, ty='i32'),
])

PUBM = 'Publication'
XPUBM = 'ExclusivePublication'
TAPM = 'TermAppender'
CAP0 = ('log_buffers . atomic_buffer ( 0 ) . capacity ( )', 'term_capacity', 'i32')
MTU = ('log_buffer_descriptor :: mtu_length ( & log_md_buffer )', 'mtu_length', 'i32')
ISCONN = ('log_buffer_descriptor :: is_connected ( & self . log_meta_data_buffer )', 'is_connected', 'bool')
AREAS['pub'] = dict(out='GenSrcPub', files=[PUB, XPUB, TAPP, XAPP, BIT, FD, LBD], requires=['GenSrcBits'], fns=[
    # Publication
    F(PUB, PUBM, 'new_position', 'src_pub_new_position', self=['max_possible_position'], effects=['rotate_log']),
    F(PUB, PUBM, 'back_pressure_status', 'src_pub_back_pressure_status', self=['max_possible_position'], ret='err',
      opaque=[ISCONN]),
    F(PUB, PUBM, 'check_max_message_length', 'src_pub_check_max_message_length', self=['max_message_length']),
    F(PUB, PUBM, 'check_payload_length', 'src_pub_check_payload_length', self=['max_payload_length']),
    F(PUB, PUBM, 'new', 'src_pub_max_possible_position', frag=('field', 'max_possible_position'), opaque=[CAP0], ty='i64'),
    F(PUB, PUBM, 'new', 'src_pub_max_payload_length', frag=('field', 'max_payload_length'), opaque=[MTU], ty='i32'),
    F(PUB, PUBM, 'new', 'src_pub_max_message_length', frag=('field', 'max_message_length'), opaque=[CAP0], ty='i32'),
    F(PUB, PUBM, 'new', 'src_pub_position_bits_to_shift', frag=('field', 'position_bits_to_shift'), opaque=[CAP0], ty='i32'),
    F(PUB, PUBM, 'offer_opt', 'src_pub_offer_term_offset', frag=('let', 'term_offset'), params=['raw_tail'], vars={'raw_tail': 'i64'}),
    F(PUB, PUBM, 'offer_opt', 'src_pub_offer_position', frag=('let', 'position'), self=['position_bits_to_shift', 'initial_term_id'],
      params=['term_id', 'term_offset'], vars={'term_id': 'i32', 'term_offset': 'i64'}),
    F(PUB, PUBM, 'offer_opt', 'src_pub_offer_term_mismatch', frag=('cond', 'if', 1), self=['initial_term_id'],
      params=['term_count', 'term_id'], vars={'term_count': 'i32', 'term_id': 'i32'}),
    F(PUB, PUBM, 'offer_opt', 'src_pub_offer_below_limit', frag=('cond', 'if', 2), params=['position', 'limit'],
      vars={'position': 'i64', 'limit': 'i64'}),
    F(PUB, PUBM, 'offer_opt', 'src_pub_offer_unfragmented', frag=('cond', 'if', 3), self=['max_payload_length'], params=['length']),
    F(PUB, PUBM, 'offer_opt', 'src_pub_offer_term_offset_arg', frag=('callarg', 'new_position', 0, 1), params=['term_offset'],
      vars={'term_offset': 'i64'}, ty='i32'),
    F(PUB, PUBM, 'try_claim', 'src_pub_claim_position', frag=('let', 'position'), self=['position_bits_to_shift', 'initial_term_id'],
      params=['term_id', 'term_offset'], vars={'term_id': 'i32', 'term_offset': 'i64'}),
    F(PUB, PUBM, 'try_claim', 'src_pub_claim_term_mismatch', frag=('cond', 'if', 1), self=['initial_term_id'],
      params=['term_count', 'term_id'], vars={'term_count': 'i32', 'term_id': 'i32'}),
    F(PUB, PUBM, 'try_claim', 'src_pub_claim_below_limit', frag=('cond', 'if', 2), params=['position', 'limit'],
      vars={'position': 'i64', 'limit': 'i64'}),
    # ExclusivePublication
    F(XPUB, XPUBM, 'new_position', 'src_xpub_new_position',
      self=['term_begin_position', 'max_possible_position', 'active_partition_index', 'term_id', 'initial_term_id', 'term_offset'],
      opaque=[('self . term_buffer_length ( )', 'term_buffer_length', 'i32')],
      effects=['initialize_tail_with_term_id', 'set_active_term_count_ordered']),
    F(XPUB, XPUBM, 'back_pressure_status', 'src_xpub_back_pressure_status', self=['max_possible_position'], ret='err',
      opaque=[ISCONN]),
    F(XPUB, XPUBM, 'check_max_message_length', 'src_xpub_check_max_message_length', self=['max_message_length']),
    F(XPUB, XPUBM, 'check_payload_length', 'src_xpub_check_payload_length', self=['max_payload_length']),
    F(XPUB, XPUBM, 'new', 'src_xpub_max_possible_position', frag=('field', 'max_possible_position'), opaque=[CAP0], ty='i64'),
    F(XPUB, XPUBM, 'new', 'src_xpub_max_payload_length', frag=('field', 'max_payload_length'), opaque=[MTU], ty='i32'),
    F(XPUB, XPUBM, 'new', 'src_xpub_position_bits_to_shift', frag=('field', 'position_bits_to_shift'), opaque=[CAP0], ty='i32'),
    F(XPUB, XPUBM, 'offer_opt', 'src_xpub_offer_position', frag=('let', 'position'), self=['term_begin_position', 'term_offset']),
    F(XPUB, XPUBM, 'offer_opt', 'src_xpub_offer_below_limit', frag=('cond', 'if', 1), params=['position', 'limit'],
      vars={'position': 'i64', 'limit': 'i64'}),
    F(XPUB, XPUBM, 'offer_opt', 'src_xpub_offer_unfragmented', frag=('cond', 'if', 2), self=['max_payload_length'], params=['length']),
    F(XPUB, XPUBM, 'offer_opt', 'src_xpub_offer_too_long', frag=('cond', 'if', 3), self=['max_message_length'], params=['length']),
    F(XPUB, XPUBM, 'position', 'src_xpub_position', frag=('callarg', 'Ok', 0, 0), self=['term_begin_position', 'term_offset'], ty='i64'),
    # TermAppender: lengths and the end-of-term decision
    F(TAPP, TAPM, 'append_unfragmented_message', 'src_ta_frame_length', frag=('let', 'frame_length'), params=['length']),
    F(TAPP, TAPM, 'append_unfragmented_message', 'src_ta_aligned_length', frag=('let', 'aligned_length'), params=['frame_length'],
      vars={'frame_length': 'i32'}),
    F(TAPP, TAPM, 'append_unfragmented_message', 'src_ta_term_offset', frag=('let', 'term_offset'), params=['raw_tail'],
      vars={'raw_tail': 'i64'}),
    F(TAPP, TAPM, 'append_unfragmented_message', 'src_ta_resulting_offset', frag=('let', 'resulting_offset'),
      params=['term_offset', 'aligned_length'], vars={'term_offset': 'i64', 'aligned_length': 'i32'}),
    F(TAPP, TAPM, 'append_unfragmented_message', 'src_ta_trips', frag=('cond', 'if', 0), params=['resulting_offset', 'term_length'],
      vars={'resulting_offset': 'i64', 'term_length': 'i32'}),
    F(TAPP, TAPM, 'append_fragmented_message', 'src_ta_num_max_payloads', frag=('let', 'num_max_payloads'),
      params=['length', 'max_payload_length']),
    F(TAPP, TAPM, 'append_fragmented_message', 'src_ta_remaining_payload', frag=('let', 'remaining_payload'),
      params=['length', 'max_payload_length']),
    F(TAPP, TAPM, 'append_fragmented_message', 'src_ta_last_frame_length', frag=('let', 'last_frame_length'),
      params=['remaining_payload'], vars={'remaining_payload': 'i32'}, ty='i32'),
    F(TAPP, TAPM, 'append_fragmented_message', 'src_ta_required_length', frag=('let', 'required_length'),
      params=['num_max_payloads', 'max_payload_length', 'last_frame_length'],
      vars={'num_max_payloads': 'i32', 'last_frame_length': 'i32'}),
    F(TAPP, TAPM, 'handle_end_of_log_condition', 'src_ta_pads', frag=('cond', 'if', 0), params=['term_offset', 'term_length']),
    F(TAPP, TAPM, 'handle_end_of_log_condition', 'src_ta_padding_length', frag=('let', 'padding_length'),
      params=['term_length', 'offset'], vars={'offset': 'i32'}),
    # ExclusiveTermAppender: lengths, the resulting offset (i32: the publication passes its own cursor) and the end-of-term decision
    F(XAPP, 'ExclusiveTermAppender', 'claim', 'src_xta_frame_length', frag=('let', 'frame_length'), params=['length']),
    F(XAPP, 'ExclusiveTermAppender', 'claim', 'src_xta_aligned_length', frag=('let', 'aligned_length'), params=['frame_length'],
      vars={'frame_length': 'i32'}),
    F(XAPP, 'ExclusiveTermAppender', 'claim', 'src_xta_resulting_offset', frag=('let', 'resulting_offset'),
      params=['term_offset', 'aligned_length'], vars={'aligned_length': 'i32'}),
    F(XAPP, 'ExclusiveTermAppender', 'claim', 'src_xta_trips', frag=('cond', 'if', 0), params=['resulting_offset', 'term_length'],
      vars={'resulting_offset': 'i32', 'term_length': 'i32'}),
    F(XAPP, 'ExclusiveTermAppender', 'append_fragmented_message', 'src_xta_required_length', frag=('let', 'required_length'),
      params=['length', 'max_payload_length']),
    F(XAPP, 'ExclusiveTermAppender', 'append_fragmented_message', 'src_xta_frag_resulting_offset', frag=('let', 'resulting_offset'),
      params=['term_offset', 'required_length'], vars={'required_length': 'i32'}),
    F(XAPP, 'ExclusiveTermAppender', 'handle_end_of_log_condition', 'src_xta_pads', frag=('cond', 'if', 0),
      params=['term_offset', 'term_length']),
    F(XAPP, 'ExclusiveTermAppender', 'handle_end_of_log_condition', 'src_xta_padding_length', frag=('let', 'padding_length'),
      params=['term_length', 'term_offset']),
])

IMGM = 'Image'
SUBPOS = ('self . subscriber_position . get ( )', 'subscriber_position', 'i64')
AREAS['image'] = dict(out='GenSrcImage', files=[IMG, BIT, FD, LBD], requires=['GenSrcBits'], fns=[
    F(IMG, IMGM, 'validate_position', 'src_img_validate_position', self=['term_length_mask'], opaque=[SUBPOS]),
    F(IMG, IMGM, 'create', 'src_img_term_length_mask', frag=('field', 'term_length_mask'), params=['capacity'],
      vars={'capacity': 'i32'}, ty='i32'),
    F(IMG, IMGM, 'create', 'src_img_position_bits_to_shift', frag=('field', 'position_bits_to_shift'), params=['capacity'],
      vars={'capacity': 'i32'}, ty='i32'),
    # poll
    F(IMG, IMGM, 'poll', 'src_img_poll_term_offset', frag=('let', 'term_offset'), self=['term_length_mask'], params=['position'],
      vars={'position': 'i64'}),
    F(IMG, IMGM, 'poll', 'src_img_poll_index', frag=('let', 'index'), self=['position_bits_to_shift'], params=['position'],
      vars={'position': 'i64'}),
    F(IMG, IMGM, 'poll', 'src_img_poll_new_position', frag=('let', 'new_position'), params=['position', 'term_offset'],
      vars={'position': 'i64', 'term_offset': 'i32'}, opaque=[('read_outcome . offset', 'read_offset', 'i32')]),
    F(IMG, IMGM, 'poll', 'src_img_poll_advances', frag=('cond', 'if', 2), params=['new_position', 'position'],
      vars={'new_position': 'i64', 'position': 'i64'}),
    # bounded_poll
    F(IMG, IMGM, 'bounded_poll', 'src_img_bounded_initial_offset', frag=('let', 'initial_offset'), self=['term_length_mask'],
      params=['initial_position'], vars={'initial_position': 'i64'}),
    F(IMG, IMGM, 'bounded_poll', 'src_img_bounded_limit_offset', frag=('let', 'limit_offset'),
      params=['limit_position', 'initial_position', 'offset', 'capacity'],
      vars={'initial_position': 'i64', 'offset': 'i32', 'capacity': 'i64'}),
    F(IMG, IMGM, 'bounded_poll', 'src_img_bounded_continue', frag=('cond', 'while', 0),
      params=['fragments_read', 'fragment_limit', 'offset', 'limit_offset'],
      vars={'fragments_read': 'i32', 'offset': 'i32', 'limit_offset': 'i32'}),
    F(IMG, IMGM, 'bounded_poll', 'src_img_bounded_stop', frag=('cond', 'if', 1), params=['length'], vars={'length': 'i32'}),
    F(IMG, IMGM, 'bounded_poll', 'src_img_bounded_aligned_length', frag=('let', 'aligned_length'), params=['length'],
      vars={'length': 'i32'}),
    F(IMG, IMGM, 'bounded_poll', 'src_img_bounded_advance', frag=('assign', 'offset', '+='), params=['offset', 'aligned_length'],
      vars={'offset': 'i32', 'aligned_length': 'i32'}),
    F(IMG, IMGM, 'bounded_poll', 'src_img_bounded_data_offset', frag=('callarg', 'fragment_handler', 0, 1), params=['frame_offset'],
      vars={'frame_offset': 'i32'}, ty='i32'),
    F(IMG, IMGM, 'bounded_poll', 'src_img_bounded_data_length', frag=('callarg', 'fragment_handler', 0, 2), params=['length'],
      vars={'length': 'i32'}, ty='i32'),
    F(IMG, IMGM, 'bounded_poll', 'src_img_bounded_resulting_position', frag=('let', 'resulting_position'),
      params=['initial_position', 'offset', 'initial_offset'], vars={'initial_position': 'i64', 'offset': 'i32', 'initial_offset': 'i32'}),
    F(IMG, IMGM, 'bounded_poll', 'src_img_bounded_advances', frag=('cond', 'if', 3), params=['resulting_position', 'initial_position'],
      vars={'resulting_position': 'i64', 'initial_position': 'i64'}),
    # controlled_poll
    F(IMG, IMGM, 'controlled_poll', 'src_img_controlled_initial_offset', frag=('let', 'initial_offset'), self=['term_length_mask'],
      params=['initial_position'], vars={'initial_position': 'i64'}),
    F(IMG, IMGM, 'controlled_poll', 'src_img_controlled_continue', frag=('cond', 'while', 0),
      params=['fragments_read', 'fragment_limit', 'resulting_offset', 'capacity'],
      vars={'fragments_read': 'i32', 'resulting_offset': 'i32', 'capacity': 'i32'}),
    F(IMG, IMGM, 'controlled_poll', 'src_img_controlled_advance', frag=('assign', 'resulting_offset', '+='),
      params=['resulting_offset', 'aligned_length'], vars={'resulting_offset': 'i32', 'aligned_length': 'i32'}),
    F(IMG, IMGM, 'controlled_poll', 'src_img_controlled_abort', frag=('assign', 'resulting_offset', '-='),
      params=['resulting_offset', 'aligned_length'], vars={'resulting_offset': 'i32', 'aligned_length': 'i32'}),
    F(IMG, IMGM, 'controlled_poll', 'src_img_controlled_commit', frag=('assign', 'initial_position', '+='),
      params=['initial_position', 'resulting_offset', 'initial_offset'],
      vars={'initial_position': 'i64', 'resulting_offset': 'i32', 'initial_offset': 'i32'}),
    F(IMG, IMGM, 'controlled_poll', 'src_img_controlled_resulting_position', frag=('let', 'resulting_position'),
      params=['initial_position', 'resulting_offset', 'initial_offset'],
      vars={'initial_position': 'i64', 'resulting_offset': 'i32', 'initial_offset': 'i32'}),
    # block_poll
    F(IMG, IMGM, 'block_poll', 'src_img_block_term_offset', frag=('let', 'term_offset'), self=['term_length_mask'],
      params=['position'], vars={'position': 'i64'}),
    F(IMG, IMGM, 'block_poll', 'src_img_block_limit_offset', frag=('let', 'limit_offset'), params=['term_offset', 'block_length_limit'],
      vars={'term_offset': 'i32'}, opaque=[('term_buffer . capacity ( )', 'capacity', 'i32')]),
    F(IMG, IMGM, 'block_poll', 'src_img_block_length', frag=('let', 'length'), params=['resulting_offset', 'term_offset'],
      vars={'resulting_offset': 'i32', 'term_offset': 'i32'}),
    F(IMG, IMGM, 'block_poll', 'src_img_block_nonempty', frag=('cond', 'if', 1), params=['resulting_offset', 'term_offset'],
      vars={'resulting_offset': 'i32', 'term_offset': 'i32'}),
    F(IMG, IMGM, 'block_poll', 'src_img_block_new_position', frag=('callarg', 'set_ordered', 0, 0), params=['position', 'length'],
      vars={'position': 'i64', 'length': 'i32'}, ty='i64'),
])

AREAS['sub'] = dict(out='GenSrcSub', files=['src/subscription.rs'], fns=[
    # Subscription::poll_inner (C20): the rotation of the starting image
    F('src/subscription.rs', 'Subscription', 'poll_inner', 'src_sub_starting_index', frag=('let', 'starting_index'),
      self=['round_robin_index']),
    F('src/subscription.rs', 'Subscription', 'poll_inner', 'src_sub_next_round_robin', frag=('selfassign', 'round_robin_index', '+='),
      self=['round_robin_index']),
    F('src/subscription.rs', 'Subscription', 'poll_inner', 'src_sub_wraps', frag=('cond', 'if', 0), params=['starting_index'],
      vars={'starting_index': 'usize'}, opaque=[('image_list . len ( )', 'image_count', 'usize')]),
    F('src/subscription.rs', 'Subscription', 'poll_inner', 'src_sub_has_budget', frag=('cond', 'if', 1),
      params=['fragments_read', 'fragment_limit'], vars={'fragments_read': 'i32'}),
    F('src/subscription.rs', 'Subscription', 'poll_inner', 'src_sub_budget_left', frag=('callarg', 'poll_kind', 0, 1),
      params=['fragment_limit', 'fragments_read'], vars={'fragments_read': 'i32'}, ty='i32'),
])


def read_dumped(genconsts_path):
    try:
        return set(re.findall(r'(?m)^Definition\s+(\w+)\s*:\s*Z\s*:=', open(genconsts_path).read()))
    except OSError:
        return set()


def read_external(gendescriptor_path):
    try:
        return set(re.findall(r'(?m)^Definition\s+(src_\w+)\s', open(gendescriptor_path).read()))
    except OSError:
        return set()


_SIG_CACHE = {}


def translate_area(repo_dir, area, gen_dir):
    """-> (text, [coq names done], [errors])"""
    spec = AREAS[area]
    ctx = Ctx(Repo(repo_dir), read_dumped(os.path.join(gen_dir, 'GenConsts.v')),
              read_external(os.path.join(gen_dir, 'GenDescriptor.v')))
    errors = []
    try:
        ttext = strip_comments(open(os.path.join(repo_dir, TYPES_RS)).read())
        if not re.search(r'\bpub\s+type\s+Index\s*=\s*i32\s*;', ttext):
            errors.append('types.rs: `pub type Index = i32;` not found (Index is translated as i32)')
        if not re.search(r'\bpub\s+type\s+Moment\s*=\s*u64\s*;', ttext):
            errors.append('types.rs: `pub type Moment = u64;` not found')
    except OSError as e:
        errors.append('types.rs: %s' % e)
    # signatures of the areas this one may call
    for dep in spec.get('requires', []):
        dep_area = [a for a, s in AREAS.items() if s['out'] == dep][0]
        _, _, _, dep_sigs = _translate_area_inner(repo_dir, dep_area, gen_dir, Ctx(ctx.repo, ctx.dumped, set(
            c for c in read_external(os.path.join(gen_dir, 'GenDescriptor.v')))), [])
        for k, s in dep_sigs.items():
            s = dict(s)
            s['coq'] = '%s.%s' % (dep, s['coq'])
            ctx.sigs[k] = s
    text, done, errors, _ = _translate_area_inner(repo_dir, area, gen_dir, ctx, errors)
    return text, done, errors


def _translate_area_inner(repo_dir, area, gen_dir, ctx, errors):
    spec = AREAS[area]
    out = []
    done = []
    own = {}
    rows = []
    for cfg in spec['fns']:
        label = cfg['coq']
        try:
            if 'frag' in cfg:
                sig, rust, head, lines = translate_fragment(ctx, cfg)
            else:
                sig, rust, head, lines = translate_fn(ctx, cfg)
        except (TranslateError, IndexError, KeyError, AssertionError, TypeError) as e:
            msg = '%s: %s' % (e.__class__.__name__, e) if not isinstance(e, TranslateError) else str(e)
            errors.append('%s (%s in %s): %s' % (label, cfg['fn'], cfg['file'], msg))
            out.append('(* NOT TRANSLATED  %s (%s, fn %s): %s *)\n' % (label, cfg['file'], cfg['fn'], coq_comment_safe(msg)))
            continue
        if 'frag' not in cfg:
            key = (cfg['file'], cfg.get('cont'), cfg['fn'])
            ctx.sigs[key] = sig
            own[key] = sig
        done.append(label)
        out.append('(* %s%s\n   %s *)' % (cfg['file'], ' (%s)' % cfg['cont'] if cfg.get('cont') else '', coq_comment_safe(rust)))
        out.append(head)
        out.append('\n'.join('  ' + l for l in lines) + '.\n')
        ptags = [TAG[t] for _, t in sig['self_inputs']] + [TAG[t] for _, t in sig['opaque_inputs']] + [TAG[t] for t in sig['ptys']]
        rtag = 'RRes' if sig['kind'] == 'res' else 'RInt %s' % TAG[sig['rty']]
        rows.append('(%s, [%s], %s)' % (qstr(sig['coq']), '; '.join(ptags), rtag))
    head = ['(* GENERATED on every run by tools/props/src_translate.py (area %s) from the repository under check:' % area,
            '   %s.  Do not edit. *)' % ', '.join(spec['files'])]
    if errors:
        head.append('(* INCOMPLETE - the translator did not understand: %s.' % coq_comment_safe('; '.join(errors)))
        head.append('   The functions concerned are missing; K1 is reported broken and every proof about them fails. *)')
    head += ['From Coq Require Import String List.', 'Import ListNotations.',
             'Require Import V.Base.MachineInt V.Base.MachineInt2 V.Base.MachineIntT.',
             'Require V.Generated.GenConsts V.Generated.GenDescriptor%s.' % ''.join(' V.Generated.' + r for r in spec.get('requires', [])),
             'Open Scope Z_scope.', '']
    tail = ['(* parameter and result types as read from the source: self fields, opaque inputs, then the declared parameters *)',
            'Definition src_signatures : list (string * list sty * rsig) :=\n  [ ' + ';\n    '.join(rows) + ' ].', '']
    return '\n'.join(head + out + tail), done, errors, own


def generate_area(area):
    gen_dir = os.path.join(core.COQ, 'Generated')
    try:
        text, done, errors = translate_area(core.REPO, area, gen_dir)
    except OSError as e:
        return False, 'src_translate[%s]: %s' % (area, e)
    changed = core.write_if_changed(os.path.join(gen_dir, AREAS[area]['out'] + '.v'), text)
    if errors:
        return False, 'src_translate[%s]: unsupported source shape: %s' % (area, '; '.join(errors))
    return True, '%s: %d functions / fragments translated%s' % (area, len(done), ' (rewritten)' if changed else '')


if __name__ == '__main__':
    import sys
    area = sys.argv[1]
    repo = sys.argv[2] if len(sys.argv) > 2 else '/repo'
    t, d, errs = translate_area(repo, area, os.path.join(core.ROOT, 'coq', 'Generated'))
    sys.stdout.write(t)
    sys.stderr.write('translated: %d\nerrors: %s\n' % (len(d), '\n  '.join(errs)))
