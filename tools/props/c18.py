"""C18 - vectored offer equals offering the concatenation."""
from vlib.term import z, to_coq
from props import c04 as base

ID = 'C18'
PROP_FILE = 'Props/C18.v'
EVAL_FILES = ['Model/PubCases.v', 'Oracle/C18Oracle.v']
CRATES = ['c18']
MODES = ['debug', 'release']
IMPORTS = ('Require Import V.Base.MachineInt V.Model.LogBase V.Model.Appender V.Model.Publication V.Model.ExclPublication '
           'V.Model.PubCases V.Oracle.C04Oracle V.Oracle.C18Oracle.')
RULE = ('twin logs: after the same short pre-history (limit opened, 0..4 offers / claims so that the tail is anywhere in the term, '
        'including a few bytes before its end) log A gets offer_bulk of a message cut into 1..6 buffers and log B offer of the whole message; '
        'message length from {0, 1, 31, 32, 33, payload-1, payload, payload+1, 2 payload, 2 payload+1, max-1, max, max+1, fills-the-term, one-too-many, random}; '
        'exact-fit block: fragmented messages whose frames end exactly on the last byte of the term, one byte less and one byte more, for every MTU of the 1 KiB / 4 KiB geometries; '
        'the reserved-value supplier is a checksum over the frame payload as it is in the term buffer when the supplier is called (plus offset and length); '
        'cuts: random compositions including empty buffers (first, middle, last), a single buffer, cuts exactly on fragment boundaries, '
        'one-byte buffers; geometry and hand-over points as in C04 (term 1 KiB / 4 KiB / 64 KiB, MTU 64..term/8, last terms, wrapped term ids); '
        'kind xapp: ExclusiveTermAppender::append_unfragmented_message_bulk against append_unfragmented_message on logs handed over at (n0, off0). '
        'kind sapp (oracle only): the shared TermAppender called directly, vectored against contiguous, unfragmented and fragmented, with the active term id equal to / different from the term id of the tail (both flavours must refuse alike and write nothing). '
        'Observation: result, changed words of every partition, tails, count, position of both logs (+ A before the offer). '
        'A case is non-trivial when the message is cut into at least 2 buffers; distinct = distinct (state, cut) pairs')
ASSUMPTIONS = [
    'model = the loops as repaired by fixes/C18-bulk.diff; against the unrepaired repository the check reports the violation',
    'sum of buffer lengths <= 2^30 (an i32 length with room for the header)',
]
PER_CASE_TIMEOUT = 5.0
CHUNK = 4          # a wrong copy length aborts the process: few cases per child


def gen_twin(rng, i):
    tlen, mtu = rng.choice(base.GEOMS[:7] if rng.random() < 0.85 else base.GEOMS)
    mpl = mtu - 32
    mm = min(tlen // 8, 16 * 1024 * 1024)
    init = rng.choice([0, 1, -1, base.MINI, base.MAXI, base.MAXI - 1, rng.randrange(base.MINI, base.MAXI + 1)])
    n0 = rng.choice([0, 0, 1, 2, 5, 2**31 - 2, 2**31 - 1, rng.randrange(0, 2**31)])
    off0 = rng.choice([0, 0, 32, tlen // 2, tlen - 64, tlen - 32, tlen, 32 * rng.randrange(0, tlen // 32 + 1)])
    t = base.Tracker(tlen, mtu, n0, off0)
    pre = []
    k = rng.randrange(0, 200)
    if rng.random() < 0.95:
        t.limit = t.pos + rng.randrange(1, 4 * tlen)
        pre.append(['l', t.limit])
    for _ in range(rng.choice([0, 0, 1, 2, 4])):
        k += 1
        if rng.random() < 0.7:
            ln = base.pick_len(rng, t)
            pre.append(['o', k, ln])
            t.append(ln)
        else:
            ln = base.pick_len(rng, t, claim=True)
            pre.append(['c', ln])
            t.append(ln, claim=True)
        pre.append(['z'])
    if rng.random() < 0.1:
        pre.append(rng.choice([['x'], ['l', t.pos], ['n', 1]]))
    left = max(0, tlen - min(t.off, tlen))
    fill = max(0, left - 32)
    total = rng.choice([0, 1, 31, 32, 33, mpl - 1, mpl, mpl + 1, 2 * mpl, 2 * mpl + 1, 3 * mpl, mm - 1, mm, mm + 1, fill, fill + 1,
                        rng.randrange(0, mpl + 1), rng.randrange(0, mm + 1), rng.randrange(0, mm + 1)])
    total = max(0, min(total, mm + 8))
    style = i % 6
    if style == 0:
        parts = [total]
    elif style == 1 and total > 0:
        parts = [0] + base.split_parts(rng, total, mpl) + [0]
    elif style == 2 and total > mpl:
        parts, rest = [], total
        while rest > 0:                      # cuts exactly on fragment boundaries
            c = min(rest, mpl * rng.choice([1, 1, 2]))
            parts.append(c)
            rest -= c
        parts = parts[:6] + ([sum(parts[6:])] if len(parts) > 6 else [])
    elif style == 3 and 0 < total <= 6:
        parts = [1] * total
    else:
        parts = base.split_parts(rng, total, mpl)
    return {'kind': 'twin', 'pub': 's', 'geom': [tlen, mtu, init, n0, off0], 'pre': pre, 'k': k + 1, 'parts': parts}


def gen_exact_fit(rng, tlen, mtu, d, style):
    """a FRAGMENTED message whose frames end exactly on the last byte of the term (d = 0), one byte less / more (d = -1 / +1)"""
    mpl = mtu - 32
    mm = min(tlen // 8, 16 * 1024 * 1024)
    total = rng.choice([mpl + 1, mpl + rng.randrange(1, mpl), 2 * mpl, 2 * mpl + rng.randrange(1, mpl), mm, mm - rng.randrange(0, 40)])
    total = max(mpl + 1, min(total, mm))
    room = base.required(total, mpl)
    off0 = tlen - room
    n0 = rng.choice([0, 1, 2, 7, 2**31 - 2, 2**31 - 1])
    init = rng.choice([0, -1, base.MAXI, rng.randrange(base.MINI, base.MAXI + 1)])
    total = max(0, min(total + d, mm + 1))
    if style == 0:
        parts = [total]
    elif style == 1:
        parts, rest = [], total
        while rest > 0 and len(parts) < 5:
            c = min(rest, mpl)
            parts.append(c)
            rest -= c
        if rest:
            parts.append(rest)
    else:
        parts = base.split_parts(rng, total, mpl)
    pre = [['l', (n0 * tlen + off0) + rng.randrange(1, 4 * tlen)]]
    if rng.random() < 0.3:
        pre.append(['n', 1])
    return {'kind': 'twin', 'pub': 's', 'geom': [tlen, mtu, init, n0, off0], 'pre': pre, 'k': rng.randrange(0, 200), 'parts': parts}


def gen_xapp(rng, i):
    tlen, mtu = rng.choice(base.GEOMS[:7])
    mpl = mtu - 32
    init = rng.choice([0, -1, base.MAXI, rng.randrange(base.MINI, base.MAXI + 1)])
    n0 = rng.choice([0, 1, 2, 2**31 - 1, rng.randrange(0, 2**31)])
    off0 = rng.choice([0, 32, tlen - 64, tlen - 32, tlen - mtu, 32 * rng.randrange(0, tlen // 32)])
    off0 = max(0, off0)
    total = rng.choice([0, 1, 32, mpl - 1, mpl, rng.randrange(0, mpl + 1), rng.randrange(0, mpl + 1)])
    parts = [total] if i % 5 == 0 else base.split_parts(rng, total, mpl)
    return {'kind': 'xapp', 'geom': [tlen, mtu, init, n0, off0], 'k': rng.randrange(0, 200), 'parts': parts}


def gen_sapp(rng, big):
    """the shared appender called directly, unfragmented and fragmented, with the caller's term id equal to / different from the
    term id of the tail its fetch-add lands on (a publisher delayed between sampling the tail and the fetch-add)"""
    out = []
    for (tlen, mtu) in (base.GEOMS[:7] if big else [base.GEOMS[0], base.GEOMS[2], base.GEOMS[4]]):
        mpl = mtu - 32
        for delta in (0, 0, 1, -1, 3, -3):
            for total in (0, 1, mpl, mpl + 1, 2 * mpl, 2 * mpl + 5, rng.randrange(0, 4 * mpl)):
                init = rng.choice([0, -1, base.MAXI, rng.randrange(base.MINI, base.MAXI + 1)])
                n0 = rng.choice([0, 1, 2, 7, rng.randrange(0, 2**31)])
                off0 = max(0, rng.choice([0, 32, tlen - 64, tlen - mtu, 32 * rng.randrange(0, tlen // 32)]))
                parts = base.split_parts(rng, total, max(1, mpl)) if total else []
                out.append({'kind': 'sapp', 'geom': [tlen, mtu, init, n0, off0], 'delta': delta, 'k': rng.randrange(0, 200), 'parts': parts})
    return out


def generate(rng, tier):
    big = tier == 'thorough'
    n = 6000 if big else 270
    cases = []
    # smallest witnesses first
    cases.append({'kind': 'twin', 'pub': 's', 'geom': [1024, 128, 0, 0, 0], 'pre': [['l', 100000]], 'k': 1, 'parts': [4]})
    cases.append({'kind': 'twin', 'pub': 's', 'geom': [1024, 128, 0, 0, 0], 'pre': [['l', 100000]], 'k': 1, 'parts': [10, 6]})
    cases.append({'kind': 'twin', 'pub': 's', 'geom': [4096, 64, 0, 0, 0], 'pre': [['l', 100000]], 'k': 1, 'parts': [10, 30]})
    cases.append({'kind': 'xapp', 'geom': [1024, 128, 0, 0, 0], 'k': 1, 'parts': [10, 6]})
    # fragmented messages that end exactly on the last byte of the term, one byte less, one byte more: every MTU of the small geometries
    geoms = base.GEOMS[:7] + (base.GEOMS[7:9] if big else [])
    for j, (tlen, mtu) in enumerate(geoms):
        for d in (0, -1, 1):
            for rep in range(2 if not big else 8):
                cases.append(gen_exact_fit(rng, tlen, mtu, d, (j + rep + d) % 3))
    for i in range(n):
        cases.append(gen_twin(rng, i) if i % 6 != 5 else gen_xapp(rng, i))
    return cases + gen_edges(rng, big) + gen_sapp(rng, big)


def gen_edges(rng, big):
    """round 3: inputs the random generator (almost) never produces - an empty list of buffers; refusals at the very end of the
    position space, where the status depends on the length of the WHOLE message; over-long messages offered while refused"""
    out = []
    geoms = base.GEOMS[:7] if big else [base.GEOMS[0], base.GEOMS[2], base.GEOMS[4]]
    for (tlen, mtu) in geoms:
        mpl = mtu - 32
        mm = min(tlen // 8, 16 * 1024 * 1024)
        # no buffers at all: an empty message - accepted, refused at the limit, on a closed publication, at the end of a term
        for (n0, off0, pre) in ((0, 0, [['l', 100000]]), (3, tlen - 32, [['l', 10 * tlen]]), (3, tlen, [['l', 10 * tlen]]),
                                (0, 64, [['l', 64], ['n', 1]]), (0, 64, [['l', 100000], ['x']]), (2**31 - 1, tlen, [['l', 2**62]])):
            out.append({'kind': 'twin', 'pub': 's', 'geom': [tlen, mtu, rng.choice([0, -1, base.MAXI]), n0, off0], 'pre': pre,
                        'k': rng.randrange(0, 200), 'parts': []})
        for off0 in (0, tlen - 32, tlen):
            out.append({'kind': 'xapp', 'geom': [tlen, mtu, 0, rng.choice([0, 5, 2**31 - 1]), off0], 'k': rng.randrange(0, 200), 'parts': []})
        # refused in the very last term, a few bytes before the end of the position space: MaxPositionExceeded iff position + the
        # length of the whole message reaches term_length * 2^31
        for off0 in (tlen - 64, tlen - 32):
            pos = (2**31 - 1) * tlen + off0
            left = tlen - off0
            for total in (left - 1, left, left + 8):
                for parts in ([1, total - 1], [0, total], [total - 1, 1]):
                    pre = [['l', pos - rng.choice([0, 32])]] + ([['n', 1]] if rng.random() < 0.5 else [])
                    out.append({'kind': 'twin', 'pub': 's', 'geom': [tlen, mtu, rng.choice([0, 1, base.MAXI]), 2**31 - 1, off0], 'pre': pre,
                                'k': rng.randrange(0, 200), 'parts': parts})
        # over-long message while refused / closed: the refusal comes first
        for pre in ([['l', 0]], [['l', 100000], ['x']], [['n', 1]]):
            out.append({'kind': 'twin', 'pub': 's', 'geom': [tlen, mtu, 0, 0, 0], 'pre': pre, 'k': rng.randrange(0, 200),
                        'parts': [mm, 1] if rng.random() < 0.5 else [1, mm + 7]})
    return out


def impl_line(c):
    g = ' '.join(str(x) for x in c['geom'])
    msg = ' '.join(str(x) for x in [c['k']] + c['parts'])
    if c['kind'] == 'twin':
        pre = ' ; '.join(' '.join(str(x) for x in o) for o in c['pre'])
        return 'twin %s %s | %s | %s' % (c['pub'], g, pre, msg)
    if c['kind'] == 'sapp':
        return 'sapp %s %d | %s' % (g, c['delta'], msg)
    return 'xapp %s | %s' % (g, msg)


def model_expr(c, mode):
    g = ' '.join(z(x) for x in c['geom'])
    if c['kind'] == 'twin':
        return 'twin_case %s %s [%s] %s %s' % (base.mode_c(mode), g, '; '.join(base.op_coq(o) for o in c['pre']), z(c['k']), base.zl(c['parts']))
    if c['kind'] == 'sapp':
        return None         # judged by the oracle alone (equality of the two flavours + the refusal on a foreign term id)
    return 'xapp_case %s %s %s %s' % (base.mode_c(mode), g, z(c['k']), base.zl(c['parts']))


def oracle_expr(c, mode, obs):
    if isinstance(obs, int) or obs[0] != 'tuple':
        return 'false'
    geom = 'mkGeom %s %s %s' % (' '.join(z(x) for x in c['geom']), z(base.SESSION), z(base.STREAM))
    total = sum(c['parts'])
    # the term parser flattens left-nested tuples: ((r, d, p), a, b) arrives as (r, d, p, a, b)
    items = obs[1]
    if c['kind'] == 'twin':
        if len(items) != 5:
            return 'false'
        before = ('tuple', items[0:3])
        return 'holds_twin (%s) %s %s %s %s' % (geom, z(total), to_coq(before), to_coq(items[3]), to_coq(items[4]))
    if len(items) != 3:
        return 'false'
    if c['kind'] == 'sapp':
        return 'holds_sapp (%s) %s %s %s %s' % (geom, z(c['delta']), z(total), to_coq(('tuple', items[0:2])), to_coq(items[2]))
    return 'holds_xapp (%s) %s %s %s' % (geom, z(total), to_coq(('tuple', items[0:2])), to_coq(items[2]))


def nontrivial(c):
    return len(c['parts']) >= 2


def shrink(c):
    out = []
    parts = c['parts']
    if len(parts) > 1:
        out.append(dict(c, parts=[parts[0] + parts[1]] + parts[2:]))
        out.append(dict(c, parts=parts[:-1]))
        out.append(dict(c, parts=parts[1:]))
    for i, v in enumerate(parts):
        if v > 1:
            out.append(dict(c, parts=parts[:i] + [v // 2] + parts[i + 1:]))
            out.append(dict(c, parts=parts[:i] + [v - 1] + parts[i + 1:]))
    if c['kind'] == 'twin':
        pre = c['pre']
        for i in reversed(range(len(pre))):
            out.append(dict(c, pre=pre[:i] + pre[i + 1:]))
    g = c['geom']
    for j, v in ((2, 0), (3, 0), (4, 0)):
        if g[j] != v:
            gg = list(g)
            gg[j] = v
            out.append(dict(c, geom=gg))
    return out
