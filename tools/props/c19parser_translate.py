"""K1 source translator for the *parser side* of C19 (channel URIs).

Reads <repo>/src/channel_uri.rs and writes coq/Generated/GenUriParser.v :

  * `gen_parser : parser`   - `enum State`, the prologue of `ChannelUri::parse` (the two `strip_prefix` calls with their
                              constants and error, the `position` expression), the locals, the body of the
                              `for (index, c) in uri.chars().enumerate()` loop and the statements after it as a syntax tree
                              (types and meaning: coq/Model/UriParserSem.v), the local handed to `ChannelUri::new` as media;
  * `gen_display : dblock`  - the statements of `Display::fmt` between `let mut sb = String::..;` and `write!(f, "{}", &sb)`;
  * `gen_sid : sid_fn`      - the key `add_session_id` puts.

The translator transcribes syntax only: `String` locals are renamed to the index of their declaration, the fields of an error
literal are sorted by name, `a != b` becomes `!(a == b)`, `else if` becomes a nested block, a `match` arm without braces becomes
a block. It knows nothing about what the statements do - that is the Coq interpreter, and the proof obligation
(Proofs/UriParserGenProofs.v) is that the interpreter on these trees equals the hand-written model for every string.
Anything outside the statement forms it knows makes it *fail*: the file is then written with `stuck_parser` / `stuck_display`
(so that the models and the oracle keep compiling and a failing input can still be searched for), `gen_*_ok = false`, and K1 is
reported broken.
"""
import os

from vlib import core
from props.c19_translate import P, Unsupported, lex, unescape, cps, coq_comment_safe, strip_paren, norm_tokens


# ----------------------------------------------------------------------------------------------
# parser for the statement / expression subset of `parse` and `fmt`

class PP(P):
    """c19_translate.P plus: match, for, struct literals, closures, tuples, typed / tuple `let`, `else if`, `return e;`."""

    no_struct = 0

    def stmt(self):
        if self.at('for'):
            self.next()
            pat = self.pattern()
            self.eat('in')
            self.no_struct += 1
            it = self.expr()
            self.no_struct -= 1
            body = self.block()
            return ('for', pat, it, body)
        if self.at('match'):
            e = self.match_expr()
            if self.at(';'):
                self.next()
            return ('expr', e)
        if self.at('let'):
            self.next()
            mut = False
            if self.at('mut'):
                self.next()
                mut = True
            if self.peek() == ('p', '('):
                pat = self.pattern()
            else:
                pat = self.ident()
            ty = None
            if self.at(':'):
                self.next()
                ty = []
                depth = 0
                while not (self.at('=') and depth == 0):
                    k, v = self.next()
                    if k == 'eof':
                        raise Unsupported('unterminated let')
                    if v == '<':
                        depth += 1
                    if v == '>':
                        depth -= 1
                    ty.append(v)
                ty = ''.join(ty)
            self.eat('=')
            e = self.expr()
            self.eat(';')
            return ('let', pat, e, mut, ty)
        if self.at('return'):
            self.next()
            e = self.expr()
            self.eat(';')
            return ('return', e)
        return P.stmt(self)

    def pattern(self):
        """`(a, b)` -> ('tuple', [a, b])"""
        self.eat('(')
        names = []
        while not self.at(')'):
            names.append(self.ident())
            if self.at(','):
                self.next()
        self.eat(')')
        return ('tuple', names)

    def if_expr(self):
        self.eat('if')
        if self.at('let'):
            raise Unsupported('if let')
        self.no_struct += 1
        c = self.expr()
        self.no_struct -= 1
        then = self.block()
        els = None
        if self.at('else'):
            self.next()
            if self.at('if'):
                els = [('expr', self.if_expr())]
            else:
                els = self.block()
        return ('if', c, then, els)

    def match_expr(self):
        self.eat('match')
        self.no_struct += 1
        scrut = self.expr()
        self.no_struct -= 1
        self.eat('{')
        arms = []
        while not self.at('}'):
            pats = [self.match_pat()]
            while self.peek() == ('p', '|'):
                self.next()
                pats.append(self.match_pat())
            self.eat('=>')
            if self.peek() == ('p', '{'):
                saved = self.no_struct
                self.no_struct = 0
                body = self.block()
                self.no_struct = saved
                if self.at(','):
                    self.next()
            else:
                saved = self.no_struct
                self.no_struct = 0
                e = self.expr()
                self.no_struct = saved
                if self.at('='):     # `x = e,` as an arm
                    self.next()
                    r = self.expr()
                    body = [('assign', e, r)]
                else:
                    body = [('semi', e)]
                if not self.at('}'):
                    self.eat(',')
            arms.append((pats, body))
        self.eat('}')
        return ('match', scrut, arms)

    def match_pat(self):
        k, v = self.peek()
        if k == 'chr':
            self.next()
            return ('chr', unescape(v))
        if (k, v) == ('id', '_'):
            self.next()
            return ('wild',)
        if k == 'id':
            path = [self.ident()]
            while self.at('::'):
                self.next()
                path.append(self.ident())
            return ('path', tuple(path))
        raise Unsupported('match pattern %r' % (v,))

    def block(self):
        saved = self.no_struct
        self.no_struct = 0
        b = P.block(self)
        self.no_struct = saved
        return b

    def args(self):
        saved = self.no_struct
        self.no_struct = 0
        a = P.args(self)
        self.no_struct = saved
        return a

    def e_atom(self):
        k, v = self.peek()
        if (k, v) == ('id', 'match'):
            return self.match_expr()
        if (k, v) == ('p', '||'):                     # closure without parameters
            self.next()
            return ('closure', [], self.expr())
        if (k, v) == ('p', '|'):                      # closure |a, b| e
            self.next()
            names = []
            while not self.peek() == ('p', '|'):
                names.append(self.ident())
                if self.at(','):
                    self.next()
            self.next()
            return ('closure', names, self.expr())
        if (k, v) == ('p', '('):
            self.next()
            saved = self.no_struct
            self.no_struct = 0
            items = []
            trailing = False
            while not self.at(')'):
                items.append(self.expr())
                trailing = False
                if self.at(','):
                    self.next()
                    trailing = True
            self.eat(')')
            self.no_struct = saved
            if len(items) == 1 and not trailing:
                return ('paren', items[0])
            return ('tuple', items)
        if k == 'id' and v not in ('if',):
            path = [self.ident()]
            while self.at('::'):
                self.next()
                path.append(self.ident())
            if self.peek() == ('p', '!') and self.peek(1) == ('p', '('):
                self.next()
                return ('macro', tuple(path), self.args())
            if (self.peek() == ('p', '{') and not self.no_struct and len(path) >= 2 and path[-1][:1].isupper()):
                self.next()
                fields = []
                while not self.at('}'):
                    name = self.ident()
                    if self.at(':'):
                        self.next()
                        val = self.expr()
                    else:
                        val = ('path', (name,))
                    fields.append((name, val))
                    if self.at(','):
                        self.next()
                self.eat('}')
                return ('struct', tuple(path), fields)
            return ('path', tuple(path))
        return P.e_atom(self)


# ----------------------------------------------------------------------------------------------
# locating items

def find_item_fns(toks):
    """{(impl header text, fn name): body tokens incl. braces, parameter tokens} for every `impl .. { fn .. }` of the file."""
    fns = {}
    i, n = 0, len(toks)
    while i < n:
        if toks[i] == ('id', 'impl'):
            j = i + 1
            while toks[j] != ('p', '{'):
                j += 1
            header = ' '.join(t[1] for t in toks[i + 1:j])
            j += 1
            depth = 1
            while j < n and depth > 0:
                if toks[j] == ('id', 'fn') and depth == 1:
                    name = toks[j + 1][1]
                    k = j + 2
                    d = 0
                    p0 = k
                    while True:
                        if toks[k] == ('p', '('):
                            d += 1
                        elif toks[k] == ('p', ')'):
                            d -= 1
                            if d == 0:
                                break
                        k += 1
                    params = toks[p0 + 1:k]
                    k += 1
                    r0 = k
                    while toks[k] != ('p', '{'):
                        k += 1
                    ret = toks[r0:k]
                    b0 = k
                    d = 0
                    while True:
                        if toks[k] == ('p', '{'):
                            d += 1
                        elif toks[k] == ('p', '}'):
                            d -= 1
                            if d == 0:
                                break
                        k += 1
                    if (header, name) in fns:
                        raise Unsupported('duplicate fn %s in impl %s' % (name, header))
                    fns[(header, name)] = (toks[b0:k + 1], params, ret)
                    j = k + 1
                    continue
                if toks[j] == ('p', '{'):
                    depth += 1
                elif toks[j] == ('p', '}'):
                    depth -= 1
                j += 1
            i = j
        else:
            i += 1
    return fns


def find_enum(toks, name):
    for i in range(len(toks) - 3):
        if toks[i] == ('id', 'enum') and toks[i + 1] == ('id', name) and toks[i + 2] == ('p', '{'):
            j = i + 3
            out = []
            while toks[j] != ('p', '}'):
                if toks[j][0] != 'id':
                    raise Unsupported('enum %s: variant with data / attributes' % name)
                out.append(toks[j][1])
                j += 1
                if toks[j] == ('p', ','):
                    j += 1
                elif toks[j] != ('p', '}'):
                    raise Unsupported('enum %s: variant %s is not a unit variant' % (name, out[-1]))
            return out
    raise Unsupported('enum %s not found' % name)


# ----------------------------------------------------------------------------------------------
# translation of `parse`

def coqstr(s):
    return '"%s"' % s.replace('"', '""')


class ParseCx:
    def __init__(self, consts, states):
        self.consts = consts          # set of constant names
        self.states = states
        self.strs = []                # String locals in declaration order
        self.map = None
        self.state = None
        self.init_state = None
        self.c = None
        self.index = None
        self.position = None
        self.prefix = None
        self.orig = None
        self.arg = None

    def var(self, e):
        e = strip_paren(e)
        if e[0] == 'path' and len(e[1]) == 1 and e[1][0] in self.strs:
            return self.strs.index(e[1][0])
        raise Unsupported('expected a String local, found %r' % (e,))

    def const(self, e):
        e = strip_paren(e)
        if e[0] == 'ref':
            return self.const(e[1])
        if e[0] == 'path' and len(e[1]) == 1 and e[1][0] in self.consts:
            return e[1][0]
        if e[0] == 'str':
            return cps(e[1])
        raise Unsupported('expected a string constant, found %r' % (e,))

    def state_name(self, e):
        e = strip_paren(e)
        if e[0] == 'path' and len(e[1]) == 2 and e[1][0] == 'State' and e[1][1] in self.states:
            return e[1][1]
        raise Unsupported('expected State::<variant>, found %r' % (e,))

    def is_path(self, e, name):
        return name is not None and strip_paren(e) == ('path', (name,))


def sexp(e, cx):
    e = strip_paren(e)
    if e[0] == 'call' and e[1] == ('path', ('std', 'mem', 'take')) and len(e[2]) == 1:
        a = e[2][0]
        if a[0] == 'ref':
            return '(ETake %d)' % cx.var(a[1])
    if e[0] == 'method' and e[2] == 'clone' and not e[3]:
        return '(EClone %d)' % cx.var(e[1])
    if e[0] == 'path':
        return '(EMove %d)' % cx.var(e)
    raise Unsupported('string expression %r' % (e,))


def cexp(e, cx):
    e = strip_paren(e)
    k = e[0]
    if k == 'not':
        return '(CNotE %s)' % cexp(e[1], cx)
    if k == 'and':
        return '(CAndE %s %s)' % (cexp(e[1], cx), cexp(e[2], cx))
    if k == 'or':
        return '(COrE %s %s)' % (cexp(e[1], cx), cexp(e[2], cx))
    if k == 'cmp' and e[1] in ('==', '!='):
        a, b = strip_paren(e[2]), strip_paren(e[3])
        if b[0] != 'chr' and a[0] == 'chr':
            a, b = b, a
        if cx.is_path(a, cx.c) and b[0] == 'chr':
            r = '(CChar %d)' % ord(b[1])
        else:
            try:
                r = '(CEqConst %d %s)' % (cx.var(a), cx.const(b))
            except Unsupported:
                r = '(CEqConst %d %s)' % (cx.var(b), cx.const(a))
        return r if e[1] == '==' else '(CNotE %s)' % r
    if k == 'method' and e[2] == 'is_empty' and not e[3]:
        return '(CIsEmpty %d)' % cx.var(e[1])
    raise Unsupported('condition %r' % (e,))


def fexp(e, cx):
    e = strip_paren(e)
    if cx.is_path(e, cx.c):
        return 'FChar'
    if cx.is_path(e, cx.state):
        return 'FState'
    if e[0] in ('add',) and ((cx.is_path(e[1], cx.index) and cx.is_path(e[2], cx.position))
                             or (cx.is_path(e[2], cx.index) and cx.is_path(e[1], cx.position))):
        return 'FIndexPlusPos'
    if e[0] == 'method' and e[2] == 'to_string' and not e[3] and cx.is_path(e[1], cx.orig):
        return 'FOrigUri'
    if e[0] == 'path':
        return '(FVar %d)' % cx.var(e)
    raise Unsupported('value of an error field %r' % (e,))


def gerr(e, cx):
    """`Class::Variant { .. }` / `Class::Variant(..)` -> GErr"""
    e = strip_paren(e)
    if e[0] == 'struct':
        path, fields = e[1], [(n, fexp(v, cx)) for n, v in e[2]]
    elif e[0] == 'call' and e[1][0] == 'path':
        path, fields = e[1][1], [(str(i), fexp(v, cx)) for i, v in enumerate(e[2])]
    elif e[0] == 'path':
        path, fields = e[1], []
    else:
        raise Unsupported('error value %r' % (e,))
    if len(path) != 2:
        raise Unsupported('error value path %r' % (path,))
    names = [n for n, _ in fields]
    if len(set(names)) != len(names):
        raise Unsupported('error value: duplicate field')
    fields.sort()
    return '(GErr %s %s [%s])' % (coqstr(path[0]), coqstr(path[1]), '; '.join('(%s, %s)' % (coqstr(n), v) for n, v in fields))


def returned_err(e, cx):
    """`Err(X.into())` -> GErr"""
    e = strip_paren(e)
    if e[0] == 'call' and e[1] == ('path', ('Err',)) and len(e[2]) == 1:
        x = strip_paren(e[2][0])
        if x[0] == 'method' and x[2] == 'into' and not x[3]:
            return gerr(x[1], cx)
    raise Unsupported('returned value %r' % (e[:2],))


def block_term(stmts, cx, in_loop):
    out = 'BNil'
    for st in reversed([x for s in stmts for x in stmt_terms(s, cx, in_loop)]):
        out = '(BCons %s %s)' % (st, out)
    return out


def stmt_terms(st, cx, in_loop):
    k = st[0]
    if k == 'expr' and st[1][0] == 'if':
        _, c, then, els = st[1]
        return ['(SIf %s %s %s)' % (cexp(c, cx), block_term(then, cx, in_loop), block_term(els or [], cx, in_loop))]
    if k == 'expr' and st[1][0] == 'match':
        _, scrut, arms = st[1]
        if cx.is_path(scrut, cx.state):
            out = 'SANil'
            seen_wild = False
            rows = []
            for pats, body in arms:
                for p in pats:
                    if seen_wild:
                        raise Unsupported('match state: arm after `_`')
                    if p == ('wild',):
                        seen_wild = True
                        rows.append(('None', body))
                    else:
                        rows.append(('(Some %s)' % coqstr(cx.state_name(p)), body))
            for pat, body in reversed(rows):
                out = '(SACons %s %s %s)' % (pat, block_term(body, cx, in_loop), out)
            return ['(SMatchState %s)' % out]
        if cx.is_path(scrut, cx.c) and in_loop:
            out = 'CANil'
            rows = []
            seen_wild = False
            for pats, body in arms:
                if seen_wild:
                    raise Unsupported('match c: arm after `_`')
                if pats == [('wild',)]:
                    seen_wild = True
                    rows.append(('None', body))
                else:
                    if any(p[0] != 'chr' for p in pats):
                        raise Unsupported('match c: pattern %r' % (pats,))
                    rows.append(('(Some [%s])' % '; '.join(str(ord(p[1])) for p in pats), body))
            for pat, body in reversed(rows):
                out = '(CACons %s %s %s)' % (pat, block_term(body, cx, in_loop), out)
            return ['(SMatchChar %s)' % out]
        raise Unsupported('match on %r' % (scrut,))
    if k == 'assign':
        lhs = strip_paren(st[1])
        if cx.is_path(lhs, cx.state):
            return ['(SSetState %s)' % coqstr(cx.state_name(st[2]))]
        return ['(SAssign %d %s)' % (cx.var(lhs), sexp(st[2], cx))]
    if k in ('semi', 'tail'):
        e = strip_paren(st[1])
        if e[0] == 'method' and e[2] == 'push' and len(e[3]) == 1 and cx.is_path(e[3][0], cx.c) and in_loop:
            return ['(SPush %d)' % cx.var(e[1])]
        if e[0] == 'method' and e[2] == 'insert' and len(e[3]) == 2 and cx.is_path(e[1], cx.map):
            return ['(SInsert %s %s)' % (sexp(e[3][0], cx), sexp(e[3][1], cx))]
        if e[0] in ('if', 'match'):
            return stmt_terms(('expr', e), cx, in_loop)
        raise Unsupported('statement %r' % (e[:3],))
    if k == 'return':
        return ['(SReturnErr %s)' % returned_err(st[1], cx)]
    raise Unsupported('statement %r' % (st[:2],))


def pexp(e, cx):
    e = strip_paren(e)
    if e[0] == 'num':
        return '(PNum %d)' % e[1]
    if e[0] == 'add':
        return '(PAdd %s %s)' % (pexp(e[1], cx), pexp(e[2], cx))
    if e[0] == 'method' and e[2] == 'len' and not e[3]:
        return '(PLen %s)' % cx.const(e[1])
    if e[0] == 'if':
        _, c, then, els = e
        c = strip_paren(c)
        if (c[0] == 'method' and c[2] == 'is_empty' and not c[3] and cx.is_path(c[1], cx.prefix)
                and els is not None and len(then) == 1 and len(els) == 1 and then[0][0] == 'tail' and els[0][0] == 'tail'):
            return '(PIfPrefixEmpty %s %s)' % (pexp(then[0][1], cx), pexp(els[0][1], cx))
    raise Unsupported('position expression %r' % (e,))


def translate_parse(body_toks, params, consts, states):
    cx = ParseCx(consts, states)
    ptxt = ' '.join(t[1] for t in params)
    if len(params) != 4 or params[1:] != [('p', ':'), ('p', '&'), ('id', 'str')]:
        raise Unsupported('parse(): parameter list `%s`' % ptxt)
    cx.arg = params[0][1]
    stmts = PP(body_toks).block()
    it = iter(stmts)

    def nxt(what):
        try:
            return next(it)
        except StopIteration:
            raise Unsupported('parse(): ends before %s' % what)

    # let orig_uri = uri;
    st = nxt('the prologue')
    if not (st[0] == 'let' and isinstance(st[1], str) and st[2] == ('path', (cx.arg,)) and not st[3]):
        raise Unsupported('parse(): first statement is not `let orig_uri = uri;`')
    cx.orig = st[1]
    # let (uri, prefix) = orig_uri.strip_prefix(A).map(|uri| (uri, B)).unwrap_or((orig_uri, C));
    st = nxt('the prefix split')
    ok = False
    if st[0] == 'let' and st[1][0] == 'tuple' and len(st[1][1]) == 2:
        rest_name, cx.prefix = st[1][1]
        e = st[2]
        if e[0] == 'method' and e[2] == 'unwrap_or' and len(e[3]) == 1 and strip_paren(e[3][0])[0] == 'tuple':
            dflt = strip_paren(e[3][0])[1]
            m = e[1]
            if (m[0] == 'method' and m[2] == 'map' and len(m[3]) == 1 and m[3][0][0] == 'closure' and len(m[3][0][1]) == 1
                    and len(dflt) == 2 and cx.is_path(dflt[0], cx.orig)):
                clo = m[3][0]
                body = strip_paren(clo[2])
                sp = m[1]
                if (body[0] == 'tuple' and len(body[1]) == 2 and body[1][0] == ('path', (clo[1][0],))
                        and sp[0] == 'method' and sp[2] == 'strip_prefix' and len(sp[3]) == 1 and cx.is_path(sp[1], cx.orig)):
                    spy_prefix = cx.const(sp[3][0])
                    spy_qual = cx.const(body[1][1])
                    no_prefix = cx.const(dflt[1])
                    ok = True
    if not ok:
        raise Unsupported('parse(): the prefix split has an unexpected shape')
    # let uri = uri.strip_prefix(A).ok_or_else(|| E)?;
    st = nxt('the scheme check')
    ok = False
    if st[0] == 'let' and isinstance(st[1], str) and st[2][0] == 'try':
        body_name = st[1]
        e = st[2][1]
        if (e[0] == 'method' and e[2] == 'ok_or_else' and len(e[3]) == 1 and e[3][0][0] == 'closure' and not e[3][0][1]):
            sp = e[1]
            if sp[0] == 'method' and sp[2] == 'strip_prefix' and len(sp[3]) == 1 and cx.is_path(sp[1], rest_name):
                scheme_prefix = cx.const(sp[3][0])
                scheme_err = gerr(e[3][0][2], cx)
                ok = True
    if not ok:
        raise Unsupported('parse(): the scheme check has an unexpected shape')
    # let position = ..;
    st = nxt('position')
    if not (st[0] == 'let' and isinstance(st[1], str) and not st[3]):
        raise Unsupported('parse(): expected `let position = ..;`')
    cx.position = st[1]
    position = pexp(st[2], cx)
    # locals
    st = nxt('the loop')
    while st[0] == 'let':
        name, e, mut = st[1], strip_paren(st[2]), st[3]
        if not isinstance(name, str) or not mut:
            raise Unsupported('parse(): local %r' % (name,))
        if name in cx.strs or name in (cx.map, cx.state, cx.orig, cx.prefix, cx.position, body_name):
            raise Unsupported('parse(): local %s declared twice / shadows' % name)
        if e == ('call', ('path', ('String', 'new')), []):
            cx.strs.append(name)
        elif e == ('call', ('path', ('HashMap', 'new')), []) and cx.map is None:
            cx.map = name
        elif e[0] == 'path' and len(e[1]) == 2 and e[1][0] == 'State' and cx.state is None:
            cx.state = name
            cx.init_state = cx.state_name(e)
        else:
            raise Unsupported('parse(): initial value of %s' % name)
        st = nxt('the loop')
    if cx.map is None or cx.state is None:
        raise Unsupported('parse(): no HashMap / state local')
    # for (index, c) in uri.chars().enumerate() { .. }
    want_iter = ('method', ('method', ('path', (body_name,)), 'chars', []), 'enumerate', [])
    if not (st[0] == 'for' and len(st[1][1]) == 2 and st[2] == want_iter):
        raise Unsupported('parse(): expected `for (index, c) in %s.chars().enumerate()`' % body_name)
    cx.index, cx.c = st[1][1]
    body = block_term(st[3], cx, True)
    # statements up to the final Ok(..)
    rest = list(it)
    if not rest or rest[-1][0] != 'tail':
        raise Unsupported('parse(): does not end with an expression')
    cx.index = cx.c = None
    finish = block_term(rest[:-1], cx, False)
    e = rest[-1][1]
    media = None
    for ctor in (('Ok',), ('Arc', 'new'), ('Mutex', 'new'), ('ChannelUri', 'new')):
        if not (e[0] == 'call' and e[1] == ('path', ctor)):
            raise Unsupported('parse(): the result is not Ok(Arc::new(Mutex::new(ChannelUri::new(..))))')
        if ctor != ('ChannelUri', 'new'):
            if len(e[2]) != 1:
                raise Unsupported('parse(): result shape')
            e = e[2][0]
    a = e[2]
    if not (len(a) == 3 and a[0] == ('call', ('path', ('String', 'from')), [('path', (cx.prefix,))]) and cx.is_path(a[2], cx.map)):
        raise Unsupported('parse(): arguments of ChannelUri::new')
    media = cx.var(a[1])
    names = '%s; map %s; state %s; loop variables %s' % (
        ', '.join('%d = %s' % (i, n) for i, n in enumerate(cx.strs)), cx.map, cx.state, st[1][1])
    term = ('{| gp_states := [%s];\n'
            '     gp_spy_prefix := %s; gp_spy_qualifier := %s; gp_no_prefix := %s;\n'
            '     gp_scheme_prefix := %s;\n     gp_scheme_err := %s;\n'
            '     gp_position := %s;\n'
            '     gp_nstrings := %d; gp_init_state := %s;\n'
            '     gp_body :=\n       %s;\n'
            '     gp_finish :=\n       %s;\n'
            '     gp_result_media := %d |}') % (
        '; '.join(coqstr(s) for s in states), spy_prefix, spy_qual, no_prefix, scheme_prefix, scheme_err, position,
        len(cx.strs), coqstr(cx.init_state), body, finish, media)
    return term, names


# the accessors through which the harness observes a parsed uri (and which Model/Uri.v's uri_get / uri_put / .. model by hand):
# compared token by token, like the fixed parts of build() in c19_translate.py
EXPECT_ACCESSORS = {
    'prefix': '{ self . prefix . clone ( ) }',
    'media': '{ self . media . clone ( ) }',
    'get': '{ self . params . get ( key ) . map ( String :: as_str ) . unwrap_or_default ( ) }',
    'get_or_default': '{ self . params . get ( key ) . map ( String :: as_str ) . unwrap_or ( default_value ) }',
    'put': '{ self . params . insert ( String :: from ( key ) , value ) ; }',
    'remove': '{ self . params . remove ( key ) . unwrap_or_default ( ) }',
    'contains_key': '{ self . params . contains_key ( key ) }',
}

EXPECT_URI_NEW = '{ Self { prefix , media , params } }'
EXPECT_URI_NEW_PARAMS = 'prefix : String , media : String , params : HashMap < String , String >'


# ----------------------------------------------------------------------------------------------
# translation of Display::fmt

def split_format(fs, nargs):
    """format string with `{}` placeholders -> list of ('lit', s) / ('arg', i)"""
    out, i, cur, n = [], 0, '', 0
    while i < len(fs):
        ch = fs[i]
        if fs.startswith('{}', i):
            if cur:
                out.append(('lit', cur))
                cur = ''
            out.append(('arg', n))
            n += 1
            i += 2
        elif ch in '{}':
            raise Unsupported('format string %r' % fs)
        else:
            cur += ch
            i += 1
    if cur:
        out.append(('lit', cur))
    if n != nargs:
        raise Unsupported('format string %r with %d arguments' % (fs, nargs))
    return out


def self_field(e):
    e = strip_paren(e)
    if e[0] == 'ref':
        e = strip_paren(e[1])
    if e[0] == 'field' and e[1] == ('path', ('self',)):
        return e[2]
    return None


def dcond(e):
    e = strip_paren(e)
    if e[0] == 'not':
        return '(DNot %s)' % dcond(e[1])
    if e[0] == 'method' and self_field(e[1]):
        if e[2] == 'is_empty' and not e[3]:
            return '(DFieldEmpty %s)' % coqstr(self_field(e[1]))
        if e[2] == 'ends_with' and len(e[3]) == 1 and e[3][0][0] == 'chr':
            return '(DFieldEndsWith %s %d)' % (coqstr(self_field(e[1])), ord(e[3][0][1]))
    raise Unsupported('fmt(): condition %r' % (e,))


def dpiece(e, consts):
    e0 = strip_paren(e)
    f = self_field(e0)
    if f:
        return '(DField %s)' % coqstr(f)
    if e0[0] == 'ref':
        e0 = strip_paren(e0[1])
    if e0[0] == 'str':
        return '(DStr %s)' % cps(e0[1])
    if e0[0] == 'path' and len(e0[1]) == 1 and e0[1][0] in consts:
        return '(DStr %s)' % e0[1][0]
    raise Unsupported('fmt(): appended value %r' % (e,))


def dblock(stmts, consts, sb):
    out = []
    for st in stmts:
        if st[0] == 'addassign' and st[1] == ('path', (sb,)):
            out.append('(DAdd %s)' % dpiece(st[2], consts))
        elif st[0] == 'expr' and st[1][0] == 'if':
            _, c, then, els = st[1]
            if els is not None:
                raise Unsupported('fmt(): if .. else')
            out.append('(DIf %s %s)' % (dcond(c), dblock(then, consts, sb)))
        elif st[0] == 'for':
            pat, itx, body = st[1], st[2], st[3]
            f = self_field(itx)
            if not f or strip_paren(itx)[0] != 'ref' or len(pat[1]) != 2:
                raise Unsupported('fmt(): for loop header')
            pieces = []
            for b in body:
                if not (b[0] == 'addassign' and b[1] == ('path', (sb,))):
                    raise Unsupported('fmt(): statement in the for loop %r' % (b[:2],))
                v = strip_paren(b[2])
                if v[0] == 'ref':
                    v = strip_paren(v[1])
                if v[0] == 'macro' and v[1] == ('format',) and v[2] and v[2][0][0] == 'str':
                    args = v[2][1:]
                    for kind, x in split_format(v[2][0][1], len(args)):
                        if kind == 'lit':
                            pieces.append('FLit %s' % cps(x))
                        else:
                            a = strip_paren(args[x])
                            if a[0] != 'path' or len(a[1]) != 1 or a[1][0] not in pat[1]:
                                raise Unsupported('fmt(): format argument %r' % (a,))
                            pieces.append('FArg %d' % pat[1].index(a[1][0]))
                elif v[0] == 'str':
                    pieces.append('FLit %s' % cps(v[1]))
                elif v[0] == 'path' and len(v[1]) == 1 and v[1][0] in pat[1]:
                    pieces.append('FArg %d' % pat[1].index(v[1][0]))
                else:
                    raise Unsupported('fmt(): appended value in the for loop %r' % (v,))
            out.append('(DFor %s [%s])' % (coqstr(f), '; '.join(pieces)))
        elif st[0] == 'semi' and st[1] == ('method', ('path', (sb,)), 'pop', []):
            out.append('DPop')
        else:
            raise Unsupported('fmt(): statement %r' % (st[:2],))
    term = 'DNil'
    for x in reversed(out):
        term = '(DCons %s %s)' % (x, term)
    return term


def translate_fmt(body_toks, params, consts):
    ptxt = ' '.join(t[1] for t in params)
    if ptxt != "& self , f : & mut Formatter < ' _ >":
        raise Unsupported('fmt(): parameter list `%s`' % ptxt)
    # `let mut sb = String::with_capacity(<anything>);` : the capacity does not matter
    toks = list(body_toks)
    stmts = PP(toks).block()
    if not stmts or stmts[0][0] != 'let' or not stmts[0][3] or not isinstance(stmts[0][1], str):
        raise Unsupported('fmt(): first statement is not `let mut sb = String::..`')
    sb = stmts[0][1]
    init = stmts[0][2]
    if not (init[0] == 'call' and init[1] in (('path', ('String', 'with_capacity')), ('path', ('String', 'new')))):
        raise Unsupported('fmt(): `sb` is not initialised with String::new() / String::with_capacity(..)')
    last = stmts[-1]
    want = ('tail', ('macro', ('write',), [('path', ('f',)), ('str', '{}'), ('ref', ('path', (sb,)))]))
    want2 = ('tail', ('macro', ('write',), [('path', ('f',)), ('str', '{}'), ('path', (sb,))]))
    if last not in (want, want2):
        raise Unsupported('fmt(): does not end with write!(f, "{}", &sb)')
    return dblock(stmts[1:-1], consts, sb)


# ----------------------------------------------------------------------------------------------
# add_session_id

def translate_sid(body_toks, params, consts):
    ptxt = ' '.join(t[1] for t in params)
    if ptxt != 'channel : & str , session_id : i32':
        raise Unsupported('add_session_id(): parameter list `%s`' % ptxt)
    stmts = PP(body_toks).block()
    if len(stmts) != 4:
        raise Unsupported('add_session_id(): %d statements' % len(stmts))
    a, b, c, d = stmts
    if not (a[0] == 'let' and a[2] == ('try', ('call', ('path', ('Self', 'parse')), [('path', ('channel',))]))):
        raise Unsupported('add_session_id(): first statement')
    u = a[1]
    if not (b[0] == 'let' and b[3] and b[2] == ('method', ('method', ('path', (u,)), 'lock', []), 'unwrap', [])):
        raise Unsupported('add_session_id(): second statement')
    g = b[1]
    key = None
    if c[0] == 'semi' and c[1][0] == 'method' and c[1][1] == ('path', (g,)) and c[1][2] == 'put' and len(c[1][3]) == 2:
        k, v = c[1][3]
        if v == ('method', ('path', ('session_id',)), 'to_string', []) and k[0] == 'path' and len(k[1]) == 1 and k[1][0] in consts:
            key = k[1][0]
    if key is None:
        raise Unsupported('add_session_id(): the put')
    if d != ('tail', ('call', ('path', ('Ok',)), [('method', ('path', (g,)), 'to_string', [])])):
        raise Unsupported('add_session_id(): result')
    return key


# ----------------------------------------------------------------------------------------------

def translate(repo):
    src = open(os.path.join(repo, 'src', 'channel_uri.rs')).read()
    toks = lex(src.split('#[cfg(test)]')[0])
    consts = set()
    for i in range(len(toks) - 8):
        if (toks[i] == ('id', 'pub') and toks[i + 1] == ('id', 'const') and toks[i + 2][0] == 'id' and toks[i + 3] == ('p', ':')
                and toks[i + 4] == ('p', '&') and toks[i + 5] == ('id', 'str') and toks[i + 6] == ('p', '=') and toks[i + 7][0] == 'str'):
            consts.add(toks[i + 2][1])
    errors = []
    parser_term, names, display_term, sid_key = None, '', None, None
    try:
        fns = find_item_fns(toks)
    except (Unsupported, IndexError) as e:
        fns = {}
        errors.append('items: %s' % e)
    try:
        states = find_enum(toks, 'State')
        key = ('ChannelUri', 'parse')
        if key not in fns:
            raise Unsupported('fn parse not found in impl ChannelUri')
        nk = ('ChannelUri', 'new')
        if nk not in fns or norm_tokens(fns[nk][0]) != EXPECT_URI_NEW or norm_tokens(fns[nk][1]) != EXPECT_URI_NEW_PARAMS:
            raise Unsupported('ChannelUri::new is not `Self { prefix, media, params }`')
        parser_term, names = translate_parse(fns[key][0], fns[key][1], consts, states)
    except (Unsupported, IndexError, KeyError, TypeError) as e:
        errors.append('parse: %s' % e)
    try:
        key = ('Display for ChannelUri', 'fmt')
        if key not in fns:
            raise Unsupported('impl Display for ChannelUri not found')
        display_term = translate_fmt(fns[key][0], fns[key][1], consts)
    except (Unsupported, IndexError, KeyError, TypeError) as e:
        errors.append('fmt: %s' % e)
    try:
        key = ('ChannelUri', 'add_session_id')
        if key not in fns:
            raise Unsupported('fn add_session_id not found')
        sid_key = translate_sid(fns[key][0], fns[key][1], consts)
    except (Unsupported, IndexError, KeyError, TypeError) as e:
        errors.append('add_session_id: %s' % e)
    acc_ok = True
    for name, want in sorted(EXPECT_ACCESSORS.items()):
        got = fns.get(('ChannelUri', name))
        if got is None or norm_tokens(got[0]) != want:
            acc_ok = False
            errors.append('accessor %s changed: %s' % (name, norm_tokens(got[0]) if got else 'not found'))
    out = ['(* GENERATED on every run by tools/props/c19parser_translate.py from src/channel_uri.rs of the repository',
           '   under check (ChannelUri::parse, Display::fmt, add_session_id). Do not edit. *)']
    if errors:
        out.append('(* INCOMPLETE - the translator did not understand: %s.' % coq_comment_safe('; '.join(errors)))
        out.append('   The item concerned is replaced by its `stuck` placeholder; K1 is reported broken. *)')
    out += ['From Coq Require Import ZArith List String.',
            'Require Import V.Model.UriTypes.', 'Require Import V.Generated.GenUriTables.', 'Require Import V.Model.UriParserSem.',
            'Import ListNotations.', 'Open Scope Z_scope.', 'Local Open Scope string_scope.', '']
    if parser_term:
        out.append('(* String locals: %s *)' % coq_comment_safe(names))
        out.append('Definition gen_parser : parser :=\n  %s.' % parser_term)
        out.append('Definition gen_parser_ok : bool := true.')
    else:
        out.append('Definition gen_parser : parser := stuck_parser.')
        out.append('Definition gen_parser_ok : bool := false.')
    out.append('')
    if display_term:
        out.append('Definition gen_display : dblock :=\n  %s.' % display_term)
        out.append('Definition gen_display_ok : bool := true.')
    else:
        out.append('Definition gen_display : dblock := stuck_display.')
        out.append('Definition gen_display_ok : bool := false.')
    out.append('')
    if sid_key:
        out.append('Definition gen_sid : sid_fn := {| sid_key := %s; sid_ok := true |}.' % sid_key)
    else:
        out.append('Definition gen_sid : sid_fn := {| sid_key := []; sid_ok := false |}.')
    out.append('')
    out.append('(* prefix() media() get() get_or_default() put() remove() contains_key() have the expected one-line bodies *)')
    out.append('Definition gen_accessors_ok : bool := %s.' % ('true' if acc_ok else 'false'))
    return '\n'.join(out) + '\n', errors


def generate():
    try:
        text, errors = translate(core.REPO)
    except Unsupported as e:
        return False, 'c19parser_translate: unsupported source shape: %s' % e
    except (OSError, AssertionError, IndexError, KeyError) as e:
        return False, 'c19parser_translate: %s: %s' % (type(e).__name__, e)
    core.write_if_changed(os.path.join(core.COQ, 'Generated', 'GenUriParser.v'), text)
    if errors:
        return False, 'c19parser_translate: unsupported source shape: %s' % '; '.join(errors)
    return True, 'uri parser: parse(), fmt() and add_session_id() translated, 7 accessors as expected'


if __name__ == '__main__':
    import sys
    t, errs = translate(sys.argv[1] if len(sys.argv) > 1 else '/repo')
    sys.stdout.write(t)
    sys.stderr.write('errors: %s\n' % errs)


TABLES = [generate]
