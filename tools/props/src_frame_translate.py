"""K1 generator of coq/Generated for the area 'frame' of the general source translator (tools/props/src_translate.py)."""
from props import src_translate


def generate():
    return src_translate.generate_area('frame')


TABLES = [generate]
