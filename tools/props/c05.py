"""C05 - Image polling accounts for exactly the frames it delivers, in every poll variant."""
from vlib.term import z, to_coq

ID = 'C05'
PROP_FILE = 'Props/C05.v'
EXTRA_PROP_FILES = ['Props/C05Src.v']     # K1 source tie (tools/props/src_translate.py), see docs/reports/SRC.md
EVAL_FILES = ['Oracle/C05Oracle.v']
CRATES = ['c05']
MODES = ['debug', 'release']
IMPORTS = ('Require Import V.Base.MachineInt V.Model.LogBase V.Model.Reader V.Model.Image '
           'V.Oracle.C05Cases V.Oracle.C05Oracle.')
RULE = ('histories of 3-9 calls on one image obtained through ClientConductor::on_available_image over a real log file; '
        'term contents generated as frame lists (unfragmented data with payload 0/1/31/32/33/.../1376 bytes, BEGIN/MIDDLE/END runs, '
        'padding frames, optional claimed (negative length) or zero tail, term end reached exactly / by a padding frame, a second '
        'term after it), written straight into the log memory and made visible in steps between calls (grow); start offsets 0 / '
        'aligned random / end of term; term counts {0,1,2,3,32767,32768,65535,65536,2^31-2,random} x initial term ids '
        '{0,1,-1,MIN,MAX,random}; all six flavours + set_position/close/position, fragment limits {0,1,2,3,MAX,-1}, position '
        'bounds before / inside a frame / on a boundary / beyond the term / more than 2^32 below the position / negative / i64::MIN / i64::MAX, block limits '
        '{0,31,32,frame sizes,term length,2^30,MAX}, random handler scripts of Abort/Break/Commit/Continue; a malformed stream '
        '(wrong term id, odd types/flags, short frames, unaligned padding); debug and release builds. '
        'non-trivial = a history with at least one call that may deliver and at least two frames; distinct = distinct case descriptions')
ASSUMPTIONS = [
    'term lengths are powers of two 2^16..2^30 (LogBuffers::from_existing enforces it); the harness uses 2^16..2^20',
    'positions are non-negative and below 2^31 terms; position bounds passed by the caller are non-negative i64',
    'the starting position of every call is on a frame boundary (set_position can break this; such histories are only compared with the model)',
    'block_poll: every i32 block length limit is judged (the model is the code repaired by fixes/C05-block-poll-limit.diff: the sum term_offset + limit saturates)',
    'one polling thread per image; the log grows only by committing frames at the tail (C03 covers torn reads)',
]
TRUSTED = [
    'the verification hook of /repo (src/verif_hook.rs) is used only to record the values written to the subscriber position counter',
]
PER_CASE_TIMEOUT = 5.0

MAXI = 2**31 - 1
MINI = -2**31
MAX64 = 2**63 - 1
ACT = {1: 'Abort', 2: 'Break', 3: 'Commit', 4: 'Continue'}


def mode_c(mode):
    return 'Debug' if mode == 'debug' else 'Release'


def al(v):
    return (v + 31) & ~31


# ---------------------------------------------------------------------------------------------
# generation

def gen_frames(rng, budget, malformed):
    """frame specs [typ, flags, flen, k, dtid] whose aligned lengths sum to at most `budget`."""
    out = []
    used = 0
    k = rng.randrange(1, 1000)
    n = rng.choice([1, 2, 3, 4, 6, 9, 14])
    while len(out) < n:
        r = rng.random()
        group = []
        if r < 0.55:
            pl = rng.choice([0, 1, 31, 32, 33, 63, 64, 100, 200, rng.randrange(0, 300), rng.randrange(0, 300), 1376])
            group.append([1, 192, 32 + pl, k, 0])
        elif r < 0.75:
            mp = rng.choice([64, 96, 160])
            mids = rng.choice([0, 0, 1, 2])
            group.append([1, 128, 32 + mp, k, 0])
            for j in range(mids):
                group.append([1, 0, 32 + mp, k + 1 + j, 0])
            group.append([1, 64, 32 + rng.choice([1, mp // 2, mp]), k + 1 + mids, 0])
        elif r < 0.87:
            group.append([0, rng.choice([0, 192]), 32 * rng.choice([1, 1, 2, 3, 8]), 0, 0])
        elif malformed:
            kind = rng.randrange(5)
            if kind == 0:
                group.append([1, 192, 32 + rng.randrange(0, 100), k, rng.choice([1, -1, 3])])
            elif kind == 1:
                group.append([rng.choice([2, 5, 65535]), rng.randrange(0, 256), 32 + rng.randrange(0, 100), k, 0])
            elif kind == 2:
                group.append([1, rng.randrange(0, 256), rng.randrange(1, 32), k, 0])
            elif kind == 3:
                group.append([0, rng.randrange(0, 256), rng.choice([1, 8, 33, 40, 100]), 0, 0])
            else:
                group.append([1, rng.choice([0, 64, 128, 1, 255]), 32 + rng.randrange(0, 64), k, 0])
        else:
            group.append([1, 192, 32 + rng.randrange(0, 120), k, 0])
        need = sum(al(g[2]) for g in group)
        if used + need > budget:
            break
        out += group
        used += need
        k += len(group) + 1
    return out, used


def boundaries(seg, tl):
    n, off, vis, claim, frames = seg
    pos = n * tl + off
    out = [pos]
    for f in frames:
        pos += al(f[2])
        out.append(pos)
    return out


def gen_script(rng):
    n = rng.choice([0, 1, 2, 3, 5])
    w = rng.choice([[4, 4, 3, 3, 1, 2], [3], [4], [1, 3, 4], [2, 3, 4], [3, 3, 1]])
    return [rng.choice(w) for _ in range(n)]


def gen_case(rng, malformed=False, big_gap=False):
    bits = rng.choice([16, 16, 16, 16, 17, 20])
    tl = 1 << bits
    init = rng.choice([0, 1, -1, MAXI, MINI, 7, rng.randrange(MINI, MAXI + 1)])
    n = rng.choice([0, 0, 1, 2, 3, 32767, 32768, 65535, 65536, 2**31 - 2, rng.randrange(0, 2**31 - 1)])
    if big_gap:
        n = rng.choice([65536, 70000, 2**20, 2**31 - 2]) if bits == 16 else rng.choice([2**16 >> (bits - 16), 2**24, 2**31 - 2])
    session = rng.choice([1, -7, 77, MAXI, rng.randrange(MINI, MAXI + 1)])
    tailkind = rng.choice(['zero', 'zero', 'claimed', 'end', 'endpad', 'endpad2'])
    budget = rng.choice([4096, 4096, 1024, 20000])
    frames, used = gen_frames(rng, budget, malformed)
    segs = []
    if tailkind in ('end', 'endpad', 'endpad2'):
        if tailkind != 'end':
            padlen = 32 * rng.choice([1, 2, 5, 40])
            frames.append([0, 0, padlen, 0, 0])
            used += padlen
        off = tl - used
        segs.append([n, off, 0, 0, frames])
        if n < 2**31 - 2:
            f2, _ = gen_frames(rng, 2048, malformed)
            segs.append([n + 1, 0, 0, rng.choice([0, 0, 1]), f2])
    else:
        off = rng.choice([0, 0, 32, 64, 32 * rng.randrange(0, (tl - used) // 32 + 1)])
        off = min(off, tl - used)
        segs.append([n, off, 0, 1 if tailkind == 'claimed' else 0, frames])
    for s in segs:
        s[2] = rng.choice([0, len(s[4]), len(s[4]), rng.randrange(0, len(s[4]) + 1)])
    if len(segs) == 2 and rng.random() < 0.6:
        segs[0][2] = len(segs[0][4])
    pos0 = n * tl + segs[0][1]
    if rng.random() < 0.15 and frames:
        # start on a later frame boundary of the first segment
        bs = boundaries(segs[0], tl)
        pos0 = rng.choice(bs)
    # ops
    bnds = []
    for s in segs:
        bnds += boundaries(s, tl)
    term_end = (n + 1) * tl

    def bound_arg():
        r = rng.random()
        if r < 0.25:
            b = rng.choice(bnds)
            return [0, max(0, b + rng.choice([0, 0, 1, -1, 16, 32, -32]))]
        if r < 0.45:
            return [1, rng.choice([0, 1, 31, 32, 33, 64, 96, 100, 128, 500, 4096, -1, -32, -64, tl, 2 * tl])]
        if r < 0.55:
            return [0, rng.choice([0, 1, term_end, term_end + 32, term_end - 32, MAX64, MAX64 - 1, -1, -2**32, -2**63, -2**63 + 1])]
        if r < 0.65:
            return [0, max(0, pos0 + rng.choice([0, 32, 64, 96, 128, 160, 256, 1000]))]
        if r < 0.80 or not big_gap:
            return [1, 32 * rng.randrange(-4, 40) + rng.choice([0, 0, 5])]
        return [1, -2**32 + rng.choice([0, 32, 64, 96, 200, 4096, tl])]

    ops = []
    nops = rng.randrange(3, 10)
    for _ in range(nops):
        r = rng.random()
        limit = rng.choice([0, 1, 1, 2, 2, 3, 10, MAXI, MAXI, -1])
        if r < 0.16:
            ops.append(['poll', limit])
        elif r < 0.30:
            ops.append(['bpoll', bound_arg(), limit])
        elif r < 0.46:
            ops.append(['cpoll', limit, gen_script(rng)])
        elif r < 0.60:
            ops.append(['bcpoll', bound_arg(), limit, gen_script(rng)])
        elif r < 0.72:
            ip = rng.choice([[1, 0], [1, 0], [1, 0], [1, 0], [1, -32], [1, 5], [0, rng.choice(bnds)], [0, rng.choice(bnds)], [0, term_end], [0, term_end + 2 * tl + 32]])
            ops.append(['peek', ip, bound_arg(), gen_script(rng)])
        elif r < 0.82:
            bl = rng.choice([0, 31, 32, 33, 64, 96, 128, 160, 1000, 4096, tl, 2**30, -1, -32] + [al(f[2]) for f in frames[:3]])
            if rng.random() < 0.08:
                bl = rng.choice([MAXI, MAXI - 31, 2**31 - tl, 2**30 + 2**29])
            ops.append(['block', bl])
        elif r < 0.90:
            si = rng.randrange(len(segs))
            ops.append(['grow', si, rng.choice([1, 1, 2, 3, 100])])
        elif r < 0.93:
            ops.append(['position'])
        elif r < 0.96:
            if malformed or rng.random() < 0.5:
                ops.append(['setpos', rng.choice([[1, 0], [1, -32], [1, 7], [0, rng.choice(bnds)], [0, term_end], [0, term_end + 2 * tl + 32]])])
            else:
                ops.append(['setpos', [0, rng.choice(bnds)]])
        elif r < 0.98:
            ops.append(['close'])
        else:
            ops.append(['grow', 0, 100])
    return {'kind': 'malformed' if malformed else ('gap' if big_gap else 'img'), 'bits': bits, 'init': init, 'session': session,
            'pos0': pos0, 'segs': segs, 'ops': ops}


def boundary_cases():
    """hand-made first cases: the smallest interesting shapes"""
    out = []
    fr = [[1, 192, 100, 1, 0], [0, 0, 64, 0, 0], [1, 192, 40, 2, 0], [1, 128, 96, 3, 0], [1, 64, 33, 4, 0]]
    for limit in (0, 1, 2, MAXI):
        out.append({'kind': 'img', 'bits': 16, 'init': 5, 'session': 77, 'pos0': 0, 'segs': [[0, 0, 5, 0, fr]],
                    'ops': [['poll', limit], ['bpoll', [0, 128], limit], ['cpoll', limit, [3, 1]], ['bcpoll', [1, 40], limit, [2]],
                            ['peek', [1, 0], [0, MAX64], []], ['block', 4096], ['position']]})
    # bound more than 2^32 below the position
    out.append({'kind': 'gap', 'bits': 16, 'init': 0, 'session': 1, 'pos0': 65536 * 65536,
                'segs': [[65536, 0, 2, 0, [[1, 192, 64, 1, 0], [1, 192, 64, 2, 0]]]],
                'ops': [['bpoll', [0, 64], 10], ['bcpoll', [0, 64], 10, []], ['position']]})
    return out


def generate(rng, tier):
    big = tier == 'thorough'
    n = 60000 if big else 2000
    cases = boundary_cases()
    for i in range(n):
        r = i % 10
        cases.append(gen_case(rng, malformed=(r == 7), big_gap=(r == 8)))
    return cases


# ---------------------------------------------------------------------------------------------
# encoding

def _parg(a):
    return '%d %d' % (a[0], a[1])


def impl_line(c):
    p = ['img', c['bits'], c['init'], c['session'], c['pos0'], len(c['segs'])]
    for n, off, vis, claim, frames in c['segs']:
        p += [n, off, vis, claim, len(frames)]
        for f in frames:
            p += f
    p.append(len(c['ops']))
    for o in c['ops']:
        k = o[0]
        if k == 'poll':
            p += [1, o[1]]
        elif k == 'bpoll':
            p += [2, _parg(o[1]), o[2]]
        elif k == 'cpoll':
            p += [3, o[1], len(o[2])] + o[2]
        elif k == 'bcpoll':
            p += [4, _parg(o[1]), o[2], len(o[3])] + o[3]
        elif k == 'peek':
            p += [5, _parg(o[1]), _parg(o[2]), len(o[3])] + o[3]
        elif k == 'block':
            p += [6, o[1]]
        elif k == 'setpos':
            p += [7, _parg(o[1])]
        elif k == 'close':
            p += [8]
        elif k == 'grow':
            p += [9, o[1], o[2]]
        elif k == 'position':
            p += [10]
        else:
            raise ValueError(o)
    return ' '.join(str(x) for x in p)


def c_parg(a):
    return '(%s, %s)' % ('true' if a[0] else 'false', z(a[1]))


def c_script(sc):
    return '[' + '; '.join(ACT[a] for a in sc) + ']'


def c_op(o):
    k = o[0]
    if k == 'poll':
        return 'CPoll %s' % z(o[1])
    if k == 'bpoll':
        return 'CBounded %s %s' % (c_parg(o[1]), z(o[2]))
    if k == 'cpoll':
        return 'CControlled %s %s' % (z(o[1]), c_script(o[2]))
    if k == 'bcpoll':
        return 'CBControlled %s %s %s' % (c_parg(o[1]), z(o[2]), c_script(o[3]))
    if k == 'peek':
        return 'CPeek %s %s %s' % (c_parg(o[1]), c_parg(o[2]), c_script(o[3]))
    if k == 'block':
        return 'CBlock %s' % z(o[1])
    if k == 'setpos':
        return 'CSetPos %s' % c_parg(o[1])
    if k == 'close':
        return 'CClose'
    if k == 'grow':
        return 'CGrow %s %s' % (z(o[1]), z(o[2]))
    if k == 'position':
        return 'CPosition'
    raise ValueError(o)


def c_segs(c):
    out = []
    for n, off, vis, claim, frames in c['segs']:
        fs = '[' + '; '.join('(%s, %s, %s, %s, %s)' % tuple(z(x) for x in f) for f in frames) + ']'
        out.append('(%s, %s, %s, %s, %s)' % (z(n), z(off), z(vis), 'true' if claim else 'false', fs))
    return '[' + '; '.join(out) + ']'


def c_ops(c):
    return '[' + '; '.join(c_op(o) for o in c['ops']) + ']'


def model_expr(c, mode):
    return 'run_case %s %s %s %s %s %s %s' % (mode_c(mode), z(c['bits']), z(c['init']), z(c['session']), z(c['pos0']),
                                               c_segs(c), c_ops(c))


def oracle_expr(c, mode, obs):
    if isinstance(obs, int) or obs[0] != 'list':
        return 'false'     # the whole case crashed, hung or could not be parsed: nothing satisfies the property
    return 'holds_case %s %s %s %s %s %s %s' % (z(c['bits']), z(c['init']), z(c['session']), z(c['pos0']),
                                                 c_segs(c), c_ops(c), to_coq(obs))


def nontrivial(c):
    nframes = sum(len(s[4]) for s in c['segs'])
    return nframes >= 2 and any(o[0] in ('poll', 'bpoll', 'cpoll', 'bcpoll', 'peek', 'block') for o in c['ops'])


def shrink(c):
    out = []
    ops = c['ops']
    for i in range(len(ops)):
        d = dict(c)
        d['ops'] = ops[:i] + ops[i + 1:]
        if d['ops']:
            out.append(d)
    for si, s in enumerate(c['segs']):
        frames = s[4]
        for i in range(len(frames)):
            if s[1] == 0 or si > 0 or True:
                d = dict(c)
                ns = [list(x) for x in c['segs']]
                nf = frames[:i] + frames[i + 1:]
                ns[si] = [s[0], s[1], min(s[2], len(nf)), s[3], nf]
                d['segs'] = ns
                if c['pos0'] == s[0] * (1 << c['bits']) + s[1] or si > 0:
                    out.append(d)
    if len(c['segs']) == 2:
        d = dict(c)
        d['segs'] = c['segs'][:1]
        d['ops'] = [o for o in ops if not (o[0] == 'grow' and o[1] == 1)]
        if d['ops']:
            out.append(d)
    return out
