"""Per-property MANIFEST entries (level, note, technique). tools/manifest/build.py assembles MANIFEST.json from this."""

E = {}

E['C17'] = dict(
    text="Theorems in coq/Props/C17.v (closed under the global context) prove, for every i32 initial term id, every elapsed term count below 2^31, every shift 0..31 and every offset, that the modelled position / partition / header-position / rotation arithmetic equals the specification; the model is tied to the code by constants regenerated from the compiled crate and by a differential run of the real functions (debug and release) on a boundary-centred grid, and the theorem's predicate is evaluated on the implementation's results.",
    note="Trusted: Coq kernel, vm_compute for case evaluation, the hand-written model of 9 small functions (validated differentially, not verified against the Rust text), the harness. rotate_log is modelled without concurrent interference (see C02).",
    technique="machine-checked proof in Coq (modular arithmetic lemmas over Z) + model/code correspondence check")

E['C16'] = dict(
    text="Theorems in coq/Props/C16.v (closed under the global context): the guard expression of AtomicBuffer::bounds_check, regenerated from the Rust source on every run, accepts only ranges inside [0, capacity) for all i32 offsets/lengths in debug and release; for every accessor of AtomicBuffer and Flyweight, on the root buffer or any chain of views, from any state, every byte range read, written or handed out lies inside the wrapped region, a panicking call changes nothing and no byte outside the buffer is ever modified. The model is tied to the code by the regenerated guard, a textual table of the checks each accessor makes, and a guard-zone differential run of every accessor x element type (debug and release) whose observations are judged by the theorem's decidable predicate.",
    note="Trusted: Coq kernel, vm_compute for case evaluation, the syntactic translator of the guard, the hand transcription of which checks each accessor makes (pinned textually and differentially), the harness; that the unsafe pointer operations touch exactly the modelled range is validated by guard zones, not proved. Hypotheses: region capacity in [0, 2^31).",
    technique="machine-checked proof in Coq over a guard regenerated from source (K1) + monadic accessor model with access log + guard-zone differential harness (K2)")

E['C19'] = dict(
    text="Machine-checked (Coq, no axioms): parser totality, grammar completeness, well-formedness of accepted URIs, parse-print-parse identity for every HashMap order, add_session_id changes only session-id; builder correctness for all setter sequences under the decidable table condition tables_ok, which is re-established by computation on the tables the K1 translator reads off the Rust source on every run. Parser/Display model tied to the code by the differential harness.",
    note="proof (builder tables by K1, parser by K2). The hand-written parser/Display model is validated differentially, not verified against the Rust text; HashMap is modelled as an association list with distinct keys in arbitrary order.",
    technique="Coq proof over an executable Gallina model + source-translated tables (reflection) + differential harness + oracle evaluation")

E['C14'] = dict(
    text="proof: the type-code table is a bijection onto the Aeron protocol codes (vm_compute over the complete table regenerated from the compiled crate); for all events, decode(adapter) after encode(protocol layout) = the protocol's callback with identical fields, strings of any length up to the 4096-byte record limit, debug and release",
    note="tables and struct offsets by K1 (regenerated each run); getter/argument wiring by K2 through a real ClientConductor; exclusive-publication limit/status ids and log-file name bytes only indirectly observable",
    technique="Coq executable model + field-layout lemmas; finite table by reflection; differential harness over BroadcastTransmitter -> CopyBroadcastReceiver -> DriverListenerAdapter -> ClientConductor")

E['C13'] = dict(
    text="proof: for every DriverProxy method and all argument values, the record written is the Aeron protocol's record (type code, layout, length) and the independent protocol decoder returns the caller's arguments; requests larger than the 512-byte command buffer are rejected with an error, nothing written (repaired code)",
    note="struct offsets / type codes by K1; setter wiring and the 512 limit by K2 on raw ring bytes; single call on a fresh ring",
    technique="Coq executable model of the flyweight stores (read-over-write via field-list layout lemmas) + independent literal-offset decoder; differential harness on ManyToOneRingBuffer")
