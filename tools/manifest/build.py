#!/usr/bin/env python3
"""Assemble /verif/MANIFEST.json from tools/manifest/entries.py (claimed properties) and not_applicable reasons."""
import json, os, sys
sys.path.insert(0, os.path.dirname(os.path.abspath(__file__)))
from entries import E
root = os.path.dirname(os.path.dirname(os.path.dirname(os.path.abspath(__file__))))
old = json.load(open(os.path.join(root, 'MANIFEST.json')))
NA_REASON = getattr(__import__('entries'), 'NA', {})
checks = []
for pid in sorted(E):
    e = E[pid]
    checks.append({
        'property_id': pid, 'quick_cmd': './check %s --tier quick' % pid, 'thorough_cmd': './check %s --tier thorough' % pid,
        'evidence_file': 'evidence/%s.json' % pid, 'replay_cmd_template': './check %s --replay {path}' % pid, 'engine': 'rocq-proof',
        'level_claimed': {'category': 'proof', 'text': e['text'], 'design_ref': 'DESIGN.md section 7, %s; docs/reports/%s.md' % (pid, pid)},
        'level_note': e['note'], 'technique': e['technique']})
na = []
for i in range(1, 21):
    pid = 'C%02d' % i
    if pid not in E:
        na.append({'property_id': pid, 'reason': NA_REASON.get(pid, 'check not merged yet in this commit (being built; see DESIGN.md section 10)')})
m = {
    'version': 1, 'setup_cmd': './check --setup', 'hooks': old['hooks'],
    'engines': [{'name': 'rocq-proof', 'path': 'coq/', 'serves_properties': sorted(E),
                 'kind_free_text': 'Coq 8.16.1 development: executable Gallina models, theorems per property, oracle predicates; tied to /repo by regenerated tables (K1) and a differential Rust harness (K2)'}],
    'checks': checks,
    'notes': 'See DESIGN.md. Exit codes: 0 pass, 1 VIOLATION, 2 machinery error.',
    'not_applicable': na}
json.dump(m, open(os.path.join(root, 'MANIFEST.json'), 'w'), indent=1)
print('claimed:', sorted(E), 'unclaimed:', [x['property_id'] for x in na])
