//! conc <cap> <p0> <hc0> <c0> pre=<ops> cons=<limits> prod=<writes> [prod=...] sched=<tid*count> stops=<k|-> post=<ops>
//!   (lists are comma separated; writes are w:<typ>:<len>:<k>)
//! The prelude `pre` runs on the calling thread; then thread 0 (consumer: one read per limit) and
//! threads 1.. (producers: their writes in order) run under vcommon::sched with the given schedule
//! and crash points; then the epilogue `post` runs on the calling thread.
//! Observation: (pre outputs, trace, per-thread results, post outputs), where a trace entry is
//! (tid, accessor, offset, len, val, val2, before); `before` and the operands of bulk accesses
//! (CopyFrom, SetMemory, RegionRead) are printed as 0 / -1 (private addresses, merged bodies).
use crate::{fmt_msgs, fmt_write, run_ops, Ring};
use aeron_rs::concurrent::atomic_buffer::{AlignedBuffer, AtomicBuffer};
use aeron_rs::verif_hook::AccessKind;
use vcommon::payload;
use vcommon::sched::{self, Event, Region};

fn fmt_ev(e: &Event) -> String {
    let (val, val2, before) = match e.kind {
        AccessKind::CopyFrom => (-1, -1, 0),
        AccessKind::SetMemory | AccessKind::RegionRead => (e.val, e.val2, 0),
        _ => (e.val, e.val2, e.before),
    };
    format!("({}, {:?}, {}, {}, {}, {}, {})", e.tid, e.kind, e.offset, e.len, val, val2, before)
}

fn field<'a>(parts: &[&'a str], key: &str) -> Vec<Vec<&'a str>> {
    let mut out = Vec::new();
    for p in parts {
        if let Some(rest) = p.strip_prefix(key) {
            if let Some(rest) = rest.strip_prefix('=') {
                out.push(rest.split(',').filter(|x| !x.is_empty()).collect());
            }
        }
    }
    out
}

pub fn case_conc(parts: &[&str]) -> String {
    case_threads(parts, false)
}

/// uconc: as conc, but thread 0 is the consumer-side agent: `cons=` lists its calls in order, an integer is
/// read(limit), `u` is unblock(); results are printed as ATAgent [RRd n msgs | RUn 0|1 ..] / ATProd / ATStop / ATPanicked.
pub fn case_uconc(parts: &[&str]) -> String {
    case_threads(parts, true)
}

fn case_threads(parts: &[&str], agent: bool) -> String {
    let a: Vec<i64> = parts[0..4].iter().map(|p| p.parse::<i64>().expect("int")).collect();
    let r = Ring::new(a[0] as i32, a[1], a[2], a[3]);
    let one = |k: &str| field(parts, k).into_iter().next().unwrap_or_default();
    let pre = run_ops(&r, &one("pre"));
    // None = unblock(), Some(limit) = read(limit)
    let calls: Vec<Option<i64>> = one("cons").iter().map(|x| if *x == "u" { None } else { Some(x.parse().expect("int")) }).collect();
    let progs: Vec<Vec<(i64, i64, i64)>> = field(parts, "prod")
        .into_iter()
        .map(|ws| {
            ws.iter()
                .map(|w| {
                    let f: Vec<i64> = w.split(':').skip(1).map(|x| x.parse().expect("int")).collect();
                    (f[0], f[1], f[2])
                })
                .collect()
        })
        .collect();
    let mut schedule: Vec<usize> = Vec::new();
    for item in one("sched") {
        let mut it = item.split('*');
        let t: usize = it.next().unwrap().parse().expect("int");
        let n: usize = it.next().map(|x| x.parse().expect("int")).unwrap_or(1);
        schedule.extend(std::iter::repeat(t).take(n));
    }
    let stops: Vec<Option<usize>> = one("stops").iter().map(|x| x.parse::<usize>().ok()).collect();

    let regions = vec![Region { base: r.mem.ptr() as usize, len: r.mem.len() as usize }];
    let mut bodies: Vec<Box<dyn FnOnce() -> String + Send>> = Vec::new();
    {
        let ring = r.ring.clone();
        bodies.push(Box::new(move || {
            let mut out: Vec<String> = Vec::new();
            for call in calls {
                match call {
                    Some(limit) => {
                        let mut msgs: Vec<(i32, Vec<u8>)> = Vec::new();
                        let n = ring.read(|cmd, view| msgs.push((cmd as i32, view.as_slice().to_vec())), limit as i32);
                        if agent {
                            out.push(format!("RRd {} {}", crate::fz(n as i64), fmt_msgs(&msgs)));
                        } else {
                            out.push(format!("({}, {})", n, fmt_msgs(&msgs)));
                        }
                    }
                    None => out.push(format!("RUn {}", ring.unblock() as i32)),
                }
            }
            format!("{} [{}]", if agent { "ATAgent" } else { "TCons" }, out.join("; "))
        }));
    }
    for prog in progs {
        let ring = r.ring.clone();
        bodies.push(Box::new(move || {
            let mut out: Vec<String> = Vec::new();
            for (typ, len, k) in prog {
                let (src_mem, si) = crate::source_for(k, len);
                let src = AtomicBuffer::from_aligned(&src_mem);
                let res = ring.write(crate::cmd_of(typ), src, si, len as i32);
                out.push(fmt_write(Ok(res)));
            }
            format!("{} [{}]", if agent { "ATProd" } else { "TProd" }, out.join("; "))
        }));
    }
    let n = bodies.len();
    let mut stop_after = stops.clone();
    stop_after.resize(n, None);
    let res = sched::run(regions, bodies, &schedule, &stop_after);
    let trace: Vec<String> = res.trace.iter().map(fmt_ev).collect();
    let results: Vec<String> = (0..n)
        .map(|t| match &res.results[t] {
            Some(s) => s.clone(),
            None => format!("{}{}", if agent { "A" } else { "" }, if res.panicked[t] { "TPanicked" } else { "TStop" }),
        })
        .collect();
    let post = run_ops(&r, &one("post"));
    format!("({}, [{}], [{}], {})", pre, trace.join("; "), results.join("; "), post)
}
