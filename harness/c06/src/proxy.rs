//! proxy <cap> <c0> thr=<req>|<req>.. [thr=...] sched=<tid*count>,.. 
//!   Several client threads issue commands through ONE DriverProxy (src/driver_proxy.rs) on one to-driver ring,
//!   under vcommon::sched (the ring buffer is the registered shared region: a thread is parked before every access
//!   to it - next_correlation_id, claim, header, copy, commit; encoding into the proxy's scratch buffer is not a
//!   scheduling point).  A request is written as in harness/c13: words joined by ':'
//!     addpub:<excl>:<stream>:<ck>:<cn> | addsub:<stream>:<ck>:<cn> | remove:<kind>:<reg> | dest:<kind>:<reg>:<ck>:<cn>
//!     | counter:<type>:<kk>:<kn>:<lk>:<ln> | keepalive | close | terminate:<tk>:<tn>
//!   c0 = correlation counter before the proxy is created (client id = c0).
//! Observation: ([[results of thread 0]; [results of thread 1]; ..], [records drained from the ring at the end])
//!   result = Ok (id) | Err e | Panic ; record = (type id, [bytes]); a stopped thread prints [Hang].
use aeron_rs::concurrent::atomic_buffer::{AlignedBuffer, AtomicBuffer};
use aeron_rs::concurrent::ring_buffer::{self, ManyToOneRingBuffer};
use aeron_rs::driver_proxy::DriverProxy;
use aeron_rs::utils::errors::AeronError;
use std::ffi::CString;
use std::sync::Arc;
use vcommon::sched::{self, Region};
use vcommon::{fmt_list, payload};

fn chars(k: i64, n: i64) -> Vec<u8> {
    (0..n).map(|i| (33 + (k * 31 + i * 7).rem_euclid(94)) as u8).collect()
}
/// = Coq cstr (Model/WireBytes.v)
fn cstr_bytes(k: i64, n: i64) -> Vec<u8> {
    if k < 1000 {
        chars(k, n)
    } else if k < 2000 {
        (0..n).map(|i| (1 + (k * 31 + i * 7).rem_euclid(255)) as u8).collect()
    } else {
        (0..n).map(|i| if i == n - 1 { 233u8 } else if i == n / 2 && n >= 3 { 128u8 } else { (97 + (k + i).rem_euclid(26)) as u8 }).collect()
    }
}
/// = Coq blob
fn blob(k: i64, n: i64) -> Vec<u8> {
    if k < 1000 {
        payload(k, n as usize)
    } else {
        (0..n).map(|i| (k * 31 + i * 7).rem_euclid(256) as u8).collect()
    }
}
fn p(s: &str) -> i64 {
    s.parse::<i64>().unwrap_or_else(|_| panic!("bad int {}", s))
}
fn cstr(b: Vec<u8>) -> CString {
    CString::new(b).expect("no NUL in cstr")
}

fn call(px: &DriverProxy, a: &[&str]) -> Result<i64, AeronError> {
    match a[0] {
        "addpub" => {
            let (excl, stream, ch) = (p(a[1]) != 0, p(a[2]) as i32, cstr_bytes(p(a[3]), p(a[4])));
            if excl { px.add_exclusive_publication(cstr(ch), stream) } else { px.add_publication(cstr(ch), stream) }
        }
        "addsub" => px.add_subscription(cstr(cstr_bytes(p(a[2]), p(a[3]))), p(a[1]) as i32),
        "remove" => {
            let (k, reg) = (p(a[1]), p(a[2]));
            match k {
                0 => px.remove_publication(reg),
                1 => px.remove_subscription(reg),
                _ => px.remove_counter(reg),
            }
        }
        "dest" => {
            let (k, reg, ch) = (p(a[1]), p(a[2]), cstr_bytes(p(a[3]), p(a[4])));
            match k {
                0 => px.add_destination(reg, cstr(ch)),
                1 => px.remove_destination(reg, cstr(ch)),
                2 => px.add_rcv_destination(reg, cstr(ch)),
                _ => px.remove_rcv_destination(reg, cstr(ch)),
            }
        }
        "counter" => {
            let (ty, key, label) = (p(a[1]) as i32, blob(p(a[2]), p(a[3])), cstr_bytes(p(a[4]), p(a[5])));
            px.add_counter(ty, &key, cstr(label))
        }
        "keepalive" => px.send_client_keepalive().map(|_| 0),
        "close" => px.client_close(),
        "terminate" => px.terminate_driver(&blob(p(a[1]), p(a[2]))).map(|_| 0),
        other => panic!("unknown request {}", other),
    }
}

pub fn case_proxy(parts: &[&str]) -> String {
    let cap = p(parts[0]) as i32;
    let c0 = p(parts[1]);
    let mem = AlignedBuffer::with_capacity(cap + ring_buffer::TRAILER_LENGTH);
    let buf = AtomicBuffer::from_aligned(&mem);
    buf.set_memory(0, buf.capacity(), 0);
    buf.put::<i64>(cap + ring_buffer::CORRELATION_COUNTER_OFFSET, c0);
    let ring = Arc::new(ManyToOneRingBuffer::new(buf).expect("ring"));
    let proxy = Arc::new(DriverProxy::new(ring.clone()));
    let mut schedule: Vec<usize> = Vec::new();
    let mut progs: Vec<Vec<String>> = Vec::new();
    for part in &parts[2..] {
        if let Some(rest) = part.strip_prefix("thr=") {
            progs.push(rest.split('|').filter(|x| !x.is_empty()).map(|x| x.to_string()).collect());
        } else if let Some(rest) = part.strip_prefix("sched=") {
            for item in rest.split(',').filter(|x| !x.is_empty()) {
                let mut it = item.split('*');
                let t: usize = it.next().unwrap().parse().expect("int");
                let n: usize = it.next().map(|x| x.parse().expect("int")).unwrap_or(1);
                schedule.extend(std::iter::repeat(t).take(n));
            }
        }
    }
    let regions = vec![Region { base: mem.ptr() as usize, len: mem.len() as usize }];
    let mut bodies: Vec<Box<dyn FnOnce() -> String + Send>> = Vec::new();
    for prog in progs {
        let px = proxy.clone();
        bodies.push(Box::new(move || {
            let mut out: Vec<String> = Vec::new();
            for req in prog {
                let words: Vec<&str> = req.split(':').collect();
                out.push(match call(&px, &words) {
                    Ok(v) => format!("Ok ({})", v),
                    Err(e) => format!("Err {}", vcommon::err_name(&e)),
                });
            }
            format!("[{}]", out.join("; "))
        }));
    }
    let n = bodies.len();
    let res = sched::run(regions, bodies, &schedule, &vec![None; n]);
    let results: Vec<String> = (0..n)
        .map(|t| match &res.results[t] {
            Some(s) => s.clone(),
            None => if res.panicked[t] { "[Panic]".to_string() } else { "[Hang]".to_string() },
        })
        .collect();
    // what the driver side gets
    let mut delivered: Vec<(i32, Vec<u8>)> = Vec::new();
    for _ in 0..3 {
        let rd = vcommon::catch(|| {
            ring.read(
                |cmd, b| {
                    let mut body = vec![0u8; b.capacity() as usize];
                    for (i, x) in body.iter_mut().enumerate() {
                        *x = b.get::<u8>(i as i32);
                    }
                    delivered.push((cmd as i32, body));
                },
                i32::MAX,
            )
        });
        if rd.is_err() {
            delivered.push((0, vec![]));
            break;
        }
    }
    let recs: Vec<String> = delivered.iter().map(|(t, b)| format!("({}, {})", t, fmt_list(b))).collect();
    format!("([{}], [{}])", results.join("; "), recs.join("; "))
}
