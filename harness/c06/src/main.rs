//! C06 / C07 harness: the many-to-one command ring (src/concurrent/ring_buffer.rs).
//!
//! cases (one per line):
//!   seq <cap> <p0> <hc0> <c0> <op>*
//!       one thread; the ring's tail and head counters are preset to p0, the head cache to hc0 and the
//!       correlation counter to c0 (as the repository's unit tests preset them). ops:
//!         w:<typ>:<len>:<k>   write(cmd typ, payload(k, len))   -> OW result head tail
//!         r:<limit>           read(handler, limit)              -> OR count [(typ, bytes)..] head tail
//!         u                   unblock()                         -> OU (Ok 0|1) head tail
//!         s                   size()                            -> OS result
//!         i                   next_correlation_id()             -> OI result
//!         h:<t>               set_consumer_heartbeat_time(t); consumer_heartbeat_time() -> OH result
//!         d                   dump of the non-zero words of the whole buffer            -> OD [...]
//!   conc / uconc: see conc.rs (deterministic scheduler on the verification hook); proxy: see proxy.rs
//!   every write takes its payload from offset src_index_of(k) of a larger source buffer filled with 0xA5
use aeron_rs::command::control_protocol_events::AeronCommand;
use aeron_rs::concurrent::atomic_buffer::{AlignedBuffer, AtomicBuffer};
use aeron_rs::concurrent::ring_buffer::{self as rb, ManyToOneRingBuffer, RingBufferError};
use std::sync::Arc;
use vcommon::{catch, fmt_outcome, payload, sparse_words};

mod conc;
mod proxy;

pub fn cmd_of(typ: i64) -> AeronCommand {
    if typ == -1 {
        AeronCommand::Padding
    } else {
        AeronCommand::from_command_id(typ as i32)
    }
}

pub fn fmt_write(r: Result<Result<(), RingBufferError>, ()>) -> String {
    match r {
        Ok(Ok(())) => "Ok (0)".to_string(),
        Ok(Err(RingBufferError::InsufficientCapacity)) => "Err InsufficientCapacity".to_string(),
        Ok(Err(RingBufferError::MessageTooLong { .. })) => "Err TooLong".to_string(),
        Ok(Err(RingBufferError::NonPositiveMessageTypeId(_))) => "Err IllegalArg".to_string(),
        Ok(Err(_)) => "Err OtherErr".to_string(),
        Err(()) => "Panic".to_string(),
    }
}

/// the bytes packed little-endian, seven to an integer (what `pack7` computes in Model/Ring.v)
pub fn pack7(bytes: &[u8]) -> String {
    let items: Vec<String> = bytes
        .chunks(7)
        .map(|c| c.iter().rev().fold(0u64, |acc, &b| acc * 256 + b as u64).to_string())
        .collect();
    format!("[{}]", items.join("; "))
}

pub fn fmt_msgs(msgs: &[(i32, Vec<u8>)]) -> String {
    let items: Vec<String> = msgs.iter().map(|(t, b)| format!("({}, {}, {})", t, b.len(), pack7(b))).collect();
    format!("[{}]", items.join("; "))
}

pub struct Ring {
    pub mem: AlignedBuffer,
    pub buf: AtomicBuffer,
    pub ring: Arc<ManyToOneRingBuffer>,
    pub cap: i32,
}

impl Ring {
    pub fn new(cap: i32, p0: i64, hc0: i64, c0: i64) -> Ring {
        let mem = AlignedBuffer::with_capacity(cap + rb::TRAILER_LENGTH);
        let buf = AtomicBuffer::from_aligned(&mem);
        buf.set_memory(0, buf.capacity(), 0);
        buf.put::<i64>(cap + rb::TAIL_POSITION_OFFSET, p0);
        buf.put::<i64>(cap + rb::HEAD_POSITION_OFFSET, p0);
        buf.put::<i64>(cap + rb::HEAD_CACHE_POSITION_OFFSET, hc0);
        buf.put::<i64>(cap + rb::CORRELATION_COUNTER_OFFSET, c0);
        let ring = Arc::new(ManyToOneRingBuffer::new(buf).expect("capacity"));
        Ring { mem, buf, ring, cap }
    }
    pub fn head(&self) -> i64 {
        self.buf.get::<i64>(self.cap + rb::HEAD_POSITION_OFFSET)
    }
    pub fn tail(&self) -> i64 {
        self.buf.get::<i64>(self.cap + rb::TAIL_POSITION_OFFSET)
    }
}

/// the offset inside the source buffer at which the payload of write number k lies (8, 16 or 0): the bytes
/// write() must copy are src[src_index .. src_index + length), whatever else the source buffer holds
pub fn src_index_of(k: i64) -> i32 {
    8 * (((k + 1).rem_euclid(3)) as i32)
}

/// a source buffer filled with 0xA5 that holds payload(k, len) at src_index_of(k), with 8 more bytes behind it
pub fn source_for(k: i64, len: i64) -> (AlignedBuffer, i32) {
    let bytes = payload(k, len.max(0) as usize);
    let si = src_index_of(k);
    let src_mem = AlignedBuffer::with_capacity(si + (len.max(0) as i32) + 8);
    let src = AtomicBuffer::from_aligned(&src_mem);
    src.set_memory(0, src.capacity(), 0xA5);
    src.put_bytes(si, &bytes);
    (src_mem, si)
}

pub fn do_write(ring: &ManyToOneRingBuffer, typ: i64, len: i64, k: i64) -> String {
    let (src_mem, si) = source_for(k, len);
    let src = AtomicBuffer::from_aligned(&src_mem);
    fmt_write(catch(|| ring.write(cmd_of(typ), src, si, len as i32)))
}

pub fn do_read(ring: &ManyToOneRingBuffer, limit: i64) -> (String, Vec<(i32, Vec<u8>)>) {
    let mut msgs: Vec<(i32, Vec<u8>)> = Vec::new();
    let r = catch(|| ring.read(|cmd, view| msgs.push((cmd as i32, view.as_slice().to_vec())), limit as i32));
    (fmt_outcome(r), msgs)
}

/// run sequential ops (tokens as in the header comment) on the ring; one observation per op
pub fn run_ops(r: &Ring, toks: &[&str]) -> String {
    let mut outs: Vec<String> = Vec::new();
    for tok in toks {
        if tok.is_empty() {
            continue;
        }
        let f: Vec<&str> = tok.split(':').collect();
        let arg = |i: usize| f[i].parse::<i64>().expect("int");
        match f[0] {
            "w" => {
                let res = do_write(&r.ring, arg(1), arg(2), arg(3));
                outs.push(format!("OW ({}) {} {}", res, fz(r.head()), fz(r.tail())));
            }
            "r" => {
                let (res, msgs) = do_read(&r.ring, arg(1));
                outs.push(format!("OR ({}) {} {} {}", res, fmt_msgs(&msgs), fz(r.head()), fz(r.tail())));
            }
            "u" => {
                let res = catch(|| r.ring.unblock() as i32);
                outs.push(format!("OU ({}) {} {}", fmt_outcome(res), fz(r.head()), fz(r.tail())));
            }
            "s" => outs.push(format!("OS ({})", fmt_outcome(catch(|| r.ring.size())))),
            "i" => outs.push(format!("OI ({})", fmt_outcome(catch(|| r.ring.next_correlation_id())))),
            "h" => {
                let t = arg(1);
                let res = catch(|| {
                    r.ring.set_consumer_heartbeat_time(t);
                    r.ring.consumer_heartbeat_time()
                });
                outs.push(format!("OH ({})", fmt_outcome(res)));
            }
            "d" => outs.push(format!("OD {}", sparse_words(&r.buf))),
            other => panic!("unknown case kind op {}", other),
        }
    }
    format!("[{}]", outs.join("; "))
}

fn case_seq(parts: &[&str]) -> String {
    let a: Vec<i64> = parts[0..4].iter().map(|p| p.parse::<i64>().expect("int")).collect();
    let r = Ring::new(a[0] as i32, a[1], a[2], a[3]);
    run_ops(&r, &parts[4..])
}

/// integers as Coq prints them inside an application
pub fn fz(v: i64) -> String {
    if v < 0 {
        format!("({})", v)
    } else {
        v.to_string()
    }
}

fn main() {
    vcommon::run_lines(|line| {
        let parts: Vec<&str> = line.split_whitespace().collect();
        match parts[0] {
            "seq" => case_seq(&parts[1..]),
            "conc" => conc::case_conc(&parts[1..]),
            "uconc" => conc::case_uconc(&parts[1..]),
            "proxy" => proxy::case_proxy(&parts[1..]),
            other => panic!("unknown case kind {}", other),
        }
    });
}
