//! C18 harness: a vectored offer against the contiguous offer of the concatenation, on twin logs.
//!
//!   twin <kind> <tlen> <mtu> <init> <n0> <off0> | <pre-ops> | <k> <l1> <l2> ...
//!        both logs run the same pre-ops (see ../c04/src/hist.rs for the operations); then log A gets
//!        offer_bulk of message k split into buffers of l1, l2, ... bytes and log B gets offer of the whole message.
//!        observation: (observation of A before the offer, observation of A's offer_bulk, observation of B's offer)
//!   xapp <tlen> <mtu> <init> <n0> <off0> | <k> <l1> <l2> ...
//!        ExclusiveTermAppender::append_unfragmented_message_bulk against append_unfragmented_message on twin logs handed
//!        over at (n0, off0): ((resulting offset A, changed words / tails A), (resulting offset B, changed words / tails B))
//!   sapp <tlen> <mtu> <init> <n0> <off0> <delta> | <k> <l1> <l2> ...
//!        the shared TermAppender called directly: append_unfragmented_message_bulk / append_fragmented_message_bulk against
//!        append_unfragmented_message / append_fragmented_message (fragmented when the message exceeds mtu - 32) on twin logs
//!        handed over at (n0, off0), with active_term_id = init + n0 + delta (delta != 0: the caller sampled the tail in another
//!        term than the one its fetch-add lands in - both flavours must answer the same error): same observation shape as xapp
#[path = "../../c04/src/hist.rs"]
mod hist;

use aeron_rs::concurrent::atomic_buffer::AtomicBuffer;
use aeron_rs::concurrent::logbuffer::exclusive_term_appender::ExclusiveTermAppender;
use aeron_rs::concurrent::logbuffer::header::HeaderWriter;
use aeron_rs::concurrent::logbuffer::term_appender::TermAppender;
use vcommon::fmt_result;
use aeron_rs::concurrent::logbuffer::log_buffer_descriptor as lbd;
use vcommon::client::TestLog;
use vcommon::{catch, fmt_outcome, payload};

fn ints(s: &str) -> Vec<i64> {
    s.split_whitespace().map(|x| x.parse::<i64>().unwrap_or_else(|_| panic!("bad int {}", x))).collect()
}

fn run_pre(h: &mut hist::Hist, pre: &str) -> String {
    let mut last = h.observe("Ok (0)".to_string());
    for op in pre.split(';') {
        let op = op.trim();
        if op.is_empty() {
            continue;
        }
        let r = h.step(op);
        last = h.observe(r);
    }
    last
}

fn case_twin(rest: &str) -> String {
    let parts: Vec<&str> = rest.split('|').collect();
    let head: Vec<&str> = parts[0].split_whitespace().collect();
    let g = ints(&head[1..].join(" "));
    let msg = ints(parts[2]);
    let total: i64 = msg[1..].iter().sum();
    let mut a = hist::Hist::new(head[0], g[0] as i32, g[1] as i32, g[2] as i32, g[3] as i32, g[4] as i32);
    let mut b = hist::Hist::new(head[0], g[0] as i32, g[1] as i32, g[2] as i32, g[3] as i32, g[4] as i32);
    let before = run_pre(&mut a, parts[1]);
    let _ = run_pre(&mut b, parts[1]);
    let bulk_op = format!("b {}", msg.iter().map(|v| v.to_string()).collect::<Vec<_>>().join(" "));
    let ra = a.step(&bulk_op);
    let oa = a.observe(ra);
    let rb = b.step(&format!("o {} {}", msg[0], total));
    let ob = b.observe(rb);
    format!("({}, {}, {})", before, oa, ob)
}

fn xapp_one(g: &[i64], msg: &[i64], bulk: bool) -> String {
    let (tlen, mtu, init, n0, off0) = (g[0] as i32, g[1] as i32, g[2] as i32, g[3] as i32, g[4] as i32);
    let log = TestLog::new(tlen, mtu, init, n0, off0, hist::SESSION, hist::STREAM);
    let idx = lbd::index_by_term_count(n0 as i64);
    let mut app = ExclusiveTermAppender::new(log.term(idx), log.meta(), idx);
    let hw = HeaderWriter::new(lbd::default_frame_header(&log.meta()));
    let tid = init.wrapping_add(n0);
    let total: i64 = msg[1..].iter().sum();
    let whole = payload(msg[0], total as usize);
    let r = if bulk {
        let mut bufs_mem: Vec<Vec<u8>> = Vec::new();
        let mut at = 0usize;
        for l in &msg[1..] {
            bufs_mem.push(whole[at..at + *l as usize].to_vec());
            at += *l as usize;
        }
        let bufs: Vec<AtomicBuffer> = bufs_mem.iter_mut().map(|v| AtomicBuffer::wrap_slice(v)).collect();
        catch(|| app.append_unfragmented_message_bulk(tid, off0, &hw, bufs, total as i32, hist::harness_rv))
    } else {
        let mut m = whole.clone();
        let buf = AtomicBuffer::wrap_slice(&mut m);
        catch(|| app.append_unfragmented_message(tid, off0, &hw, buf, 0, total as i32, hist::harness_rv))
    };
    let mut prev = [vec![0u8; tlen as usize], vec![0u8; tlen as usize], vec![0u8; tlen as usize]];
    let d0 = hist::changed_words(&log.term(0), &mut prev[0]);
    let d1 = hist::changed_words(&log.term(1), &mut prev[1]);
    let d2 = hist::changed_words(&log.term(2), &mut prev[2]);
    format!(
        "({}, ({}, [{}; {}; {}], [{}; {}; {}]))",
        fmt_outcome(r),
        log.active_term_count(),
        log.raw_tail(0),
        log.raw_tail(1),
        log.raw_tail(2),
        d0,
        d1,
        d2
    )
}

fn sapp_one(g: &[i64], msg: &[i64], bulk: bool) -> String {
    let (tlen, mtu, init, n0, off0, delta) = (g[0] as i32, g[1] as i32, g[2] as i32, g[3] as i32, g[4] as i32, g[5] as i32);
    let log = TestLog::new(tlen, mtu, init, n0, off0, hist::SESSION, hist::STREAM);
    let idx = lbd::index_by_term_count(n0 as i64);
    let mut app = TermAppender::new(log.term(idx), log.meta(), idx);
    let hw = HeaderWriter::new(lbd::default_frame_header(&log.meta()));
    let active = init.wrapping_add(n0).wrapping_add(delta);
    let total: i64 = msg[1..].iter().sum();
    let mpl = mtu - 32;
    let whole = payload(msg[0], total as usize);
    let r = if bulk {
        let mut bufs_mem: Vec<Vec<u8>> = Vec::new();
        let mut at = 0usize;
        for l in &msg[1..] {
            bufs_mem.push(whole[at..at + *l as usize].to_vec());
            at += *l as usize;
        }
        let bufs: Vec<AtomicBuffer> = bufs_mem.iter_mut().map(|v| AtomicBuffer::wrap_slice(v)).collect();
        if total as i32 <= mpl {
            catch(|| app.append_unfragmented_message_bulk(&hw, bufs, total as i32, hist::harness_rv, active))
        } else {
            catch(|| app.append_fragmented_message_bulk(&hw, bufs, total as i32, mpl, hist::harness_rv, active))
        }
    } else {
        let mut m = whole.clone();
        let buf = AtomicBuffer::wrap_slice(&mut m);
        if total as i32 <= mpl {
            catch(|| app.append_unfragmented_message(&hw, &buf, 0, total as i32, hist::harness_rv, active))
        } else {
            catch(|| app.append_fragmented_message(&hw, &buf, 0, total as i32, mpl, hist::harness_rv, active))
        }
    };
    let mut prev = [vec![0u8; tlen as usize], vec![0u8; tlen as usize], vec![0u8; tlen as usize]];
    let d0 = hist::changed_words(&log.term(0), &mut prev[0]);
    let d1 = hist::changed_words(&log.term(1), &mut prev[1]);
    let d2 = hist::changed_words(&log.term(2), &mut prev[2]);
    format!(
        "({}, ({}, [{}; {}; {}], [{}; {}; {}]))",
        fmt_result(r),
        log.active_term_count(),
        log.raw_tail(0),
        log.raw_tail(1),
        log.raw_tail(2),
        d0,
        d1,
        d2
    )
}

fn case_sapp(rest: &str) -> String {
    let parts: Vec<&str> = rest.split('|').collect();
    let g = ints(parts[0]);
    let msg = ints(parts[1]);
    format!("({}, {})", sapp_one(&g, &msg, true), sapp_one(&g, &msg, false))
}

fn case_xapp(rest: &str) -> String {
    let parts: Vec<&str> = rest.split('|').collect();
    let g = ints(parts[0]);
    let msg = ints(parts[1]);
    format!("({}, {})", xapp_one(&g, &msg, true), xapp_one(&g, &msg, false))
}

fn main() {
    vcommon::run_lines(|line| {
        let (kind, rest) = line.split_once(' ').unwrap_or((line, ""));
        match kind {
            "twin" => case_twin(rest),
            "xapp" => case_xapp(rest),
            "sapp" => case_sapp(rest),
            other => panic!("unknown case kind {}", other),
        }
    });
}
