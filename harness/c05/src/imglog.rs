//! Shared by the C05 and C20 harnesses: a subscription obtained from an in-process conductor,
//! images attached to it through the public `DriverListener::on_available_image` route over a real
//! log *file* (as the repository's conductor tests do), and direct writing of frames into the log.
#![allow(dead_code)]

use std::cell::RefCell;
use std::ffi::CString;
use std::io::{Seek, SeekFrom, Write};
use std::sync::{Arc, Mutex};

use aeron_rs::concurrent::atomic_buffer::AtomicBuffer;
use aeron_rs::concurrent::counters::CountersReader;
use aeron_rs::concurrent::logbuffer::header::Header;
use aeron_rs::concurrent::logbuffer::{data_frame_header as dfh, log_buffer_descriptor as lbd};
use aeron_rs::concurrent::position::{ReadablePosition, UnsafeBufferPosition};
use aeron_rs::driver_listener_adapter::DriverListener;
use aeron_rs::image::Image;
use aeron_rs::subscription::Subscription;
use aeron_rs::utils::types::Index;
use aeron_rs::verif_hook::{self, AccessKind};
use vcommon::client::TestClient;

pub const STREAM_ID: i32 = 1001;

#[derive(Clone, Debug)]
pub struct FrameSpec {
    pub typ: i64,
    pub flags: i64,
    pub flen: i64,
    pub k: i64,
    pub dtid: i64,
}

#[derive(Clone, Debug)]
pub struct Seg {
    pub n: i64,
    pub off: i64,
    pub vis: usize,
    pub claim: bool,
    pub frames: Vec<FrameSpec>,
}

pub fn align32(v: i64) -> i64 {
    (v + 31) & !31
}

impl Seg {
    pub fn offset_of(&self, idx: usize) -> i64 {
        self.off + self.frames[..idx].iter().map(|f| align32(f.flen)).sum::<i64>()
    }
}

fn img_noop(_i: &Image) {}

/// Conductor + one subscription, registered and ready.
pub struct Rig {
    // field order matters: the subscription's Drop talks to the conductor, whose buffers `client` owns
    pub sub: Arc<Mutex<Subscription>>,
    pub client: TestClient,
    pub sub_id: i64,
    pub dir: std::path::PathBuf,
    pub files: Vec<std::path::PathBuf>,
    next_corr: i64,
}

impl Rig {
    pub fn new(tag: &str) -> Self {
        let client = TestClient::new();
        let sub_id = client
            .conductor
            .lock()
            .unwrap()
            .add_subscription(CString::new("aeron:ipc").unwrap(), STREAM_ID, Box::new(img_noop), Box::new(img_noop))
            .expect("add_subscription");
        client.conductor.lock().unwrap().on_subscription_ready(sub_id, 1);
        let sub = client.conductor.lock().unwrap().find_subscription(sub_id).expect("find_subscription");
        let base = if std::path::Path::new("/dev/shm").is_dir() { "/dev/shm" } else { "/tmp" };
        let dir = std::path::PathBuf::from(format!("{}/verif-{}-{}", base, tag, std::process::id()));
        std::fs::create_dir_all(&dir).expect("mkdir");
        Self { client, sub, sub_id, dir, files: Vec::new(), next_corr: sub_id + 1000 }
    }

    pub fn counter(&self, id: i32) -> UnsafeBufferPosition {
        UnsafeBufferPosition::new(self.client.counter_values_buffer(), id)
    }

    pub fn counter_addr(&self, id: i32) -> usize {
        self.client.counter_values_buffer().buffer() as usize + CountersReader::counter_offset(id) as usize
    }

    /// Create a zeroed log file with the given geometry, set the subscriber position counter and let the
    /// conductor build the image from it (on_available_image). Returns the image's correlation id.
    pub fn add_image(&mut self, term_length: i32, init_term_id: i32, session_id: i32, counter_id: i32, pos0: i64) -> i64 {
        let corr = self.next_corr;
        self.next_corr += 1;
        let path = self.dir.join(format!("{}.logbuffer", corr));
        let total = term_length as u64 * 3 + lbd::LOG_META_DATA_LENGTH as u64;
        {
            let mut f = std::fs::OpenOptions::new().read(true).write(true).create(true).truncate(true).open(&path).expect("create log");
            f.set_len(total).expect("set_len");
            let mut meta = vec![0u8; lbd::LOG_META_DATA_LENGTH as usize];
            let md = AtomicBuffer::wrap_slice(&mut meta);
            md.put::<i32>(*lbd::LOG_MTU_LENGTH_OFFSET, 4096);
            md.put::<i32>(*lbd::LOG_TERM_LENGTH_OFFSET, term_length);
            md.put::<i32>(*lbd::LOG_PAGE_SIZE_OFFSET, 4096);
            md.put::<i32>(*lbd::LOG_INITIAL_TERM_ID_OFFSET, init_term_id);
            md.put::<i32>(*lbd::LOG_DEFAULT_FRAME_HEADER_LENGTH_OFFSET, dfh::LENGTH);
            md.put::<i64>(*lbd::LOG_END_OF_STREAM_POSITION_OFFSET, i64::MAX);
            f.seek(SeekFrom::Start(term_length as u64 * 3)).expect("seek");
            f.write_all(&meta).expect("write meta");
            f.sync_all().ok();
        }
        self.counter(counter_id).set(pos0);
        self.client.conductor.lock().unwrap().on_available_image(
            corr,
            session_id,
            counter_id,
            self.sub_id,
            CString::new(path.to_string_lossy().to_string()).unwrap(),
            CString::new("verif").unwrap(),
        );
        self.files.push(path);
        corr
    }

    pub fn remove_image(&mut self, corr: i64) {
        self.client.conductor.lock().unwrap().on_unavailable_image(corr, self.sub_id);
    }

    /// A private handle on the image with the given correlation id (Image is Clone; the clone shares
    /// the log mapping, the position counter and the closed flag).
    pub fn image(&self, corr: i64) -> Image {
        let g = self.sub.lock().unwrap();
        g.images().iter().find(|i| i.correlation_id() == corr).expect("image present").clone()
    }
}

impl Drop for Rig {
    fn drop(&mut self) {
        for f in &self.files {
            std::fs::remove_file(f).ok();
        }
        std::fs::remove_dir(&self.dir).ok();
    }
}

/// Write frame `idx` of `seg` into the log of `image`; `committed` = positive length word, else the
/// negated length a claim leaves behind.
pub fn write_frame(image: &Image, term_length: i32, init: i32, session: i32, seg: &Seg, idx: usize, committed: bool) {
    let f = &seg.frames[idx];
    let off = seg.offset_of(idx);
    let part = (seg.n.rem_euclid(3)) as Index;
    let term = image.log_buffers().atomic_buffer(part);
    let end = off + align32(f.flen);
    assert!(end <= term_length as i64, "frame beyond the term");
    let o = off as Index;
    let tid = init.wrapping_add(seg.n as i32).wrapping_add(f.dtid as i32);
    term.put::<u8>(o + *dfh::VERSION_FIELD_OFFSET, dfh::CURRENT_VERSION);
    term.put::<u8>(o + *dfh::FLAGS_FIELD_OFFSET, f.flags as u8);
    term.put::<u16>(o + *dfh::TYPE_FIELD_OFFSET, f.typ as u16);
    term.put::<i32>(o + *dfh::TERM_OFFSET_FIELD_OFFSET, o);
    term.put::<i32>(o + *dfh::SESSION_ID_FIELD_OFFSET, session);
    term.put::<i32>(o + *dfh::STREAM_ID_FIELD_OFFSET, STREAM_ID);
    term.put::<i32>(o + *dfh::TERM_ID_FIELD_OFFSET, tid);
    if f.typ != dfh::HDR_TYPE_PAD as i64 && f.flen > dfh::LENGTH as i64 {
        let body = vcommon::payload(f.k, (f.flen - dfh::LENGTH as i64) as usize);
        term.put_bytes(o + dfh::LENGTH, &body);
    }
    let len = if committed { f.flen as i32 } else { -(f.flen as i32) };
    term.put_ordered::<i32>(o + *dfh::FRAME_LENGTH_FIELD_OFFSET, len);
}

/// Bring the log in line with `seg.vis` / `seg.claim`: frames below `from` are already written.
pub fn sync_seg(image: &Image, term_length: i32, init: i32, session: i32, seg: &Seg, from: usize) {
    for idx in from..seg.vis.min(seg.frames.len()) {
        write_frame(image, term_length, init, session, seg, idx, true);
    }
    if seg.claim && seg.vis < seg.frames.len() {
        write_frame(image, term_length, init, session, seg, seg.vis, false);
    }
}

pub fn payload_hash(buffer: &AtomicBuffer, offset: Index, length: Index) -> i64 {
    let mut h: i64 = 7;
    if length > 0 {
        for b in buffer.as_sub_slice(offset, length) {
            h = (h * 31 + *b as i64 + 1) % 1_000_003;
        }
    }
    h
}

/// (offset, length, flags, header.position(), session id, payload hash) in Coq tuple syntax
pub fn fragment_obs(buffer: &AtomicBuffer, offset: Index, length: Index, header: &Header) -> String {
    let hp = vcommon::catch(|| header.position());
    let flags = vcommon::catch(|| header.flags()).map(|v| v as i64).unwrap_or(-1);
    let sess = vcommon::catch(|| header.session_id()).map(|v| v as i64).unwrap_or(-1);
    let hash = vcommon::catch(|| payload_hash(buffer, offset, length)).unwrap_or(-1);
    format!("({}, {}, {}, {}, {}, {})", offset, length, flags, vcommon::fmt_outcome(hp), sess, hash)
}

// ---- recording of writes to one address (the subscriber position counter) through the repository's hook ----

thread_local! {
    static WATCH: RefCell<(usize, bool, Vec<i64>)> = const { RefCell::new((0, false, Vec::new())) };
}

fn on_access(kind: AccessKind, addr: usize, len: usize, val: i64, val2: i64) {
    WATCH.with(|w| {
        if let Ok(mut w) = w.try_borrow_mut() {
            if !w.1 || addr > w.0 || addr + len <= w.0 {
                return;
            }
            match kind {
                AccessKind::Put | AccessKind::PutOrdered | AccessKind::PutAtomicI64 => w.2.push(val),
                AccessKind::CompareAndSetI64 | AccessKind::CompareAndSetI32 => w.2.push(val2),
                AccessKind::GetAndAddI64 | AccessKind::AddI64Ordered => w.2.push(i64::MIN + val),
                AccessKind::PutBytes | AccessKind::CopyFrom | AccessKind::SetMemory | AccessKind::RegionWrite => w.2.push(i64::MIN),
                _ => {},
            }
        }
    });
}

pub fn watch_install() {
    verif_hook::set_callback(Some(on_access));
}

/// Start recording writes that touch the 8 bytes at `addr`.
pub fn watch_start(addr: usize) {
    WATCH.with(|w| {
        let mut w = w.borrow_mut();
        w.0 = addr;
        w.1 = true;
        w.2.clear();
    });
}

pub fn watch_stop() -> Vec<i64> {
    WATCH.with(|w| {
        let mut w = w.borrow_mut();
        w.1 = false;
        std::mem::take(&mut w.2)
    })
}
