//! C05 harness: one image on a real log file, obtained through the conductor; frames are written
//! straight into the log memory; a history of calls is run against the image.
//!
//! case line (all integers):
//!   img <bits> <init> <session> <pos0> <nsegs> { <n> <off> <vis> <claim> <nframes> { <typ> <flags> <flen> <k> <dtid> }* }*
//!       <nops> { <opcode> <args..> }*
//!   position arguments (bound, ipos, limitpos, p) are pairs <rel> <v>: rel=1 means counter value now + v
//!   opcodes: 1 poll limit | 2 bounded_poll bound limit | 3 controlled_poll limit nsc sc* |
//!            4 bounded_controlled_poll bound limit nsc sc* | 5 controlled_peek ipos limitpos nsc sc* |
//!            6 block_poll blimit | 7 set_position p | 8 close | 9 grow seg j | 10 position
//!   script codes: 1 Abort 2 Break 3 Commit 4 Continue (Continue once exhausted)
//! observation: list with one entry per op:
//!   (ret, [fragments], [values written to the subscriber position counter], counter afterwards)
//!   ret = Ok (v) | Err IllegalArg | Panic ; fragment = (offset, length, flags, Ok (header.position()), session, payload hash)
//!   block_poll's block = (offset, length, -1, Ok (term id), session, 0)
mod imglog;

use std::cell::RefCell;

use aeron_rs::concurrent::atomic_buffer::AtomicBuffer;
use aeron_rs::concurrent::logbuffer::header::Header;
use aeron_rs::concurrent::position::ReadablePosition;
use aeron_rs::image::ControlledPollAction;
use aeron_rs::utils::errors::AeronError;
use aeron_rs::utils::types::Index;
use imglog::*;
use vcommon::{catch, fmt_list};

const COUNTER_ID: i32 = 3;

thread_local! {
    static BLOCKS: RefCell<Vec<String>> = const { RefCell::new(Vec::new()) };
}

fn block_handler(_buf: &AtomicBuffer, offset: Index, length: Index, session_id: i32, term_id: i32) {
    BLOCKS.with(|b| b.borrow_mut().push(format!("({}, {}, -1, Ok ({}), {}, 0)", offset, length, term_id, session_id)));
}

fn action_of(code: i64) -> ControlledPollAction {
    match code {
        1 => ControlledPollAction::Abort,
        2 => ControlledPollAction::Break,
        3 => ControlledPollAction::Commit,
        _ => ControlledPollAction::Continue,
    }
}

struct Cur<'a> {
    a: &'a [i64],
    i: usize,
}

impl<'a> Cur<'a> {
    fn next(&mut self) -> i64 {
        let v = self.a[self.i];
        self.i += 1;
        v
    }
    /// a position argument: <rel> <v> ; rel = 1 means "subscriber position read now + v"
    fn parg(&mut self, cur: i64) -> i64 {
        let rel = self.next();
        let v = self.next();
        if rel != 0 {
            cur.wrapping_add(v)
        } else {
            v
        }
    }
    fn script(&mut self) -> Vec<i64> {
        let n = self.next() as usize;
        (0..n).map(|_| self.next()).collect()
    }
}

fn fmt_ret<T: std::fmt::Display>(r: Result<Result<T, AeronError>, ()>) -> String {
    vcommon::fmt_result(r)
}

fn case_img(a: &[i64]) -> String {
    let mut c = Cur { a, i: 0 };
    let bits = c.next();
    let init = c.next() as i32;
    let session = c.next() as i32;
    let pos0 = c.next();
    let tl: i32 = 1 << bits;
    let nsegs = c.next() as usize;
    let mut segs: Vec<Seg> = Vec::new();
    for _ in 0..nsegs {
        let n = c.next();
        let off = c.next();
        let vis = c.next() as usize;
        let claim = c.next() != 0;
        let nf = c.next() as usize;
        let mut frames = Vec::new();
        for _ in 0..nf {
            frames.push(FrameSpec { typ: c.next(), flags: c.next(), flen: c.next(), k: c.next(), dtid: c.next() });
        }
        segs.push(Seg { n, off, vis, claim, frames });
    }
    let mut rig = Rig::new("c05");
    let corr = rig.add_image(tl, init, session, COUNTER_ID, pos0);
    let mut image = rig.image(corr);
    for s in &segs {
        sync_seg(&image, tl, init, session, s, 0);
    }
    let counter = rig.counter(COUNTER_ID);
    let addr = rig.counter_addr(COUNTER_ID);
    let nops = c.next() as usize;
    let mut out: Vec<String> = Vec::new();
    for _ in 0..nops {
        let opcode = c.next();
        let mut frags: Vec<String> = Vec::new();
        BLOCKS.with(|b| b.borrow_mut().clear());
        let ret: String;
        let writes: Vec<i64>;
        match opcode {
            1 => {
                let limit = c.next() as i32;
                let mut h = |b: &AtomicBuffer, o: Index, l: Index, hd: &Header| frags.push(fragment_obs(b, o, l, hd));
                watch_start(addr);
                let r = catch(|| image.poll(&mut h, limit));
                writes = watch_stop();
                ret = fmt_ret(r.map(Ok));
            },
            2 => {
                let bound = c.parg(counter.get());
                let limit = c.next() as i32;
                let h = |b: &AtomicBuffer, o: Index, l: Index, hd: &Header| frags.push(fragment_obs(b, o, l, hd));
                watch_start(addr);
                let r = catch(|| image.bounded_poll(h, bound, limit));
                writes = watch_stop();
                ret = fmt_ret(r.map(Ok));
            },
            3 | 4 | 5 => {
                let cur = counter.get();
                let (p1, p2) = match opcode {
                    3 => (0, c.next()),
                    4 => (c.parg(cur), c.next()),
                    _ => (c.parg(cur), c.parg(cur)),
                };
                let sc = c.script();
                let mut idx = 0usize;
                let h = |b: &AtomicBuffer, o: Index, l: Index, hd: &Header| {
                    frags.push(fragment_obs(b, o, l, hd));
                    let code = sc.get(idx).copied().unwrap_or(4);
                    idx += 1;
                    Ok(action_of(code))
                };
                watch_start(addr);
                match opcode {
                    3 => {
                        let r = catch(|| image.controlled_poll(h, p2 as i32));
                        writes = watch_stop();
                        ret = fmt_ret(r.map(Ok));
                    },
                    4 => {
                        let r = catch(|| image.bounded_controlled_poll(h, p1, p2 as i32));
                        writes = watch_stop();
                        ret = fmt_ret(r.map(Ok));
                    },
                    _ => {
                        let r = catch(|| image.controlled_peek(p1, h, p2));
                        writes = watch_stop();
                        ret = fmt_ret(r);
                    },
                }
            },
            6 => {
                let blimit = c.next() as i32;
                watch_start(addr);
                let r = catch(|| image.block_poll(block_handler, blimit));
                writes = watch_stop();
                frags = BLOCKS.with(|b| b.borrow().clone());
                ret = fmt_ret(r.map(Ok));
            },
            7 => {
                let p = c.parg(counter.get());
                watch_start(addr);
                let r = catch(|| image.set_position(p));
                writes = watch_stop();
                ret = fmt_ret(r.map(|x| x.map(|_| 0)));
            },
            8 => {
                watch_start(addr);
                let r = catch(|| image.close());
                writes = watch_stop();
                ret = fmt_ret(r.map(|_| Ok(0)));
            },
            9 => {
                let si = c.next() as usize;
                let j = c.next() as usize;
                let from = segs[si].vis;
                segs[si].vis = (from + j).min(segs[si].frames.len());
                sync_seg(&image, tl, init, session, &segs[si], from);
                writes = Vec::new();
                ret = "Ok (0)".to_string();
            },
            10 => {
                watch_start(addr);
                let r = catch(|| image.position());
                writes = watch_stop();
                ret = fmt_ret(r.map(Ok));
            },
            other => panic!("unknown case kind opcode {}", other),
        }
        out.push(format!("({}, [{}], {}, {})", ret, frags.join("; "), fmt_list(&writes), counter.get()));
    }
    drop(image);
    rig.remove_image(corr);
    format!("[{}]", out.join("; "))
}

fn main() {
    watch_install();
    vcommon::run_lines(|line| {
        let parts: Vec<&str> = line.split_whitespace().collect();
        let a = vcommon::ints(&parts[1..]);
        match parts[0] {
            "img" => case_img(&a),
            other => panic!("unknown case kind {}", other),
        }
    });
}
