// Detects whether the repository under test carries hook H3 (`Image::create_for_verif`); without it the reader
// thread drives `term_reader::read` through a copy of `Image::poll` kept in this harness.
fn main() {
    println!("cargo:rustc-check-cfg=cfg(verif_h3)");
    println!("cargo:rustc-check-cfg=cfg(unitedtraders_aeron_rs_verif)");
    let toml = std::fs::read_to_string("Cargo.toml").unwrap_or_default();
    let path = toml
        .lines()
        .find(|l| l.trim_start().starts_with("aeron-rs"))
        .and_then(|l| l.split('"').nth(1))
        .unwrap_or("/repo")
        .to_string();
    let img = format!("{}/src/image.rs", path);
    println!("cargo:rerun-if-changed={}", img);
    println!("cargo:rerun-if-changed=Cargo.toml");
    if std::fs::read_to_string(&img).map(|s| s.contains("fn create_for_verif")).unwrap_or(false) {
        println!("cargo:rustc-cfg=verif_h3");
    }
}
