//! C03 harness (started as a copy of harness/c02/src/main.rs, which C02 keeps): several publication handles and a
//! polling image over one in-memory log, run under the deterministic scheduler of `vcommon::sched` (hook H2).
//!
//! One case per line:
//!   run bits=<b> mtu=<m> init=<i> n0=<n> off0=<o> limit=<l> T=<thread> T=<thread> ... S=<t,t,t,...> K=<k|-,...>
//! threads (thread id = position in the line):
//!   P:<budget>:<k>x<len>,<k>x<len>,...   publisher with its own `Publication` handle; offers message k (payload(k,len)),
//!                                        retrying the same message while the result is an error, at most <budget> attempts in all
//!   B:<budget>:<k>x<len>,...             the same publisher going through Publication::offer_bulk (two buffers cut in the middle)
//!   E:<op>,<op>,...                      environment (media driver side): L<v> set the publication limit to v (put_ordered),
//!                                        C<p> zero partition p (set_memory)
//!   R:<polls>:<fragment limit>           subscriber: an `Image` over the same log (hook H3 `Image::create_for_verif` when the
//!                                        repository has it, else a copy of `Image::poll` around the real `term_reader::read`)
//!                                        polled <polls> times; the handler reads the flags byte and the payload (one burst)
//!   X:<budget>:<item>,...               exclusive publisher (`ExclusivePublication`, must be the only publisher of the case);
//!                                        item = <k>x<len> (offer_part of payload(k,len)) or <k>c<len>[F<v>][T<v>][R<v>][a]
//!                                        (try_claim of len bytes, payload(k,len) written into the claim, then the header setters of
//!                                        BufferClaim: F = set_flags(v), T = set_header_type(v), R = set_reserved_value(v), then commit,
//!                                        or abort when the item ends in `a`)
//!   Q:<budget>:<k>x<len>[F<v>][T<v>][R<v>][a],...   shared publisher using Publication::try_claim, same item syntax after the length
//!   V:<fragment limit>:<poll>,<poll>,... subscriber polling with the given flavour each time (needs hook H3):
//!                                        p = poll, b<bound> = bounded_poll(limit_position = bound), c<script> = controlled_poll,
//!                                        d<bound>/<script> = bounded_controlled_poll, k<bound>/<script> = controlled_peek(position(), .., bound)
//!                                        followed by set_position(result) when the result is beyond the position, l<n> = block_poll(n).
//!                                        script = the handler's answers, one letter per fragment handed over: C continue, A abort,
//!                                        B break, M commit (continue once exhausted). The block handler reads the whole block (one burst)
//!                                        and reports every data frame in it as a fragment.
//! S = schedule (thread granted the i-th step), K = crash points (`-` none, k = stop for ever after k granted steps).
//!
//! Observation (Coq term syntax):
//!   (trace, [(Status, [attempt results]); ...], (count, [tail0; tail1; tail2], [words0; words1; words2], limit, subscriber position),
//!    [(tid, term offset of the frame, payload length, flags, [payload bytes]); ...]   fragments handed to the handlers, in order)
//! trace entries: (tid, Kind, region, offset, len, val, val2, before); regions 0..2 terms, 3 log meta data, 4 counter values.
//! `before` (the value the location held) is reported for reads and read-modify-writes only.
use std::ffi::CString;
use std::sync::{Arc, Mutex};

use aeron_rs::concurrent::atomic_buffer::{AlignedBuffer, AtomicBuffer};
use aeron_rs::concurrent::logbuffer::header::Header;
use aeron_rs::concurrent::logbuffer::log_buffer_descriptor as lbd;
use aeron_rs::concurrent::logbuffer::term_reader;
use aeron_rs::utils::types::Index;
use aeron_rs::concurrent::position::{ReadablePosition, UnsafeBufferPosition};
use aeron_rs::concurrent::logbuffer::buffer_claim::BufferClaim;
use aeron_rs::exclusive_publication::ExclusivePublication;
use aeron_rs::publication::Publication;
use aeron_rs::utils::errors::AeronError;
use aeron_rs::verif_hook::AccessKind;
use vcommon::client::{TestClient, TestLog};
use vcommon::sched::{self, Event, Region};

const LIMIT_COUNTER_ID: i32 = 1;
const SUBPOS_COUNTER_ID: i32 = 2;
const SESSION_ID: i32 = 11;
const STREAM_ID: i32 = 22;

struct SendBox<T>(T);
unsafe impl<T> Send for SendBox<T> {}

#[derive(Clone, Debug)]
enum EnvOp {
    Limit(i64),
    Clean(i32),
}

#[derive(Clone, Debug)]
enum ThreadSpec {
    Publisher { budget: usize, msgs: Vec<(i64, i32)>, bulk: bool },
    Env { ops: Vec<EnvOp> },
    Reader { polls: usize, limit: i32 },
    Exclusive { budget: usize, msgs: Vec<Item> },
    Claimer { budget: usize, msgs: Vec<Item> },
    Viewer { limit: i32, polls: Vec<PollSpec> },
}

/// one thing a publisher thread does: offer payload(k, len), or claim len bytes, fill them, use the header setters, commit / abort
#[derive(Clone, Debug)]
struct Item {
    k: i64,
    len: i32,
    claim: bool,
    flags: Option<u8>,
    htype: Option<u16>,
    resv: Option<i64>,
    abort: bool,
}

#[derive(Clone, Debug)]
enum PollSpec {
    Poll,
    Bounded(i64),
    Controlled(Vec<u8>),
    BoundedControlled(i64, Vec<u8>),
    Peek(i64, Vec<u8>),
    Block(i32),
}

fn parse_item(m: &str, always_claim: bool) -> Item {
    // <k>(x|c)<len>[F<v>][T<v>][R<v>][a]
    let abort = m.ends_with('a');
    let m = m.trim_end_matches('a');
    let sep = m.find(|ch| ch == 'x' || ch == 'c').unwrap_or_else(|| panic!("bad int item {}", m));
    let k: i64 = m[..sep].parse().expect("bad int k");
    let claim = always_claim || &m[sep..sep + 1] == "c";
    let rest = &m[sep + 1..];
    let mut fields: Vec<(char, String)> = vec![('L', String::new())];
    for ch in rest.chars() {
        if ch == 'F' || ch == 'T' || ch == 'R' {
            fields.push((ch, String::new()));
        } else {
            fields.last_mut().unwrap().1.push(ch);
        }
    }
    let mut it = Item { k, len: 0, claim, flags: None, htype: None, resv: None, abort };
    for (f, v) in fields {
        let n: i64 = v.parse().expect("bad int field");
        match f {
            'L' => it.len = n as i32,
            'F' => it.flags = Some(n as u8),
            'T' => it.htype = Some(n as u16),
            _ => it.resv = Some(n),
        }
    }
    it
}

fn parse_script(s: &str) -> Vec<u8> {
    s.bytes().collect()
}

fn parse_poll(p: &str) -> PollSpec {
    let (head, rest) = p.split_at(1);
    let bound_script = |r: &str| -> (i64, Vec<u8>) {
        let mut it = r.splitn(2, '/');
        let b: i64 = it.next().unwrap().parse().expect("bad int bound");
        (b, parse_script(it.next().unwrap_or("")))
    };
    match head {
        "p" => PollSpec::Poll,
        "b" => PollSpec::Bounded(rest.parse().expect("bad int bound")),
        "c" => PollSpec::Controlled(parse_script(rest)),
        "d" => {
            let (b, sc) = bound_script(rest);
            PollSpec::BoundedControlled(b, sc)
        }
        "k" => {
            let (b, sc) = bound_script(rest);
            PollSpec::Peek(b, sc)
        }
        "l" => PollSpec::Block(rest.parse().expect("bad int block limit")),
        other => panic!("unknown case kind poll {}", other),
    }
}

#[cfg(verif_h3)]
fn action_of(code: u8) -> aeron_rs::image::ControlledPollAction {
    use aeron_rs::image::ControlledPollAction;
    match code {
        b'A' => ControlledPollAction::Abort,
        b'B' => ControlledPollAction::Break,
        b'M' => ControlledPollAction::Commit,
        _ => ControlledPollAction::Continue,
    }
}

thread_local! {
    /// fragments the block handler (a plain fn) found in the blocks it was given
    static BLOCK_FRAGS: std::cell::RefCell<Vec<String>> = const { std::cell::RefCell::new(Vec::new()) };
    static BLOCK_TID: std::cell::Cell<usize> = const { std::cell::Cell::new(0) };
}

/// The block handler reads the block in one burst and reports every data frame it contains; a frame whose length word is
/// not positive inside a block is reported as it is (negative payload length) - the oracle rejects it.
#[allow(dead_code)]
fn block_handler(buf: &AtomicBuffer, offset: Index, length: Index, _session_id: i32, _term_id: i32) {
    let tid = BLOCK_TID.with(|t| t.get());
    let bytes: Vec<u8> = buf.as_sub_slice(offset, length).to_vec();
    let mut pos: usize = 0;
    while pos + 32 <= bytes.len() {
        let fl = i32::from_le_bytes([bytes[pos], bytes[pos + 1], bytes[pos + 2], bytes[pos + 3]]);
        let flags = bytes[pos + 5];
        let ty = u16::from_le_bytes([bytes[pos + 6], bytes[pos + 7]]);
        if fl < 32 {
            BLOCK_FRAGS.with(|b| b.borrow_mut().push(format!("({}, {}, {}, {}, [])", tid, offset as usize + pos, fl - 32, flags)));
            break;
        }
        let end = (pos + fl as usize).min(bytes.len());
        if ty != 0 {
            let body: Vec<String> = bytes[pos + 32..end].iter().map(|b| b.to_string()).collect();
            BLOCK_FRAGS.with(|b| {
                b.borrow_mut().push(format!("({}, {}, {}, {}, [{}])", tid, offset as usize + pos, fl - 32, flags, body.join("; ")))
            });
        }
        pos += ((fl as usize) + 31) & !31;
    }
}

/// The subscriber side. With hook H3 this is the repository's `Image`; without it, `Image::poll` copied verbatim
/// (position counter, partition selection, `term_reader::read`, ordered position update).
#[cfg(verif_h3)]
struct Sub(aeron_rs::image::Image);
#[cfg(verif_h3)]
impl Sub {
    fn new(log: &TestLog, pos: &UnsafeBufferPosition) -> Self {
        Sub(aeron_rs::image::Image::create_for_verif(
            SESSION_ID,
            7,
            8,
            CString::new("verif").unwrap(),
            pos,
            log.log_buffers.clone(),
            Box::new(|_e: AeronError| {}),
        ))
    }
    fn poll(&mut self, h: &mut impl FnMut(&AtomicBuffer, Index, Index, &Header), limit: i32) -> i32 {
        self.0.poll(h, limit)
    }
}
#[cfg(not(verif_h3))]
struct Sub {
    term_buffers: Vec<AtomicBuffer>,
    subscriber_position: UnsafeBufferPosition,
    header: Header,
    term_length_mask: Index,
    position_bits_to_shift: i32,
}
#[cfg(not(verif_h3))]
impl Sub {
    fn new(log: &TestLog, pos: &UnsafeBufferPosition) -> Self {
        let capacity = log.term(0).capacity();
        Sub {
            term_buffers: (0..3).map(|i| log.term(i)).collect(),
            subscriber_position: pos.clone(),
            header: Header::new(lbd::initial_term_id(&log.meta()), capacity),
            term_length_mask: capacity - 1,
            position_bits_to_shift: capacity.trailing_zeros() as i32,
        }
    }
    fn poll(&mut self, h: &mut impl FnMut(&AtomicBuffer, Index, Index, &Header), limit: i32) -> i32 {
        let position = self.subscriber_position.get();
        let term_offset: Index = (position as Index) & self.term_length_mask;
        let index = lbd::index_by_position(position, self.position_bits_to_shift);
        assert!((0..lbd::PARTITION_COUNT).contains(&index));
        let term_buffer = self.term_buffers[index as usize];
        let read_outcome = term_reader::read(term_buffer, term_offset, h, limit, &mut self.header);
        let new_position = position + (read_outcome.offset - term_offset) as i64;
        if new_position > position {
            self.subscriber_position.set_ordered(new_position);
        }
        read_outcome.fragments_read
    }
}

struct Case {
    bits: i32,
    mtu: i32,
    init: i32,
    n0: i32,
    off0: i32,
    limit: i64,
    threads: Vec<ThreadSpec>,
    schedule: Vec<usize>,
    stops: Vec<Option<usize>>,
}

fn parse_thread(s: &str) -> ThreadSpec {
    let mut it = s.splitn(2, ':');
    let kind = it.next().unwrap();
    let rest = it.next().unwrap_or("");
    match kind {
        "P" | "B" => {
            let mut it2 = rest.splitn(2, ':');
            let budget: usize = it2.next().unwrap().parse().expect("bad int budget");
            let msgs = it2
                .next()
                .unwrap_or("")
                .split(',')
                .filter(|x| !x.is_empty())
                .map(|m| {
                    let mut kv = m.split('x');
                    let k: i64 = kv.next().unwrap().parse().expect("bad int k");
                    let l: i32 = kv.next().unwrap().parse().expect("bad int len");
                    (k, l)
                })
                .collect();
            ThreadSpec::Publisher { budget, msgs, bulk: kind == "B" }
        }
        "E" => {
            let ops = rest
                .split(',')
                .filter(|x| !x.is_empty())
                .map(|o| {
                    let v: i64 = o[1..].parse().expect("bad int env operand");
                    match &o[..1] {
                        "L" => EnvOp::Limit(v),
                        "C" => EnvOp::Clean(v as i32),
                        other => panic!("unknown case kind env op {}", other),
                    }
                })
                .collect();
            ThreadSpec::Env { ops }
        }
        "X" | "Q" => {
            let mut it2 = rest.splitn(2, ':');
            let budget: usize = it2.next().unwrap().parse().expect("bad int budget");
            let msgs = it2.next().unwrap_or("").split(',').filter(|x| !x.is_empty()).map(|m| parse_item(m, kind == "Q")).collect();
            if kind == "X" {
                ThreadSpec::Exclusive { budget, msgs }
            } else {
                ThreadSpec::Claimer { budget, msgs }
            }
        }
        "V" => {
            let mut it2 = rest.splitn(2, ':');
            let limit: i32 = it2.next().unwrap().parse().expect("bad int limit");
            let polls = it2.next().unwrap_or("").split(',').filter(|x| !x.is_empty()).map(parse_poll).collect();
            ThreadSpec::Viewer { limit, polls }
        }
        "R" => {
            let mut it2 = rest.splitn(2, ':');
            let polls: usize = it2.next().unwrap().parse().expect("bad int polls");
            let limit: i32 = it2.next().unwrap_or("10").parse().expect("bad int limit");
            ThreadSpec::Reader { polls, limit }
        }
        other => panic!("unknown case kind thread {}", other),
    }
}

fn parse_case(line: &str) -> Case {
    let mut c = Case { bits: 10, mtu: 256, init: 0, n0: 0, off0: 0, limit: 0, threads: vec![], schedule: vec![], stops: vec![] };
    let mut parts = line.split_whitespace();
    let head = parts.next().unwrap_or("");
    if head != "run" {
        panic!("unknown case kind {}", head);
    }
    for p in parts {
        let (k, v) = p.split_once('=').unwrap_or_else(|| panic!("bad int token {}", p));
        match k {
            "bits" => c.bits = v.parse().expect("bad int"),
            "mtu" => c.mtu = v.parse().expect("bad int"),
            "init" => c.init = v.parse().expect("bad int"),
            "n0" => c.n0 = v.parse().expect("bad int"),
            "off0" => c.off0 = v.parse().expect("bad int"),
            "limit" => c.limit = v.parse().expect("bad int"),
            "T" => c.threads.push(parse_thread(v)),
            "S" => c.schedule = v.split(',').filter(|x| !x.is_empty()).map(|x| x.parse().expect("bad int")).collect(),
            "K" => c.stops = v.split(',').filter(|x| !x.is_empty()).map(|x| if x == "-" { None } else { Some(x.parse().expect("bad int")) }).collect(),
            other => panic!("unknown case kind key {}", other),
        }
    }
    while c.stops.len() < c.threads.len() {
        c.stops.push(None);
    }
    c
}

fn err_obs(e: &AeronError) -> String {
    format!("Err {}", vcommon::err_name(e))
}

fn sx(v: i64, len: usize) -> i64 {
    match len {
        1 => v as u8 as i64,
        2 => v as u16 as i64,
        4 => v as i32 as i64,
        _ => v,
    }
}

fn fmt_event(e: &Event, tl: i64) -> String {
    // a zero-length access at the very end of a partition is reported with the address of the next region
    let (region, offset) = if e.len == 0 && e.offset == 0 && e.region >= 1 && e.region <= 3 {
        (e.region - 1, tl)
    } else {
        (e.region, e.offset)
    };
    let reads = matches!(
        e.kind,
        AccessKind::Get
            | AccessKind::GetVolatile
            | AccessKind::GetAndAddI64
            | AccessKind::CompareAndSetI32
            | AccessKind::CompareAndSetI64
            | AccessKind::ExclRawTail
            | AccessKind::AddI64Ordered
    );
    let (val, val2) = match e.kind {
        AccessKind::CopyFrom | AccessKind::PutBytes | AccessKind::RegionWrite | AccessKind::RegionRead | AccessKind::GetBytes => (0, 0),
        AccessKind::Put | AccessKind::PutOrdered => (sx(e.val, e.len), 0),
        _ => (e.val, e.val2),
    };
    format!(
        "({}, {:?}, {}, {}, {}, {}, {}, {})",
        e.tid,
        e.kind,
        if region == usize::MAX { -1 } else { region as i64 },
        offset,
        e.len,
        val,
        val2,
        if reads { e.before } else { 0 }
    )
}

/// What the claimant does with a successful claim: payload, the header setters the API offers, commit or abort.
fn fill_claim(claim: &mut BufferClaim, it: &Item, bytes: &[u8]) {
    claim.buffer().put_bytes(claim.offset(), bytes);
    if let Some(v) = it.flags {
        claim.set_flags(v);
    }
    if let Some(v) = it.htype {
        claim.set_header_type(v);
    }
    if let Some(v) = it.resv {
        claim.set_reserved_value(v);
    }
    if it.abort {
        claim.abort();
    } else {
        claim.commit();
    }
}

fn run_case(line: &str) -> String {
    let c = parse_case(line);
    let tl: i32 = 1 << c.bits;
    let client = TestClient::new();
    let log = TestLog::new(tl, c.mtu, c.init, c.n0, c.off0, SESSION_ID, STREAM_ID);
    let counters = client.counter_values_buffer();
    let limit = UnsafeBufferPosition::new(counters, LIMIT_COUNTER_ID);
    limit.set(c.limit);
    let subpos = UnsafeBufferPosition::new(counters, SUBPOS_COUNTER_ID);
    subpos.set(c.n0 as i64 * tl as i64 + c.off0 as i64);
    let frags: Arc<Mutex<Vec<String>>> = Arc::new(Mutex::new(Vec::new()));

    let term_base = log.mem.ptr() as usize;
    let regions = vec![
        Region { base: term_base, len: tl as usize },
        Region { base: term_base + tl as usize, len: tl as usize },
        Region { base: term_base + 2 * tl as usize, len: tl as usize },
        Region { base: term_base + 3 * tl as usize, len: lbd::LOG_META_DATA_LENGTH as usize },
        Region { base: client.counter_values.ptr() as usize, len: client.counter_values.len() as usize },
    ];

    let n = c.threads.len();
    let results: Vec<Arc<Mutex<Vec<String>>>> = (0..n).map(|_| Arc::new(Mutex::new(Vec::new()))).collect();
    let mut bodies: Vec<Box<dyn FnOnce() -> String + Send>> = Vec::new();
    for (t, spec) in c.threads.iter().enumerate() {
        let res = results[t].clone();
        match spec.clone() {
            ThreadSpec::Publisher { budget, msgs, bulk } => {
                // each thread has its own publication handle over the same log memory
                let publication = SendBox(Publication::new(
                    client.conductor.clone(),
                    CString::new("aeron:ipc").unwrap(),
                    100 + t as i64,
                    100,
                    STREAM_ID,
                    SESSION_ID,
                    UnsafeBufferPosition::new(counters, LIMIT_COUNTER_ID),
                    -1,
                    log.log_buffers.clone(),
                ));
                bodies.push(Box::new(move || {
                    let mut publication = publication;
                    let mut budget = budget;
                    for (k, len) in msgs {
                        let bytes = vcommon::payload(k, len.max(0) as usize);
                        let src_mem = AlignedBuffer::with_capacity(len.max(8));
                        let src = AtomicBuffer::from_aligned(&src_mem);
                        src.put_bytes(0, &bytes);
                        loop {
                            if budget == 0 {
                                return "Done".to_string();
                            }
                            budget -= 1;
                            // B: the same message through offer_bulk, as two buffers cut in the middle (views of the source)
                            let r = if bulk {
                                let h = len / 2;
                                publication.0.offer_bulk(
                                    vec![src.view(0, h), src.view(h, len - h)],
                                    aeron_rs::concurrent::logbuffer::term_appender::default_reserved_value_supplier,
                                )
                            } else {
                                publication.0.offer_part(src, 0, len)
                            };
                            let ok = r.is_ok();
                            res.lock().unwrap().push(match &r {
                                Ok(p) => format!("Ok ({})", p),
                                Err(e) => err_obs(e),
                            });
                            if ok {
                                break;
                            }
                        }
                    }
                    "Done".to_string()
                }));
            }
            ThreadSpec::Exclusive { budget, msgs } => {
                let publication = SendBox(ExclusivePublication::new(
                    client.conductor.clone(),
                    CString::new("aeron:ipc").unwrap(),
                    100 + t as i64,
                    STREAM_ID,
                    SESSION_ID,
                    UnsafeBufferPosition::new(counters, LIMIT_COUNTER_ID),
                    -1,
                    log.log_buffers.clone(),
                ));
                bodies.push(Box::new(move || {
                    let mut publication = publication;
                    let mut budget = budget;
                    for it in msgs {
                        let bytes = vcommon::payload(it.k, it.len.max(0) as usize);
                        let src_mem = AlignedBuffer::with_capacity(it.len.max(8));
                        let src = AtomicBuffer::from_aligned(&src_mem);
                        src.put_bytes(0, &bytes);
                        loop {
                            if budget == 0 {
                                return "Done".to_string();
                            }
                            budget -= 1;
                            let r = if it.claim {
                                let mut claim = BufferClaim::default();
                                let r = publication.0.try_claim(it.len, &mut claim);
                                if r.is_ok() {
                                    fill_claim(&mut claim, &it, &bytes);
                                }
                                r
                            } else {
                                publication.0.offer_part(src, 0, it.len)
                            };
                            let ok = r.is_ok();
                            res.lock().unwrap().push(match &r {
                                Ok(p) => format!("Ok ({})", p),
                                Err(e) => err_obs(e),
                            });
                            if ok {
                                break;
                            }
                        }
                    }
                    "Done".to_string()
                }));
            }
            ThreadSpec::Claimer { budget, msgs } => {
                let publication = SendBox(Publication::new(
                    client.conductor.clone(),
                    CString::new("aeron:ipc").unwrap(),
                    100 + t as i64,
                    100,
                    STREAM_ID,
                    SESSION_ID,
                    UnsafeBufferPosition::new(counters, LIMIT_COUNTER_ID),
                    -1,
                    log.log_buffers.clone(),
                ));
                bodies.push(Box::new(move || {
                    let mut publication = publication;
                    let mut budget = budget;
                    for it in msgs {
                        let bytes = vcommon::payload(it.k, it.len.max(0) as usize);
                        loop {
                            if budget == 0 {
                                return "Done".to_string();
                            }
                            budget -= 1;
                            let mut claim = BufferClaim::default();
                            let r = publication.0.try_claim(it.len, &mut claim);
                            let ok = r.is_ok();
                            if ok {
                                fill_claim(&mut claim, &it, &bytes);
                            }
                            res.lock().unwrap().push(match &r {
                                Ok(p) => format!("Ok ({})", p),
                                Err(e) => err_obs(e),
                            });
                            if ok {
                                break;
                            }
                        }
                    }
                    "Done".to_string()
                }));
            }
            ThreadSpec::Viewer { limit, polls } => {
                #[cfg(not(verif_h3))]
                {
                    let _ = (limit, polls, &res);
                    panic!("unknown case kind V: the poll flavours need hook H3 (Image::create_for_verif)");
                }
                #[cfg(verif_h3)]
                {
                    let sub = SendBox(Sub::new(&log, &subpos));
                    let frags = frags.clone();
                    bodies.push(Box::new(move || {
                        let mut sub = sub;
                        BLOCK_TID.with(|b| b.set(t));
                        for spec in polls {
                            let calls = std::cell::Cell::new(0usize);
                            let record = |buf: &AtomicBuffer, off: Index, len: Index, hdr: &Header| {
                                let flags = hdr.flags();
                                let bytes: Vec<String> =
                                    if len >= 0 { buf.as_sub_slice(off, len).iter().map(|b| b.to_string()).collect() } else { Vec::new() };
                                frags.lock().unwrap().push(format!("({}, {}, {}, {}, [{}])", t, hdr.term_offset(), len, flags, bytes.join("; ")));
                            };
                            let answer = |script: &Vec<u8>| {
                                let i = calls.get();
                                calls.set(i + 1);
                                Ok(action_of(script.get(i).copied().unwrap_or(b'C')))
                            };
                            let out: String = match &spec {
                                PollSpec::Poll => {
                                    let mut h = |buf: &AtomicBuffer, off: Index, len: Index, hdr: &Header| record(buf, off, len, hdr);
                                    format!("Ok ({})", sub.0 .0.poll(&mut h, limit))
                                }
                                PollSpec::Bounded(bound) => {
                                    let h = |buf: &AtomicBuffer, off: Index, len: Index, hdr: &Header| record(buf, off, len, hdr);
                                    format!("Ok ({})", sub.0 .0.bounded_poll(h, *bound, limit))
                                }
                                PollSpec::Controlled(script) => {
                                    let h = |buf: &AtomicBuffer, off: Index, len: Index, hdr: &Header| {
                                        record(buf, off, len, hdr);
                                        answer(script)
                                    };
                                    format!("Ok ({})", sub.0 .0.controlled_poll(h, limit))
                                }
                                PollSpec::BoundedControlled(bound, script) => {
                                    let h = |buf: &AtomicBuffer, off: Index, len: Index, hdr: &Header| {
                                        record(buf, off, len, hdr);
                                        answer(script)
                                    };
                                    format!("Ok ({})", sub.0 .0.bounded_controlled_poll(h, *bound, limit))
                                }
                                PollSpec::Peek(bound, script) => {
                                    let h = |buf: &AtomicBuffer, off: Index, len: Index, hdr: &Header| {
                                        record(buf, off, len, hdr);
                                        answer(script)
                                    };
                                    let p0 = sub.0 .0.position();
                                    match sub.0 .0.controlled_peek(p0, h, *bound) {
                                        Ok(p) => {
                                            if p > p0 {
                                                let _ = sub.0 .0.set_position(p);
                                            }
                                            format!("Ok ({})", p)
                                        }
                                        Err(e) => err_obs(&e),
                                    }
                                }
                                PollSpec::Block(n) => {
                                    let r = sub.0 .0.block_poll(block_handler, *n);
                                    let mut got = BLOCK_FRAGS.with(|b| std::mem::take(&mut *b.borrow_mut()));
                                    frags.lock().unwrap().append(&mut got);
                                    format!("Ok ({})", r)
                                }
                            };
                            res.lock().unwrap().push(out);
                        }
                        "Done".to_string()
                    }));
                }
            }
            ThreadSpec::Reader { polls, limit } => {
                let sub = SendBox(Sub::new(&log, &subpos));
                let frags = frags.clone();
                bodies.push(Box::new(move || {
                    let mut sub = sub;
                    for _ in 0..polls {
                        let mut handler = |buf: &AtomicBuffer, off: Index, len: Index, hdr: &Header| {
                            let flags = hdr.flags();
                            let bytes: Vec<String> = buf.as_sub_slice(off, len).iter().map(|b| b.to_string()).collect();
                            frags.lock().unwrap().push(format!("({}, {}, {}, {}, [{}])", t, hdr.term_offset(), len, flags, bytes.join("; ")));
                        };
                        let n = sub.0.poll(&mut handler, limit);
                        res.lock().unwrap().push(format!("Ok ({})", n));
                    }
                    "Done".to_string()
                }));
            }
            ThreadSpec::Env { ops } => {
                let lim = SendBox(UnsafeBufferPosition::new(counters, LIMIT_COUNTER_ID));
                let terms = SendBox([log.term(0), log.term(1), log.term(2)]);
                bodies.push(Box::new(move || {
                    let lim = lim;
                    let terms = terms;
                    for op in ops {
                        match op {
                            EnvOp::Limit(v) => lim.0.set_ordered(v),
                            EnvOp::Clean(p) => {
                                let b = terms.0[p as usize];
                                b.set_memory(0, b.capacity(), 0)
                            }
                        }
                    }
                    "Done".to_string()
                }));
            }
        }
    }

    let rr = sched::run(regions, bodies, &c.schedule, &c.stops);
    let trace: Vec<String> = rr.trace.iter().map(|e| fmt_event(e, tl as i64)).collect();
    let mut threads_obs = Vec::new();
    for t in 0..n {
        let status = if rr.panicked[t] {
            "Panicked"
        } else if rr.results[t].is_some() {
            "Done"
        } else {
            "Stopped"
        };
        let mut rs = results[t].lock().unwrap_or_else(|e| e.into_inner());
        if rr.panicked[t] {
            rs.push("Panic".to_string()); // the attempt that was running when the thread's own code panicked
        }
        threads_obs.push(format!("({}, [{}])", status, rs.join("; ")));
    }
    let dump = format!(
        "({}, [{}; {}; {}], [{}; {}; {}], {}, {})",
        log.active_term_count(),
        log.raw_tail(0),
        log.raw_tail(1),
        log.raw_tail(2),
        vcommon::sparse_words(&log.term(0)),
        vcommon::sparse_words(&log.term(1)),
        vcommon::sparse_words(&log.term(2)),
        limit.get(),
        subpos.get()
    );
    let fr = frags.lock().unwrap_or_else(|e| e.into_inner());
    format!("([{}], [{}], {}, [{}])", trace.join("; "), threads_obs.join("; "), dump, fr.join("; "))
}

pub fn main() {
    vcommon::run_lines(run_case);
}
