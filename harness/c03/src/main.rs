//! C03 harness: the scheduled-run harness of harness/c02 (publishers, environment, polling subscriber, crash points).
#[path = "../../c02/src/main.rs"]
mod harness;

fn main() {
    harness::main()
}
