//! In-process client for the conductor timing / image life-cycle harnesses (C11, C12):
//! real ring, broadcast and counters buffers, the clock `vcommon::client::CLOCK_MS`,
//! configurable timeouts, recording handlers, and the media driver's side of the protocol
//! (events through a real `BroadcastTransmitter`, heartbeat in the ring trailer, counters
//! meta data written directly).  Shared by harness/c11 and harness/c12 (`#[path]` include).
#![allow(dead_code)]

use std::sync::atomic::Ordering;
use std::sync::{Arc, Mutex};

use aeron_rs::client_conductor::ClientConductor;
use aeron_rs::concurrent::atomic_buffer::{AlignedBuffer, AtomicBuffer};
use aeron_rs::concurrent::broadcast::broadcast_receiver::BroadcastReceiver;
use aeron_rs::concurrent::broadcast::broadcast_transmitter::BroadcastTransmitter;
use aeron_rs::concurrent::broadcast::copy_broadcast_receiver::CopyBroadcastReceiver;
use aeron_rs::concurrent::counters::{self, CountersReader};
use aeron_rs::concurrent::ring_buffer::ManyToOneRingBuffer;
use aeron_rs::driver_proxy::DriverProxy;
use aeron_rs::utils::errors::{AeronError, DriverInteractionError, GenericError};
use vcommon::client::{test_clock, CLOCK_MS};

/// What the handlers saw, in order: 0 = close-client handler, 1.. = error handler (see `err_code`).
pub static LOG: Mutex<Vec<i64>> = Mutex::new(Vec::new());

pub const E_SERVICE_TIMEOUT: i64 = 1;
pub const E_DRIVER_WAS_INACTIVE: i64 = 2;
pub const E_HEARTBEAT_NOT_ACTIVE: i64 = 3;
pub const E_DRIVER_INACTIVE: i64 = 4;
pub const E_CLIENT_TIMEOUT: i64 = 5;
pub const E_OTHER: i64 = 9;

pub fn err_code(e: &AeronError) -> i64 {
    match e {
        AeronError::Generic(GenericError::TimeoutBetweenServiceCallsOverTimeout(_)) => E_SERVICE_TIMEOUT,
        AeronError::DriverTimeout(DriverInteractionError::WasInactive(_)) => E_DRIVER_WAS_INACTIVE,
        AeronError::Generic(GenericError::ClientHeartbeatNotActive) => E_HEARTBEAT_NOT_ACTIVE,
        AeronError::DriverTimeout(DriverInteractionError::Inactive) => E_DRIVER_INACTIVE,
        AeronError::ClientTimeoutException => E_CLIENT_TIMEOUT,
        _ => E_OTHER,
    }
}

pub fn take_log() -> Vec<i64> {
    std::mem::take(&mut *LOG.lock().unwrap_or_else(|e| e.into_inner()))
}

fn push_log(v: i64) {
    LOG.lock().unwrap_or_else(|e| e.into_inner()).push(v);
}

fn on_new_publication_handler(_c: std::ffi::CString, _s: i32, _se: i32, _co: i64) {}
fn on_new_subscription_handler(_c: std::ffi::CString, _s: i32, _co: i64) {}
fn error_handler(e: AeronError) {
    push_log(err_code(&e));
}
fn on_counter_handler(_r: &CountersReader, _reg: i64, _id: i32) {}
fn on_close_handler() {
    push_log(0);
}

pub fn set_clock(ms: u64) {
    CLOCK_MS.store(ms, Ordering::SeqCst);
}

pub struct Client {
    pub conductor: Arc<Mutex<ClientConductor>>,
    pub to_driver: AlignedBuffer,
    pub to_clients: AlignedBuffer,
    pub counter_metadata: AlignedBuffer,
    pub counter_values: AlignedBuffer,
    pub ring: Arc<ManyToOneRingBuffer>,
    pub transmitter: BroadcastTransmitter,
    pub scratch: AlignedBuffer,
    pub client_id: i64,
}

impl Client {
    /// The clock must have been set (`set_clock`) to the construction time before this is called.
    /// `client_id` is the value the ring's correlation counter is advanced to before the proxy takes its id.
    pub fn new(driver_timeout_ms: u64, linger_ms: u64, inter_service_ns: u64, client_id: i64) -> Self {
        let to_driver = AlignedBuffer::with_capacity(1024 * 64 + aeron_rs::concurrent::ring_buffer::TRAILER_LENGTH);
        let to_clients =
            AlignedBuffer::with_capacity(1024 * 64 + aeron_rs::concurrent::broadcast::broadcast_buffer_descriptor::TRAILER_LENGTH);
        let counter_metadata = AlignedBuffer::with_capacity(512 * 64);
        let counter_values = AlignedBuffer::with_capacity(128 * 64);
        let ring = Arc::new(ManyToOneRingBuffer::new(AtomicBuffer::from_aligned(&to_driver)).expect("ring"));
        // the driver's 64-bit correlation counter (ring trailer) stands at `client_id` when the client connects: small values are counted
        // up as before, large ones (2^31, 2^32+5, 2^40 ...: a long lived driver) are written into the trailer directly
        if client_id >= 0 && client_id <= 4096 {
            for _ in 0..client_id {
                ring.next_correlation_id();
            }
        } else {
            AtomicBuffer::from_aligned(&to_driver)
                .put::<i64>(1024 * 64 + aeron_rs::concurrent::ring_buffer::CORRELATION_COUNTER_OFFSET, client_id);
        }
        let receiver = Arc::new(Mutex::new(BroadcastReceiver::new(AtomicBuffer::from_aligned(&to_clients)).expect("bcast")));
        let transmitter = BroadcastTransmitter::new(AtomicBuffer::from_aligned(&to_clients)).expect("transmitter");
        let proxy = Arc::new(DriverProxy::new(ring.clone()));
        let got_id = proxy.client_id();
        assert_eq!(got_id, client_id);
        let copy_receiver = Arc::new(Mutex::new(CopyBroadcastReceiver::new(receiver)));
        let conductor = ClientConductor::new(
            test_clock,
            proxy,
            copy_receiver,
            AtomicBuffer::from_aligned(&counter_metadata),
            AtomicBuffer::from_aligned(&counter_values),
            Box::new(on_new_publication_handler),
            Box::new(on_new_publication_handler),
            Box::new(on_new_subscription_handler),
            Box::new(error_handler),
            Box::new(on_counter_handler),
            Box::new(on_counter_handler),
            Box::new(on_close_handler),
            driver_timeout_ms,
            linger_ms,
            inter_service_ns,
            false,
        );
        let scratch = AlignedBuffer::with_capacity(4096);
        Self { conductor, to_driver, to_clients, counter_metadata, counter_values, ring, transmitter, scratch, client_id }
    }

    pub fn set_driver_heartbeat(&self, t: i64) {
        self.ring.set_consumer_heartbeat_time(t);
    }

    /// Counter meta data record `id`: state, type id, first 8 key bytes (the registration id).
    pub fn set_counter_record(&self, id: i32, state: i32, type_id: i32, key: i64) {
        let md = AtomicBuffer::from_aligned(&self.counter_metadata);
        let off = CountersReader::metadata_offset(id);
        md.put::<i32>(off + *counters::TYPE_ID_OFFSET, type_id);
        md.put::<i64>(off + *counters::KEY_OFFSET, key);
        md.put_ordered::<i32>(off, state);
    }

    pub fn counter_value(&self, id: i32) -> i64 {
        AtomicBuffer::from_aligned(&self.counter_values).get_volatile::<i64>(CountersReader::counter_offset(id))
    }

    pub fn set_counter_value(&self, id: i32, v: i64) {
        AtomicBuffer::from_aligned(&self.counter_values).put_ordered::<i64>(CountersReader::counter_offset(id), v)
    }

    fn transmit(&mut self, type_id: i32, len: i32) {
        let b = AtomicBuffer::from_aligned(&self.scratch);
        self.transmitter.transmit(type_id, &b, 0, len).expect("transmit");
    }

    fn put_str(b: &AtomicBuffer, off: i32, s: &[u8]) -> i32 {
        b.put::<i32>(off, s.len() as i32);
        b.put_bytes(off + 4, s);
        // position after the string, aligned to 4
        off + 4 + ((s.len() as i32 + 3) & !3)
    }

    /// ON_ERROR (0xF01): offending correlation id, error code, message
    pub fn send_error_response(&mut self, offending_id: i64, code: i32, msg: &str) {
        let b = AtomicBuffer::from_aligned(&self.scratch);
        b.put::<i64>(0, offending_id);
        b.put::<i32>(8, code);
        let end = Self::put_str(&b, 12, msg.as_bytes());
        self.transmit(0xF01, end);
    }

    /// ON_SUBSCRIPTION_READY (0xF07)
    pub fn send_subscription_ready(&mut self, correlation_id: i64, channel_status_id: i32) {
        let b = AtomicBuffer::from_aligned(&self.scratch);
        b.put::<i64>(0, correlation_id);
        b.put::<i32>(8, channel_status_id);
        self.transmit(0xF07, 12);
    }

    /// ON_PUBLICATION_READY (0xF03) / ON_EXCLUSIVE_PUBLICATION_READY (0xF06)
    #[allow(clippy::too_many_arguments)]
    pub fn send_publication_ready(
        &mut self,
        exclusive: bool,
        correlation_id: i64,
        registration_id: i64,
        session_id: i32,
        stream_id: i32,
        limit_counter_id: i32,
        status_id: i32,
        log_file: &str,
    ) {
        let b = AtomicBuffer::from_aligned(&self.scratch);
        b.put::<i64>(0, correlation_id);
        b.put::<i64>(8, registration_id);
        b.put::<i32>(16, session_id);
        b.put::<i32>(20, stream_id);
        b.put::<i32>(24, limit_counter_id);
        b.put::<i32>(28, status_id);
        let end = Self::put_str(&b, 32, log_file.as_bytes());
        self.transmit(if exclusive { 0xF06 } else { 0xF03 }, end);
    }

    /// ON_AVAILABLE_IMAGE (0xF02)
    pub fn send_available_image(
        &mut self,
        correlation_id: i64,
        session_id: i32,
        stream_id: i32,
        subscription_registration_id: i64,
        subscriber_position_id: i32,
        log_file: &str,
        source_identity: &str,
    ) {
        let b = AtomicBuffer::from_aligned(&self.scratch);
        b.put::<i64>(0, correlation_id);
        b.put::<i32>(8, session_id);
        b.put::<i32>(12, stream_id);
        b.put::<i64>(16, subscription_registration_id);
        b.put::<i32>(24, subscriber_position_id);
        let next = Self::put_str(&b, 28, log_file.as_bytes());
        let end = Self::put_str(&b, next, source_identity.as_bytes());
        self.transmit(0xF02, end);
    }

    /// ON_UNAVAILABLE_IMAGE (0xF05)
    pub fn send_unavailable_image(&mut self, correlation_id: i64, subscription_registration_id: i64, stream_id: i32, channel: &str) {
        let b = AtomicBuffer::from_aligned(&self.scratch);
        b.put::<i64>(0, correlation_id);
        b.put::<i64>(8, subscription_registration_id);
        b.put::<i32>(16, stream_id);
        let end = Self::put_str(&b, 20, channel.as_bytes());
        self.transmit(0xF05, end);
    }

    /// ON_CLIENT_TIMEOUT (0xF0A)
    pub fn send_client_timeout(&mut self, client_id: i64) {
        let b = AtomicBuffer::from_aligned(&self.scratch);
        b.put::<i64>(0, client_id);
        self.transmit(0xF0A, 8);
    }
}
