//! C11 harness: liveness timing of the client conductor.
//!
//! One case per line:
//!   run <driver_timeout_ms> <linger_ms> <inter_service_ns> <t0> <client_id> | <op> ; <op> ; ...
//! ops:
//!   C <now> <hb> <s0> <t0> <k0> <s1> <t1> <k1> <s2> <t2> <k2> <s3> <t3> <k3> <ev> <evid> <evcode>
//!        one duty cycle (`do_work`) at clock `now` with the driver's heartbeat `hb` in the ring trailer,
//!        counters meta data records 0..3 = (state, type id, key), and (ev = 1) an ON_ERROR event
//!        for correlation id `evid` with code `evcode` transmitted before the cycle
//!   A <kind> <now>        add_publication / add_exclusive_publication / add_subscription / add_counter /
//!                         add_destination (kind 0..4) / remove_destination / add_rcv_destination / remove_rcv_destination
//!                         (kinds 5..7: destination requests like kind 4) at clock `now`
//!   F <kind> <id> <now>   find_publication / find_exclusive_publication / find_subscription / find_counter /
//!                         find_destination_response; kind 1 goes through the hook
//!                         ClientConductor::find_exclusive_publication_for_verif (hooks/cond-find-exclusive.diff) and is
//!                         not generated while the repository lacks it
//! observation: `[OCycle (Ok (n)) [log] active closed [v0; v1; v2; v3]; OApi (Ok (id)); ...]`, ending in `OPanic`
//! when an operation panicked (the conductor mutex is poisoned from then on).
mod client;

use aeron_rs::concurrent::agent_runner::Agent;
use aeron_rs::utils::errors::{AeronError, DriverInteractionError, GenericError};
use client::{set_clock, take_log, Client};
use std::ffi::CString;
use vcommon::{catch, fmt_list};

pub fn api_err(e: &AeronError) -> String {
    match e {
        AeronError::PublicationNotReady(_) | AeronError::SubscriptionNotReady(_) => "NotReady".into(),
        AeronError::Generic(GenericError::CounterNotReadyYet { .. })
        | AeronError::Generic(GenericError::ExclusivePublicationNotReadyYet { .. }) => "NotReady".into(),
        AeronError::Generic(GenericError::PublicationNotFound)
        | AeronError::Generic(GenericError::SubscriptionNotFound)
        | AeronError::Generic(GenericError::CounterNotFound)
        | AeronError::Generic(GenericError::ExclusivePublicationNotFound)
        | AeronError::Generic(GenericError::UnknownCorrelationId(_)) => "NotFound".into(),
        AeronError::Generic(GenericError::ClientConductorClosed) => "Closed".into(),
        AeronError::DriverTimeout(DriverInteractionError::NoResponse(_)) => "NoResponse".into(),
        AeronError::DriverTimeout(DriverInteractionError::Inactive) => "DriverInactive".into(),
        AeronError::RegistrationException(code, _) => format!("(Registration ({}))", code),
        _ => "OtherErr".into(),
    }
}

fn api_obs(r: Result<Result<i64, AeronError>, ()>) -> Option<String> {
    match r {
        Ok(Ok(v)) => Some(format!("OApi (Ok ({}))", v)),
        Ok(Err(e)) => Some(format!("OApi (Err {})", api_err(&e))),
        Err(()) => None,
    }
}

fn run_case(line: &str) -> String {
    let (head, body) = line.split_once('|').expect("case needs '|'");
    let h: Vec<&str> = head.split_whitespace().collect();
    assert_eq!(h[0], "run");
    let p: Vec<u64> = h[1..5].iter().map(|x| x.parse::<u64>().expect("u64")).collect();
    let cid: i64 = h[5].parse().expect("cid");
    set_clock(p[3]);
    take_log();
    let mut c = Client::new(p[0], p[1], p[2], cid);
    let mut out: Vec<String> = Vec::new();
    for op in body.split(';') {
        let t: Vec<&str> = op.split_whitespace().collect();
        if t.is_empty() {
            continue;
        }
        let obs: Option<String> = match t[0] {
            "C" => {
                let now: u64 = t[1].parse().expect("now");
                let a: Vec<i64> = t[2..].iter().map(|x| x.parse::<i64>().expect("int")).collect();
                c.set_driver_heartbeat(a[0]);
                for i in 0..4 {
                    c.set_counter_record(i as i32, a[1 + 3 * i] as i32, a[2 + 3 * i] as i32, a[3 + 3 * i]);
                }
                if a[13] == 1 {
                    c.send_error_response(a[14], a[15] as i32, "refused");
                }
                set_clock(now);
                let conductor = c.conductor.clone();
                let r = catch(move || {
                    let mut g = conductor.lock().map_err(|_| ()).expect("poisoned");
                    let r = g.do_work();
                    let active = g.verify_driver_is_active().is_ok();
                    let closed = g.is_closed();
                    (r, active, closed)
                });
                match r {
                    Ok((r, active, closed)) => {
                        let res = match r {
                            Ok(n) => format!("(Ok ({}))", n),
                            Err(e) => format!("(Err {})", api_err(&e)),
                        };
                        let vals: Vec<i64> = (0..4).map(|i| c.counter_value(i)).collect();
                        Some(format!(
                            "OCycle {} {} {} {} {}",
                            res,
                            fmt_list(&take_log()),
                            active as i32,
                            closed as i32,
                            fmt_list(&vals)
                        ))
                    },
                    Err(()) => None,
                }
            },
            "A" => {
                let kind: i64 = t[1].parse().expect("kind");
                let now: u64 = t[2].parse().expect("now");
                set_clock(now);
                let conductor = c.conductor.clone();
                let r = catch(move || {
                    let mut g = conductor.lock().map_err(|_| ()).expect("poisoned");
                    let ch = CString::new("aeron:ipc").unwrap();
                    match kind {
                        0 => g.add_publication(ch, 10),
                        1 => g.add_exclusive_publication(ch, 10),
                        2 => g.add_subscription(ch, 10, Box::new(|_i: &aeron_rs::image::Image| {}), Box::new(|_i: &aeron_rs::image::Image| {})),
                        3 => g.add_counter(102, &[1, 2, 3], "lbl"),
                        4 => g.add_destination(1, ch),
                        5 => g.remove_destination(1, ch),
                        6 => g.add_rcv_destination(1, ch),
                        7 => g.remove_rcv_destination(1, ch),
                        _ => panic!("kind"),
                    }
                });
                api_obs(r)
            },
            "F" => {
                let kind: i64 = t[1].parse().expect("kind");
                let id: i64 = t[2].parse().expect("id");
                let now: u64 = t[3].parse().expect("now");
                set_clock(now);
                let conductor = c.conductor.clone();
                let r = catch(move || {
                    let mut g = conductor.lock().map_err(|_| ()).expect("poisoned");
                    match kind {
                        0 => g.find_publication(id).map(|_| 1),
                        #[cfg(verif_find_excl)]
                        1 => g.find_exclusive_publication_for_verif(id).map(|_| 1),
                        2 => g.find_subscription(id).map(|_| 1),
                        3 => g.find_counter(id).map(|_| 1),
                        4 => g.find_destination_response(id).map(|b| b as i64),
                        _ => panic!("kind"),
                    }
                });
                api_obs(r)
            },
            other => panic!("unknown case kind {}", other),
        };
        match obs {
            Some(o) => out.push(o),
            None => {
                out.push("OPanic".to_string());
                break;
            },
        }
    }
    take_log();
    format!("[{}]", out.join("; "))
}

fn main() {
    vcommon::run_lines(|line| run_case(line));
}
