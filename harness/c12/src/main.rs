//! C12 harness: image life-cycle and life-time of log-buffer mappings.
//!
//! One case per line:
//!   run <linger_ms> <t0> <client_id> | <op> ; <op> ; ...
//! ops (clock values in ms; every duty cycle is run with a fresh driver heartbeat):
//!   S <now>                     add_subscription; ON_SUBSCRIPTION_READY + do_work; find_subscription (handle kept)
//!   P <now> <share> <file>      add_publication; ON_PUBLICATION_READY (original registration id = share, own id when < 0,
//!                               log file <file>) + do_work; find_publication (handle kept)
//!   A <now> <corr> <reg> <file> ON_AVAILABLE_IMAGE + do_work
//!   U <now> <corr> <reg>        ON_UNAVAILABLE_IMAGE + do_work
//!   T <now>                     do_work without event
//!   DS <now> <reg>              drop the subscription handle
//!   DP <now> <reg>              drop the publication handle
//!   H <reg> <idx>               keep a clone of images()[idx] of a subscription
//!   UH <j>                      drop the j-th kept clone
//!   E <now>                     ON_ERROR with error code 4 (channel endpoint error) for channel status indicator 5 - the one every
//!                               subscription of this harness is registered on (publications: 2) - + do_work
//!   X <now>                     Agent::on_close
//!   ST                          the driver stalls: the harness fills the to-driver ring with keep-alive commands until it refuses
//!                               even the smallest one; nothing is drained until DR
//!   DR                          the driver consumes the whole ring
//! observation per op:
//!   OStep <result> [(kind, reg, corr, closed); ..callbacks of this op..] [(reg, [(corr, closed); ..]); ..held subscriptions..]
//!         [..file ids mapped according to /proc/self/maps..] [..kept clones: 0 open, 1 closed and silent, 2+f closed but poll flavour f
//!         (0 poll, 1 bounded_poll, 2 controlled_poll, 3 bounded_controlled_poll, 4 controlled_peek, 5 block_poll) still delivered a
//!         fragment / block or moved the subscriber position..]
//! Every log file holds one committed, unread data frame at the position the images join at, so a poll that ignores the closed
//! flag has something to deliver; a closed ("no longer polled") image is polled with every flavour after every operation.
//! `OPanic` ends the history (the conductor mutex is poisoned).
#[path = "../../c11/src/client.rs"]
mod client;

use aeron_rs::concurrent::agent_runner::Agent;
use aeron_rs::concurrent::atomic_buffer::AtomicBuffer;
use aeron_rs::concurrent::logbuffer::log_buffer_descriptor as lbd;
use aeron_rs::image::{ControlledPollAction, Image};
use aeron_rs::publication::Publication;
use aeron_rs::subscription::Subscription;
use aeron_rs::utils::errors::{AeronError, GenericError};
use aeron_rs::utils::memory_mapped_file::MemoryMappedFile;
use client::{set_clock, take_log, Client};
use std::ffi::CString;
use std::sync::atomic::{AtomicU64, Ordering};
use std::sync::{Arc, Mutex};
use vcommon::catch;

static CALLBACKS: Mutex<Vec<(i64, i64, i64, i64)>> = Mutex::new(Vec::new());
static CASE_NO: AtomicU64 = AtomicU64::new(0);

fn on_available(i: &Image) {
    CALLBACKS.lock().unwrap_or_else(|e| e.into_inner()).push((
        1,
        i.subscription_registration_id(),
        i.correlation_id(),
        i.is_closed() as i64,
    ));
}
fn on_unavailable(i: &Image) {
    CALLBACKS.lock().unwrap_or_else(|e| e.into_inner()).push((
        2,
        i.subscription_registration_id(),
        i.correlation_id(),
        i.is_closed() as i64,
    ));
}
fn take_callbacks() -> Vec<(i64, i64, i64, i64)> {
    let mut v = std::mem::take(&mut *CALLBACKS.lock().unwrap_or_else(|e| e.into_inner()));
    // callbacks of different subscriptions inside one conductor call come in HashMap order: order by subscription, stably
    v.sort_by_key(|c| c.1);
    v
}

struct Files {
    dir: std::path::PathBuf,
    names: Vec<String>,
}

impl Files {
    fn new() -> Self {
        let n = CASE_NO.fetch_add(1, Ordering::SeqCst);
        let base = if std::path::Path::new("/dev/shm").is_dir() { std::path::PathBuf::from("/dev/shm") } else { std::env::temp_dir() };
        if n == 0 {
            // scratch directories of harness processes that died (crash / hang kill) are removed by the next process
            if let Ok(rd) = std::fs::read_dir(&base) {
                for e in rd.flatten() {
                    let name = e.file_name().to_string_lossy().to_string();
                    if let Some(rest) = name.strip_prefix("verif-c12-") {
                        if let Some(pid) = rest.split('-').next() {
                            if !std::path::Path::new(&format!("/proc/{}", pid)).exists() {
                                let _ = std::fs::remove_dir_all(e.path());
                            }
                        }
                    }
                }
            }
        }
        let dir = base.join(format!("verif-c12-{}-{}", std::process::id(), n));
        std::fs::create_dir_all(&dir).expect("tmp dir");
        let term = lbd::TERM_MIN_LENGTH;
        let len = term * 3 + lbd::LOG_META_DATA_LENGTH;
        let mut names = Vec::new();
        for f in 0..4 {
            let p = dir.join(format!("log-{}.logbuffer", f));
            let name = p.to_string_lossy().to_string();
            {
                let m = MemoryMappedFile::create_new(name.clone(), 0, len).expect("create log");
                let md = m.atomic_buffer(len - lbd::LOG_META_DATA_LENGTH, lbd::LOG_META_DATA_LENGTH);
                md.put::<i32>(*lbd::LOG_TERM_LENGTH_OFFSET, term);
                md.put::<i32>(*lbd::LOG_PAGE_SIZE_OFFSET, lbd::AERON_PAGE_MIN_SIZE);
                md.put::<i32>(*lbd::LOG_MTU_LENGTH_OFFSET, 1408);
                md.put::<i32>(*lbd::LOG_INITIAL_TERM_ID_OFFSET, 7);
                // one committed data frame (32-byte header + 32 bytes) at offset 0 of the first term: session 300, stream 10, term id 7
                let t0 = m.atomic_buffer(0, term);
                t0.put::<u8>(4, 0);
                t0.put::<u8>(5, 0xC0);
                t0.put::<u16>(6, 1);
                t0.put::<i32>(8, 0);
                t0.put::<i32>(12, 300);
                t0.put::<i32>(16, 10);
                t0.put::<i32>(20, 7);
                t0.put_ordered::<i32>(0, 64);
            } // unmapped again here
            names.push(name);
        }
        Self { dir, names }
    }

    fn mapped(&self) -> Vec<i64> {
        let maps = std::fs::read_to_string("/proc/self/maps").expect("maps");
        (0..4).filter(|f| maps.contains(&self.names[*f as usize])).collect()
    }
}

impl Drop for Files {
    fn drop(&mut self) {
        let _ = std::fs::remove_dir_all(&self.dir);
    }
}

fn api_err(e: &AeronError) -> String {
    match e {
        AeronError::Generic(GenericError::ClientConductorClosed) => "Closed".into(),
        AeronError::DriverTimeout(_) => "DriverInactive".into(),
        AeronError::PublicationNotReady(_) | AeronError::SubscriptionNotReady(_) => "NotReady".into(),
        AeronError::IllegalState(_) => "IllegalState".into(),
        _ => "OtherErr".into(),
    }
}

static BLOCKS: AtomicU64 = AtomicU64::new(0);
fn on_block(_b: &AtomicBuffer, _offset: i32, _length: i32, _session: i32, _term: i32) {
    BLOCKS.fetch_add(1, Ordering::SeqCst);
}

/// A closed image is "no longer polled": every poll flavour must deliver nothing and leave the subscriber position alone.
/// Returns 1 when that is so, otherwise 2 + the index of the first flavour that delivered or moved the position.
fn poll_closed(img: &Image, c: &Client) -> i32 {
    let mut i = img.clone();
    let pos_of = |i: &Image| c.counter_value(i.subscriber_position_id());
    let before = pos_of(&i);
    let mut n = 0u64;
    for f in 0..6 {
        let delivered: i64 = match f {
            0 => i.poll(&mut |_b: &AtomicBuffer, _o, _l, _h| n += 1, 10) as i64,
            1 => i.bounded_poll(|_b: &AtomicBuffer, _o, _l, _h| n += 1, i64::MAX, 10) as i64,
            2 => i.controlled_poll(|_b: &AtomicBuffer, _o, _l, _h| { n += 1; Ok(ControlledPollAction::Continue) }, 10) as i64,
            3 => i.bounded_controlled_poll(|_b: &AtomicBuffer, _o, _l, _h| { n += 1; Ok(ControlledPollAction::Continue) }, i64::MAX, 10) as i64,
            4 => {
                let r = i.controlled_peek(before, |_b: &AtomicBuffer, _o, _l, _h| { n += 1; Ok(ControlledPollAction::Continue) }, i64::MAX);
                match r {
                    Ok(p) => p - before,
                    Err(_) => 0,
                }
            },
            _ => {
                let b0 = BLOCKS.load(Ordering::SeqCst);
                let r = i.block_poll(on_block, 4096) as i64;
                r + (BLOCKS.load(Ordering::SeqCst) - b0) as i64
            },
        };
        if delivered != 0 || n != 0 || pos_of(&i) != before {
            return 2 + f;
        }
    }
    1
}

struct World {
    c: Client,
    files: Files,
    subs: Vec<(i64, Arc<Mutex<Subscription>>)>,
    pubs: Vec<(i64, Arc<Mutex<Publication>>)>,
    clones: Vec<Image>,
}

impl World {
    /// one duty cycle at `now` with a live driver; Err(()) on panic
    fn cycle(&mut self, now: u64) -> Result<(), ()> {
        set_clock(now);
        self.c.set_driver_heartbeat(now as i64);
        let conductor = self.c.conductor.clone();
        catch(move || {
            let mut g = conductor.lock().map_err(|_| ()).expect("poisoned");
            g.do_work().map(|_| ()).map_err(|e| format!("{:?}", e)).expect("do_work");
        })
    }

    fn snapshot(&self, result: String) -> String {
        let cbs: Vec<String> = take_callbacks().iter().map(|c| format!("({}, {}, {}, {})", c.0, c.1, c.2, c.3)).collect();
        let views: Vec<String> = self
            .subs
            .iter()
            .map(|(reg, s)| {
                let g = s.lock().unwrap_or_else(|e| e.into_inner());
                let imgs: Vec<String> = g.images().iter().map(|i| format!("({}, {})", i.correlation_id(), i.is_closed() as i32)).collect();
                format!("({}, [{}])", reg, imgs.join("; "))
            })
            .collect();
        let maps: Vec<String> = self.files.mapped().iter().map(|f| f.to_string()).collect();
        let held: Vec<String> = self
            .clones
            .iter()
            .map(|i| if i.is_closed() { catch(|| poll_closed(i, &self.c)).unwrap_or(9) } else { 0 }.to_string())
            .collect();
        format!("OStep {} [{}] [{}] [{}] [{}]", result, cbs.join("; "), views.join("; "), maps.join("; "), held.join("; "))
    }
}

fn run_case(line: &str) -> String {
    let (head, body) = line.split_once('|').expect("case needs '|'");
    let h: Vec<&str> = head.split_whitespace().collect();
    assert_eq!(h[0], "run");
    let linger: u64 = h[1].parse().expect("linger");
    let t0: u64 = h[2].parse().expect("t0");
    let cid: i64 = h[3].parse().expect("cid");
    set_clock(t0);
    take_log();
    take_callbacks();
    let files = Files::new();
    // inter-service timeout 10^18 ns = 10^12 ms: never reached by the clocks used here
    let c = Client::new(10_000, linger, 1_000_000_000_000_000_000, cid);
    c.set_driver_heartbeat(t0 as i64);
    let mut w = World { c, files, subs: Vec::new(), pubs: Vec::new(), clones: Vec::new() };
    let mut out: Vec<String> = Vec::new();
    for op in body.split(';') {
        let t: Vec<&str> = op.split_whitespace().collect();
        if t.is_empty() {
            continue;
        }
        let a: Vec<i64> = t[1..].iter().map(|x| x.parse::<i64>().expect("int")).collect();
        let ch = CString::new("aeron:ipc").unwrap();
        let r: Result<String, ()> = match t[0] {
            "S" => {
                let now = a[0] as u64;
                set_clock(now);
                let conductor = w.c.conductor.clone();
                let ch2 = ch.clone();
                match catch(move || conductor.lock().map_err(|_| ()).expect("poisoned").add_subscription(ch2, 10, Box::new(on_available), Box::new(on_unavailable))) {
                    Err(()) => Err(()),
                    Ok(Err(e)) => Ok(format!("(Err {})", api_err(&e))),
                    Ok(Ok(id)) => {
                        w.c.send_subscription_ready(id, 5);
                        match w.cycle(now) {
                            Err(()) => Err(()),
                            Ok(()) => {
                                let conductor = w.c.conductor.clone();
                                match catch(move || conductor.lock().map_err(|_| ()).expect("poisoned").find_subscription(id)) {
                                    Err(()) => Err(()),
                                    Ok(Err(e)) => Ok(format!("(Err {})", api_err(&e))),
                                    Ok(Ok(s)) => {
                                        w.subs.push((id, s));
                                        Ok(format!("(Ok ({}))", id))
                                    },
                                }
                            },
                        }
                    },
                }
            },
            "P" => {
                let now = a[0] as u64;
                set_clock(now);
                let conductor = w.c.conductor.clone();
                let ch2 = ch.clone();
                match catch(move || conductor.lock().map_err(|_| ()).expect("poisoned").add_publication(ch2, 10)) {
                    Err(()) => Err(()),
                    Ok(Err(e)) => Ok(format!("(Err {})", api_err(&e))),
                    Ok(Ok(id)) => {
                        let orig = if a[1] < 0 { id } else { a[1] };
                        let name = w.files.names[a[2] as usize].clone();
                        w.c.send_publication_ready(false, id, orig, 200, 10, 1, 2, &name);
                        match w.cycle(now) {
                            Err(()) => Err(()),
                            Ok(()) => {
                                let conductor = w.c.conductor.clone();
                                match catch(move || conductor.lock().map_err(|_| ()).expect("poisoned").find_publication(id)) {
                                    Err(()) => Err(()),
                                    Ok(Err(e)) => Ok(format!("(Err {})", api_err(&e))),
                                    Ok(Ok(p)) => {
                                        w.pubs.push((id, p));
                                        Ok(format!("(Ok ({}))", id))
                                    },
                                }
                            },
                        }
                    },
                }
            },
            "A" => {
                let name = w.files.names[a[3] as usize].clone();
                w.c.send_available_image(a[1], 300, 10, a[2], 3, &name, "src:1");
                w.cycle(a[0] as u64).map(|_| "(Ok (0))".to_string())
            },
            "U" => {
                w.c.send_unavailable_image(a[1], a[2], 10, "aeron:ipc");
                w.cycle(a[0] as u64).map(|_| "(Ok (0))".to_string())
            },
            "T" => w.cycle(a[0] as u64).map(|_| "(Ok (0))".to_string()),
            "E" => {
                w.c.send_error_response(5, 4, "endpoint");
                w.cycle(a[0] as u64).map(|_| "(Ok (0))".to_string())
            },
            "DS" => {
                set_clock(a[0] as u64);
                if let Some(pos) = w.subs.iter().position(|(r, _)| *r == a[1]) {
                    let (_, s) = w.subs.remove(pos);
                    catch(move || drop(s)).map(|_| "(Ok (0))".to_string())
                } else {
                    Ok("(Ok (0))".to_string())
                }
            },
            "DP" => {
                set_clock(a[0] as u64);
                if let Some(pos) = w.pubs.iter().position(|(r, _)| *r == a[1]) {
                    let (_, p) = w.pubs.remove(pos);
                    catch(move || drop(p)).map(|_| "(Ok (0))".to_string())
                } else {
                    Ok("(Ok (0))".to_string())
                }
            },
            "H" => {
                if let Some((_, s)) = w.subs.iter().find(|(r, _)| *r == a[0]) {
                    let g = s.lock().unwrap_or_else(|e| e.into_inner());
                    if a[1] >= 0 {
                        if let Some(i) = g.images().get(a[1] as usize) {
                            w.clones.push(i.clone());
                        }
                    }
                }
                Ok("(Ok (0))".to_string())
            },
            "UH" => {
                if a[0] >= 0 && (a[0] as usize) < w.clones.len() {
                    w.clones.remove(a[0] as usize);
                }
                Ok("(Ok (0))".to_string())
            },
            "X" => {
                set_clock(a[0] as u64);
                let conductor = w.c.conductor.clone();
                catch(move || {
                    conductor.lock().map_err(|_| ()).expect("poisoned").on_close().expect("on_close");
                })
                .map(|_| "(Ok (0))".to_string())
            },
            "ST" => {
                let src = AtomicBuffer::from_aligned(&w.c.scratch);
                for len in [4096, 1024, 256, 64, 16, 8, 1] {
                    let mut guard = 0;
                    while w.c.ring.write(aeron_rs::command::control_protocol_events::AeronCommand::ClientKeepAlive, src, 0, len).is_ok() {
                        guard += 1;
                        assert!(guard < 100_000);
                    }
                }
                Ok("(Ok (0))".to_string())
            },
            "DR" => {
                // one read stops at the end of the buffer (the wrap point) and a pass may consume only a padding record:
                // read until the ring is empty
                let mut guard = 0;
                while w.c.ring.size() > 0 {
                    w.c.ring.read_all(|_t, _b| {});
                    guard += 1;
                    assert!(guard < 1000);
                }
                Ok("(Ok (0))".to_string())
            },
            other => panic!("unknown case kind {}", other),
        };
        match r {
            Ok(res) => out.push(w.snapshot(res)),
            Err(()) => {
                out.push("OPanic".to_string());
                break;
            },
        }
    }
    take_log();
    take_callbacks();
    // tear down outside any conductor call; a poisoned conductor makes the destructors panic: contain that
    let World { c, files, subs, pubs, clones } = w;
    // one handle at a time: with a poisoned conductor every destructor panics, and two panics in one unwinding abort
    for i in clones {
        let _ = catch(move || drop(i));
    }
    for (_, s) in subs {
        let _ = catch(move || drop(s));
    }
    for (_, p) in pubs {
        let _ = catch(move || drop(p));
    }
    let _ = catch(move || drop(c));
    drop(files);
    format!("[{}]", out.join("; "))
}

fn main() {
    vcommon::run_lines(|line| run_case(line));
}
