//! Shared helpers for the verification harness binaries.
//!
//! Protocol: a harness binary reads one case per line on stdin and prints exactly
//! one observation line per case on stdout, written in the same term syntax Coq
//! prints (`Ok 5`, `Panic`, `[1; 2]`, `(1, 2)`), so that one parser on the
//! orchestrator side reads both the implementation's and the model's results.

use std::io::{BufRead, Write};
use std::panic::{catch_unwind, AssertUnwindSafe};

use aeron_rs::utils::errors::AeronError;

pub mod client;
#[cfg(unitedtraders_aeron_rs_verif)]
pub mod sched;

/// Silence the default panic message (panics are observations here, not noise).
pub fn quiet_panics() {
    std::panic::set_hook(Box::new(|_| {}));
}

/// Run `f`, mapping a panic to `Err(())`.
pub fn catch<T>(f: impl FnOnce() -> T) -> Result<T, ()> {
    catch_unwind(AssertUnwindSafe(f)).map_err(|_| ())
}

/// `Ok v` / `Panic` for a plain value.
pub fn fmt_outcome<T: std::fmt::Display>(r: Result<T, ()>) -> String {
    match r {
        Ok(v) => format!("Ok ({})", v),
        Err(()) => "Panic".to_string(),
    }
}

/// Canonical small enum for errors, same constructor names as Base/MachineInt.v `err`.
pub fn err_name(e: &AeronError) -> String {
    use aeron_rs::utils::errors::*;
    match e {
        AeronError::BackPressured => "BackPressured".into(),
        AeronError::NotConnected => "NotConnected".into(),
        AeronError::AdminAction => "AdminAction".into(),
        AeronError::MaxPositionExceeded => "MaxPositionExceeded".into(),
        AeronError::PublicationClosed => "Closed".into(),
        AeronError::UnknownCode(c) => format!("(UnknownCode ({}))", c),
        AeronError::IllegalArgument(IllegalArgumentError::EncodedMessageExceedsMaxMessageLength { .. }) => "TooLong".into(),
        AeronError::IllegalArgument(IllegalArgumentError::EncodedMessageExceedsMaxPayloadLength { .. }) => "TooLong".into(),
        AeronError::IllegalArgument(_) => "IllegalArg".into(),
        AeronError::IllegalState(_) => "IllegalState".into(),
        AeronError::RegistrationException(code, _) => format!("(Registration ({}))", code),
        AeronError::DriverTimeout(DriverInteractionError::NoResponse(_)) => "NoResponse".into(),
        AeronError::DriverTimeout(_) => "DriverInactive".into(),
        AeronError::Generic(GenericError::ClientConductorClosed) => "Closed".into(),
        _ => "OtherErr".into(),
    }
}

/// Outcome of an API call returning `Result<T, AeronError>` that may also panic.
pub fn fmt_result<T: std::fmt::Display>(r: Result<Result<T, AeronError>, ()>) -> String {
    match r {
        Ok(Ok(v)) => format!("Ok ({})", v),
        Ok(Err(e)) => format!("Err {}", err_name(&e)),
        Err(()) => "Panic".to_string(),
    }
}

pub fn fmt_list<T: std::fmt::Display>(xs: &[T]) -> String {
    let mut s = String::from("[");
    for (i, x) in xs.iter().enumerate() {
        if i > 0 {
            s.push_str("; ");
        }
        s.push_str(&x.to_string());
    }
    s.push(']');
    s
}

/// Whitespace separated integer arguments after the command word.
pub fn ints(parts: &[&str]) -> Vec<i64> {
    parts.iter().map(|p| p.parse::<i64>().unwrap_or_else(|_| panic!("bad int {}", p))).collect()
}

/// Drive the line protocol: `f(line)` gives the observation for one case.
pub fn run_lines(mut f: impl FnMut(&str) -> String) {
    quiet_panics();
    let stdin = std::io::stdin();
    let stdout = std::io::stdout();
    let mut out = stdout.lock();
    for line in stdin.lock().lines() {
        let line = line.expect("stdin");
        let line = line.trim();
        if line.is_empty() || line.starts_with('#') {
            continue;
        }
        let obs = f(line);
        writeln!(out, "{}", obs).expect("stdout");
        out.flush().expect("flush");
    }
}

/// Non-zero little-endian 32-bit words of a buffer as `[(offset, value); ...]` (value signed).
pub fn sparse_words(buf: &aeron_rs::concurrent::atomic_buffer::AtomicBuffer) -> String {
    let cap = buf.capacity();
    let mut items: Vec<String> = Vec::new();
    let mut off = 0;
    while off + 4 <= cap {
        let v = buf.get::<i32>(off);
        if v != 0 {
            items.push(format!("({}, {})", off, v));
        }
        off += 4;
    }
    format!("[{}]", items.join("; "))
}

/// Deterministic payload byte `i` of message `k` (same formula as Base/Payload.v).
pub fn payload_byte(k: i64, i: i64) -> u8 {
    ((k * 31 + i * 7 + 1).rem_euclid(251)) as u8
}

pub fn payload(k: i64, len: usize) -> Vec<u8> {
    (0..len).map(|i| payload_byte(k, i as i64)).collect()
}
