//! Deterministic scheduler built on the repository's verification hook (H2).
//!
//! Threads under test run real library code; every `AtomicBuffer` access that touches a
//! *registered shared region* parks the thread before the access happens. A controller hands
//! out single steps according to a schedule (a list of thread ids), so exactly one thread runs
//! between two reported accesses and an interleaving is a replayable list. A thread can be
//! stopped for ever at any step ("crash point"): it is never granted again and is unwound
//! (by a panic raised inside the hook, before the access) when the run ends.
//!
//! The trace of granted accesses (thread, accessor kind, region, offset, length, operands and
//! the value the location held just before the access) is what the correspondence check
//! compares with the model's trace and what the happens-before race detector consumes.

use std::cell::Cell;
use std::panic::{catch_unwind, AssertUnwindSafe};
use std::sync::{Condvar, Mutex};

use aeron_rs::verif_hook::{self, AccessKind};

#[derive(Clone, Debug)]
pub struct Event {
    pub tid: usize,
    pub kind: AccessKind,
    /// index into the registered regions (of the destination for writes / the location for reads)
    pub region: usize,
    pub offset: i64,
    pub len: usize,
    pub val: i64,
    pub val2: i64,
    /// up to 8 bytes the location held immediately before the access (little endian, sign-extended per `len`)
    pub before: i64,
    /// for `CopyFrom`: region / offset of the source when the source is a registered region
    pub src: Option<(usize, i64)>,
}

#[derive(Clone, Copy)]
pub struct Region {
    pub base: usize,
    pub len: usize,
}

struct State {
    regions: Vec<Region>,
    parked: Vec<Option<Event>>,
    finished: Vec<bool>,
    killed: Vec<bool>,
    granted: Option<usize>,
    running: Option<usize>,
    trace: Vec<Event>,
    active: bool,
}

static STATE: Mutex<Option<State>> = Mutex::new(None);
static CV: Condvar = Condvar::new();

thread_local! {
    static TID: Cell<Option<usize>> = const { Cell::new(None) };
}

struct KillSignal;

fn find_region(regions: &[Region], addr: usize) -> Option<(usize, i64)> {
    for (i, r) in regions.iter().enumerate() {
        if addr >= r.base && addr < r.base + r.len {
            return Some((i, (addr - r.base) as i64));
        }
    }
    None
}

fn read_before(addr: usize, len: usize) -> i64 {
    let n = len.min(8);
    let mut out = 0i64;
    unsafe {
        std::ptr::copy_nonoverlapping(addr as *const u8, &mut out as *mut i64 as *mut u8, n);
    }
    match n {
        1 => out as u8 as i64,
        2 => out as u16 as i64,
        4 => out as i32 as i64,
        _ => out,
    }
}

fn callback(kind: AccessKind, addr: usize, len: usize, val: i64, val2: i64) {
    let tid = match TID.with(|t| t.get()) {
        Some(t) => t,
        None => return,
    };
    let mut guard = STATE.lock().unwrap_or_else(|e| e.into_inner());
    let st = match guard.as_mut() {
        Some(s) if s.active => s,
        _ => return,
    };
    let dst = find_region(&st.regions, addr);
    let src = if kind == AccessKind::CopyFrom { find_region(&st.regions, val as usize) } else { None };
    if kind == AccessKind::View || (dst.is_none() && src.is_none()) {
        return; // private memory or no memory access: not a scheduling point
    }
    let (region, offset) = dst.unwrap_or((usize::MAX, addr as i64));
    let ev = Event { tid, kind, region, offset, len, val, val2, before: 0, src };
    park(guard, tid, ev, addr, dst.is_some());
}

fn park(mut guard: std::sync::MutexGuard<'_, Option<State>>, tid: usize, ev: Event, addr: usize, readable: bool) {
    {
        let st = guard.as_mut().unwrap();
        st.parked[tid] = Some(ev);
        if st.running == Some(tid) {
            st.running = None;
        }
    }
    CV.notify_all();
    loop {
        {
            let st = guard.as_mut().unwrap();
            if st.killed[tid] {
                st.parked[tid] = None;
                drop(guard);
                std::panic::panic_any(KillSignal);
            }
            if st.granted == Some(tid) {
                st.granted = None;
                st.running = Some(tid);
                let mut ev = st.parked[tid].take().unwrap();
                if readable {
                    ev.before = read_before(addr, ev.len);
                }
                st.trace.push(ev);
                break;
            }
        }
        guard = CV.wait(guard).unwrap_or_else(|e| e.into_inner());
    }
    drop(guard);
    CV.notify_all();
}

/// What a scheduled run produced.
pub struct RunResult {
    pub trace: Vec<Event>,
    /// per thread: Some(result string) when it ran to completion, None when it was stopped (crash point) or panicked
    pub results: Vec<Option<String>>,
    /// per thread: true when the thread's own code panicked (not the kill signal)
    pub panicked: Vec<bool>,
    /// number of schedule entries actually consumed
    pub steps: usize,
}

/// Run `bodies` (one closure per thread; each returns its observation string) under `schedule`.
/// `schedule[i]` is the thread granted the i-th step; entries naming a finished or stopped thread
/// are skipped. `stop_after[t] = Some(k)` stops thread `t` for ever once it has been granted `k`
/// steps (k = 0: before its first shared access). When the schedule is exhausted the remaining
/// live threads run to completion one after another in thread-id order.
pub fn run(
    regions: Vec<Region>,
    bodies: Vec<Box<dyn FnOnce() -> String + Send>>,
    schedule: &[usize],
    stop_after: &[Option<usize>],
) -> RunResult {
    let n = bodies.len();
    {
        let mut g = STATE.lock().unwrap_or_else(|e| e.into_inner());
        *g = Some(State {
            regions,
            parked: vec![None; n],
            finished: vec![false; n],
            killed: vec![false; n],
            granted: None,
            running: None,
            trace: Vec::new(),
            active: true,
        });
    }
    verif_hook::set_callback(Some(callback));
    let mut handles = Vec::new();
    for (tid, body) in bodies.into_iter().enumerate() {
        handles.push(std::thread::spawn(move || {
            TID.with(|t| t.set(Some(tid)));
            let r = catch_unwind(AssertUnwindSafe(|| {
                // synthetic first park so that nothing runs before the controller says so
                let g = STATE.lock().unwrap_or_else(|e| e.into_inner());
                let ev = Event { tid, kind: AccessKind::View, region: usize::MAX, offset: 0, len: 0, val: 0, val2: 0, before: 0, src: None };
                park(g, tid, ev, 0, false);
                body()
            }));
            TID.with(|t| t.set(None));
            let mut g = STATE.lock().unwrap_or_else(|e| e.into_inner());
            let st = g.as_mut().unwrap();
            st.finished[tid] = true;
            st.parked[tid] = None;
            if st.running == Some(tid) {
                st.running = None;
            }
            drop(g);
            CV.notify_all();
            match r {
                Ok(s) => (Some(s), false),
                Err(e) => (None, !e.is::<KillSignal>()),
            }
        }));
    }

    let mut granted_count = vec![0usize; n];
    let mut stopped = vec![false; n];
    for t in 0..n {
        if stop_after.get(t).copied().flatten() == Some(0) {
            stopped[t] = true;
        }
    }
    // every thread starts with the synthetic park; consume it (not counted as a step)
    let step = |tid: usize| -> bool {
        let mut g = STATE.lock().unwrap_or_else(|e| e.into_inner());
        loop {
            let st = g.as_mut().unwrap();
            if st.finished[tid] {
                return false;
            }
            if st.running.is_none() && st.parked[tid].is_some() {
                break;
            }
            g = CV.wait(g).unwrap_or_else(|e| e.into_inner());
        }
        g.as_mut().unwrap().granted = Some(tid);
        CV.notify_all();
        // wait until the thread has taken the grant and parked again (or finished)
        loop {
            let st = g.as_mut().unwrap();
            if st.granted.is_none() && st.running.is_none() && (st.finished[tid] || st.parked[tid].is_some()) {
                break;
            }
            g = CV.wait(g).unwrap_or_else(|e| e.into_inner());
        }
        true
    };
    for t in 0..n {
        step(t); // releases the synthetic start park; the thread runs to its first shared access
    }
    // the synthetic events are not part of the trace
    {
        let mut g = STATE.lock().unwrap_or_else(|e| e.into_inner());
        g.as_mut().unwrap().trace.clear();
    }
    let mut steps = 0;
    for &t in schedule {
        if t >= n || stopped[t] {
            continue;
        }
        if step(t) {
            granted_count[t] += 1;
            steps += 1;
            if stop_after.get(t).copied().flatten() == Some(granted_count[t]) {
                stopped[t] = true;
            }
        }
    }
    for t in 0..n {
        while !stopped[t] && step(t) {
            granted_count[t] += 1;
            if stop_after.get(t).copied().flatten() == Some(granted_count[t]) {
                stopped[t] = true;
            }
        }
    }
    // unwind the stopped threads
    {
        let mut g = STATE.lock().unwrap_or_else(|e| e.into_inner());
        let st = g.as_mut().unwrap();
        for t in 0..n {
            if stopped[t] && !st.finished[t] {
                st.killed[t] = true;
            }
        }
    }
    CV.notify_all();
    let mut results = Vec::new();
    let mut panicked = Vec::new();
    for h in handles {
        match h.join() {
            Ok((r, p)) => {
                results.push(r);
                panicked.push(p);
            }
            Err(_) => {
                results.push(None);
                panicked.push(true);
            }
        }
    }
    verif_hook::set_callback(None);
    let mut g = STATE.lock().unwrap_or_else(|e| e.into_inner());
    let st = g.take().unwrap();
    RunResult { trace: st.trace, results, panicked, steps }
}

/// Ordering class of an accessor as the hook reports it. The classification of `get_volatile` /
/// `put_ordered` (plain access + fence) as acquire / release follows the property text (DESIGN section 6).
pub fn class_of(kind: AccessKind) -> &'static str {
    match kind {
        AccessKind::Get | AccessKind::GetBytes | AccessKind::RegionRead | AccessKind::ExclRawTail => "PlainR",
        AccessKind::Put | AccessKind::PutBytes | AccessKind::SetMemory | AccessKind::RegionWrite | AccessKind::CopyFrom => "PlainW",
        AccessKind::GetVolatile => "AcqR",
        AccessKind::PutOrdered | AccessKind::AddI64Ordered | AccessKind::ExclPutRawTailOrdered => "RelW",
        AccessKind::PutAtomicI64 => "ScW",
        AccessKind::CompareAndSetI32 | AccessKind::CompareAndSetI64 => "Cas",
        AccessKind::GetAndAddI64 => "Faa",
        AccessKind::View => "None",
    }
}

/// One event in Coq term syntax: `(tid, Kind, region, offset, len, val, val2, before)`.
pub fn fmt_event(e: &Event) -> String {
    // operands that are addresses of private memory are not observations: print the source of a copy as
    // (offset, region) when it is a registered region and as (-1, -1) otherwise
    let (val, val2) = match e.kind {
        AccessKind::CopyFrom => match e.src {
            Some((r, o)) => (o, r as i64),
            None => (-1, -1),
        },
        AccessKind::PutBytes => (0, 0),
        _ => (e.val, e.val2),
    };
    format!(
        "({}, {:?}, {}, {}, {}, {}, {}, {})",
        e.tid,
        e.kind,
        if e.region == usize::MAX { -1 } else { e.region as i64 },
        e.offset,
        e.len,
        val,
        val2,
        e.before
    )
}

pub fn fmt_trace(tr: &[Event]) -> String {
    let items: Vec<String> = tr.iter().map(fmt_event).collect();
    format!("[{}]", items.join("; "))
}
