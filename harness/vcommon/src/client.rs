//! An in-process client: conductor over in-memory ring / broadcast / counters buffers
//! and in-memory log buffers of any term length, as the repository's own unit tests build them.

use std::ffi::CString;
use std::sync::atomic::{AtomicU64, Ordering};
use std::sync::{Arc, Mutex};

use aeron_rs::client_conductor::ClientConductor;
use aeron_rs::concurrent::atomic_buffer::{AlignedBuffer, AtomicBuffer};
use aeron_rs::concurrent::broadcast::broadcast_receiver::BroadcastReceiver;
use aeron_rs::concurrent::broadcast::copy_broadcast_receiver::CopyBroadcastReceiver;
use aeron_rs::concurrent::counters::CountersReader;
use aeron_rs::concurrent::logbuffer::{data_frame_header, log_buffer_descriptor};
use aeron_rs::concurrent::ring_buffer::ManyToOneRingBuffer;
use aeron_rs::driver_proxy::DriverProxy;
use aeron_rs::utils::errors::AeronError;
use aeron_rs::utils::log_buffers::LogBuffers;
use aeron_rs::utils::types::Index;

pub static CLOCK_MS: AtomicU64 = AtomicU64::new(1_000_000);

pub fn test_clock() -> u64 {
    CLOCK_MS.load(Ordering::SeqCst)
}

pub struct TestClient {
    pub conductor: Arc<Mutex<ClientConductor>>,
    pub to_driver: AlignedBuffer,
    pub to_clients: AlignedBuffer,
    pub counter_metadata: AlignedBuffer,
    pub counter_values: AlignedBuffer,
    pub ring: Arc<ManyToOneRingBuffer>,
}

fn on_new_publication_handler(_c: CString, _s: i32, _se: i32, _co: i64) {}
fn on_new_subscription_handler(_c: CString, _s: i32, _co: i64) {}
fn error_handler(_e: AeronError) {}
fn on_counter_handler(_r: &CountersReader, _reg: i64, _id: i32) {}
fn on_close_handler() {}

impl TestClient {
    pub fn new() -> Self {
        let trailer = aeron_rs::concurrent::ring_buffer::TRAILER_LENGTH;
        let to_driver = AlignedBuffer::with_capacity(1024 * 64 + trailer);
        let to_clients = AlignedBuffer::with_capacity(1024 * 64 + aeron_rs::concurrent::broadcast::broadcast_buffer_descriptor::TRAILER_LENGTH);
        let counter_metadata = AlignedBuffer::with_capacity(512 * 64);
        let counter_values = AlignedBuffer::with_capacity(128 * 64);
        let ring = Arc::new(ManyToOneRingBuffer::new(AtomicBuffer::from_aligned(&to_driver)).expect("ring"));
        let receiver = Arc::new(Mutex::new(BroadcastReceiver::new(AtomicBuffer::from_aligned(&to_clients)).expect("bcast")));
        let proxy = Arc::new(DriverProxy::new(ring.clone()));
        let copy_receiver = Arc::new(Mutex::new(CopyBroadcastReceiver::new(receiver)));
        let conductor = ClientConductor::new(
            test_clock,
            proxy,
            copy_receiver,
            AtomicBuffer::from_aligned(&counter_metadata),
            AtomicBuffer::from_aligned(&counter_values),
            Box::new(on_new_publication_handler),
            Box::new(on_new_publication_handler),
            Box::new(on_new_subscription_handler),
            Box::new(error_handler),
            Box::new(on_counter_handler),
            Box::new(on_counter_handler),
            Box::new(on_close_handler),
            10_000,
            5_000,
            10_000,
            false,
        );
        Self { conductor, to_driver, to_clients, counter_metadata, counter_values, ring }
    }

    pub fn counter_values_buffer(&self) -> AtomicBuffer {
        AtomicBuffer::from_aligned(&self.counter_values)
    }
}

impl Default for TestClient {
    fn default() -> Self {
        Self::new()
    }
}

/// In-memory log with three terms of `term_length` bytes plus meta data, initialised the way
/// the media driver hands a log over at term count `n0` with tail offset `off0`.
pub struct TestLog {
    pub mem: AlignedBuffer,
    pub log_buffers: Arc<LogBuffers>,
    pub term_length: Index,
}

impl TestLog {
    pub fn new(term_length: Index, mtu: Index, init_term_id: i32, n0: i32, off0: i32, session_id: i32, stream_id: i32) -> Self {
        let total = term_length as i64 * 3 + log_buffer_descriptor::LOG_META_DATA_LENGTH as i64;
        let mem = AlignedBuffer::with_capacity(total as Index);
        let log_buffers = Arc::new(unsafe { LogBuffers::new(mem.ptr(), total as isize, term_length) });
        let md = log_buffers.atomic_buffer(log_buffer_descriptor::LOG_META_DATA_SECTION_INDEX);
        md.put(*log_buffer_descriptor::LOG_MTU_LENGTH_OFFSET, mtu);
        md.put(*log_buffer_descriptor::LOG_TERM_LENGTH_OFFSET, term_length);
        md.put(*log_buffer_descriptor::LOG_PAGE_SIZE_OFFSET, 4096);
        md.put(*log_buffer_descriptor::LOG_INITIAL_TERM_ID_OFFSET, init_term_id);
        md.put(*log_buffer_descriptor::LOG_DEFAULT_FRAME_HEADER_LENGTH_OFFSET, data_frame_header::LENGTH);
        md.put(*log_buffer_descriptor::LOG_ACTIVE_TERM_COUNT_OFFSET, n0);
        // default frame header
        let hdr = log_buffer_descriptor::default_frame_header(&md);
        hdr.put::<u8>(*data_frame_header::VERSION_FIELD_OFFSET, data_frame_header::CURRENT_VERSION);
        hdr.put::<u16>(*data_frame_header::TYPE_FIELD_OFFSET, data_frame_header::HDR_TYPE_DATA);
        hdr.put::<i32>(*data_frame_header::SESSION_ID_FIELD_OFFSET, session_id);
        hdr.put::<i32>(*data_frame_header::STREAM_ID_FIELD_OFFSET, stream_id);
        // tails: active partition carries init+n0 with offset off0; the two others carry
        // the ids the driver leaves there: (init+n0+1-3) and (init+n0+2-3)
        let active = (n0 as i64).rem_euclid(3) as i32;
        let t = init_term_id.wrapping_add(n0);
        let tail_off = *log_buffer_descriptor::TERM_TAIL_COUNTER_OFFSET;
        md.put::<i64>(tail_off + active * 8, ((t as i64) << 32) | off0 as i64);
        for k in 1..3 {
            let idx = (active + k) % 3;
            let tid = t.wrapping_add(k).wrapping_sub(3);
            md.put::<i64>(tail_off + idx * 8, (tid as i64) << 32);
        }
        Self { mem, log_buffers, term_length }
    }

    pub fn meta(&self) -> AtomicBuffer {
        self.log_buffers.atomic_buffer(log_buffer_descriptor::LOG_META_DATA_SECTION_INDEX)
    }

    pub fn term(&self, i: Index) -> AtomicBuffer {
        self.log_buffers.atomic_buffer(i)
    }

    pub fn raw_tail(&self, i: Index) -> i64 {
        self.meta().get::<i64>(*log_buffer_descriptor::TERM_TAIL_COUNTER_OFFSET + i * 8)
    }

    pub fn active_term_count(&self) -> i32 {
        self.meta().get::<i32>(*log_buffer_descriptor::LOG_ACTIVE_TERM_COUNT_OFFSET)
    }
}
