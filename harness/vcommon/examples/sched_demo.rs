//! Smoke test of the deterministic scheduler: two producers write to one ring under a given schedule.
use aeron_rs::command::control_protocol_events::AeronCommand;
use aeron_rs::concurrent::atomic_buffer::{AlignedBuffer, AtomicBuffer};
use aeron_rs::concurrent::ring_buffer::{ManyToOneRingBuffer, TRAILER_LENGTH};
use std::sync::Arc;
use vcommon::sched::{self, Region};

fn main() {
    vcommon::quiet_panics();
    let sched_arg: Vec<usize> = std::env::args().nth(1).unwrap_or_default().split(',').filter_map(|x| x.parse().ok()).collect();
    let mem = AlignedBuffer::with_capacity(1024 + TRAILER_LENGTH);
    let buf = AtomicBuffer::from_aligned(&mem);
    let ring = Arc::new(ManyToOneRingBuffer::new(buf).unwrap());
    let regions = vec![Region { base: mem.ptr() as usize, len: mem.len() as usize }];
    let mut bodies: Vec<Box<dyn FnOnce() -> String + Send>> = Vec::new();
    for t in 0..2i64 {
        let ring = ring.clone();
        bodies.push(Box::new(move || {
            let src_mem = AlignedBuffer::with_capacity(64);
            let src = AtomicBuffer::from_aligned(&src_mem);
            src.put::<i64>(0, 1000 + t);
            let r = ring.write(AeronCommand::AddPublication, src, 0, 16);
            format!("{:?}", r.is_ok())
        }));
    }
    let res = sched::run(regions, bodies, &sched_arg, &[None, None]);
    println!("results {:?} steps {}", res.results, res.steps);
    for e in &res.trace {
        println!("{}", sched::fmt_event(e));
    }
    println!("{}", vcommon::sparse_words(&buf));
}
