//! C20 harness: a Subscription obtained from the conductor with up to 5 images (each on its own log file,
//! distinct session ids), polled through Subscription::poll with a FragmentAssembler, through
//! Subscription::controlled_poll and Subscription::block_poll, with images added / removed between calls.
//!
//! case line (all integers):
//!   sub <nslots> { <bits> <init> <session> <pos0> <n> <off> <vis> <claim> <nframes> { <typ> <flags> <flen> <k> <dtid> }* }*
//!       <ninit> { <slot> }* <ibl> <nops> { <opcode> <args..> }*
//!   ibl: initial buffer length handed to FragmentAssembler::new (0 = None, the default; negative = Some(0))
//!   opcodes: 1 poll limit                       Subscription::poll(FragmentAssembler handler)
//!            2 cpoll limit salt ntab tab*       Subscription::controlled_poll; the answer to the fragment whose frame starts
//!                                               at term offset o is tab[(o / 32 + salt) mod ntab] (1 Abort 2 Break 3 Commit 4 Continue)
//!            3 block blimit                     Subscription::block_poll
//!            4 grow slot j | 5 add slot | 6 remove slot
//!            7 roll slot vis claim nframes { <typ> <flags> <flen> <k> <dtid> }*
//!                 the publisher continues in the next term: when the slot's subscriber position is the start of term n + 1
//!                 (its term n consumed to the end) the slot's segment becomes (n + 1, offset 0, vis, claim, frames), written
//!                 into the (cleaned) next partition; otherwise nothing happens
//! observation: one entry per op:
//!   (ret, [raw fragments (offset, length, flags, Ok (header.position()), session, payload hash)],
//!    [messages given to the delegate (session, length, hash)], [subscriber position of every slot])
//!   block_poll's blocks are listed as raw fragments (offset, length, -1, Ok (term id), session, 0)
//!
//! case line `bb <initial_length> <nops> { 1 <k> <len> | 2 | 3 <limit> }*` : one BufferBuilder::new(initial_length), then
//!   1 append(len bytes of payload k) | 2 reset | 3 set_limit(limit)
//!   observation: [(Ok (0), limit, capacity, hash of bytes [32, limit)) after new; (result, limit, capacity, hash) per op]
//!   (the capacity is read off the error of set_limit(i32::MAX), which never succeeds)
//! case line `find <capacity> <required>` : BufferBuilder::find_suitable_capacity through the hook of hooks/sub.diff
//!   observation: Ok (c) | Err IllegalState | Panic   (`Skip` when the repository does not carry the hook)
#[path = "../../c05/src/imglog.rs"]
mod imglog;

use std::cell::RefCell;

use aeron_rs::concurrent::atomic_buffer::AtomicBuffer;
use aeron_rs::concurrent::logbuffer::header::Header;
use aeron_rs::concurrent::position::ReadablePosition;
use aeron_rs::fragment_assembler::FragmentAssembler;
use aeron_rs::image::ControlledPollAction;
use aeron_rs::utils::types::Index;
use imglog::*;
use vcommon::{catch, fmt_list};

thread_local! {
    static BLOCKS: RefCell<Vec<String>> = const { RefCell::new(Vec::new()) };
}

fn block_handler(_buf: &AtomicBuffer, offset: Index, length: Index, session_id: i32, term_id: i32) {
    BLOCKS.with(|b| b.borrow_mut().push(format!("({}, {}, -1, Ok ({}), {}, 0)", offset, length, term_id, session_id)));
}

struct Slot {
    bits: i64,
    init: i32,
    session: i32,
    pos0: i64,
    seg: Seg,
    corr: Option<i64>,
    image: Option<aeron_rs::image::Image>,
}

fn raw_obs(buffer: &AtomicBuffer, offset: Index, length: Index, header: &Header) -> String {
    fragment_obs(buffer, offset, length, header)
}

fn case_sub(a: &[i64]) -> String {
    let mut i = 0usize;
    let mut next = || {
        let v = a[i];
        i += 1;
        v
    };
    let nslots = next() as usize;
    let mut slots: Vec<Slot> = Vec::new();
    for _ in 0..nslots {
        let bits = next();
        let init = next() as i32;
        let session = next() as i32;
        let pos0 = next();
        let n = next();
        let off = next();
        let vis = next() as usize;
        let claim = next() != 0;
        let nf = next() as usize;
        let mut frames = Vec::new();
        for _ in 0..nf {
            frames.push(FrameSpec { typ: next(), flags: next(), flen: next(), k: next(), dtid: next() });
        }
        slots.push(Slot { bits, init, session, pos0, seg: Seg { n, off, vis, claim, frames }, corr: None, image: None });
    }
    let mut rig = Rig::new("c20");
    for (si, s) in slots.iter().enumerate() {
        rig.counter(3 + si as i32).set(s.pos0);
    }
    let add = |rig: &mut Rig, slots: &mut Vec<Slot>, si: usize| {
        let s = &mut slots[si];
        if s.corr.is_some() {
            return;
        }
        let tl: i32 = 1 << s.bits;
        let corr = rig.add_image(tl, s.init, s.session, 3 + si as i32, s.pos0);
        let image = rig.image(corr);
        sync_seg(&image, tl, s.init, s.session, &s.seg, 0);
        s.corr = Some(corr);
        s.image = Some(image);
    };
    let ninit = next() as usize;
    for _ in 0..ninit {
        let si = next() as usize;
        add(&mut rig, &mut slots, si);
    }
    let ibl = next();
    let delivered: RefCell<Vec<String>> = RefCell::new(Vec::new());
    let raw: RefCell<Vec<String>> = RefCell::new(Vec::new());
    let mut delegate = |b: &AtomicBuffer, o: Index, l: Index, h: &Header| {
        let sess = catch(|| h.session_id()).map(|v| v as i64).unwrap_or(-1);
        let hash = catch(|| payload_hash(b, o, l)).unwrap_or(-1);
        delivered.borrow_mut().push(format!("({}, {}, {})", sess, l, hash));
    };
    let mut assembler = FragmentAssembler::new(&mut delegate, if ibl == 0 { None } else if ibl < 0 { Some(0) } else { Some(ibl as isize) });
    let mut inner = assembler.handler();
    let mut tap = |b: &AtomicBuffer, o: Index, l: Index, h: &Header| {
        raw.borrow_mut().push(raw_obs(b, o, l, h));
        inner(b, o, l, h);
    };
    let nops = next() as usize;
    let mut out: Vec<String> = Vec::new();
    for _ in 0..nops {
        let opcode = next();
        raw.borrow_mut().clear();
        delivered.borrow_mut().clear();
        BLOCKS.with(|b| b.borrow_mut().clear());
        let ret: String;
        match opcode {
            1 => {
                let limit = next() as i32;
                let sub = rig.sub.clone();
                let r = catch(|| sub.lock().unwrap().poll(&mut tap, limit));
                ret = vcommon::fmt_outcome(r);
            },
            2 => {
                let limit = next() as i32;
                let salt = next();
                let ntab = next() as usize;
                let tab: Vec<i64> = (0..ntab).map(|_| next()).collect();
                let sub = rig.sub.clone();
                let h = |b: &AtomicBuffer, o: Index, l: Index, hd: &Header| {
                    raw.borrow_mut().push(raw_obs(b, o, l, hd));
                    let code = if tab.is_empty() { 4 } else { tab[(((o as i64 - 32) / 32 + salt).rem_euclid(tab.len() as i64)) as usize] };
                    Ok(match code {
                        1 => ControlledPollAction::Abort,
                        2 => ControlledPollAction::Break,
                        3 => ControlledPollAction::Commit,
                        _ => ControlledPollAction::Continue,
                    })
                };
                let r = catch(|| sub.lock().unwrap().controlled_poll(h, limit));
                ret = vcommon::fmt_outcome(r);
            },
            3 => {
                let bl = next() as i32;
                let sub = rig.sub.clone();
                let r = catch(|| sub.lock().unwrap().block_poll(block_handler, bl));
                ret = vcommon::fmt_outcome(r);
                raw.borrow_mut().extend(BLOCKS.with(|b| b.borrow().clone()));
            },
            4 => {
                let si = next() as usize;
                let j = next() as usize;
                let s = &mut slots[si];
                let from = s.seg.vis;
                s.seg.vis = (from + j).min(s.seg.frames.len());
                if let Some(image) = &s.image {
                    sync_seg(image, 1 << s.bits, s.init, s.session, &s.seg, from);
                }
                ret = "Ok (0)".to_string();
            },
            5 => {
                let si = next() as usize;
                add(&mut rig, &mut slots, si);
                ret = "Ok (0)".to_string();
            },
            6 => {
                let si = next() as usize;
                if let Some(corr) = slots[si].corr {
                    rig.remove_image(corr);
                }
                ret = "Ok (0)".to_string();
            },
            7 => {
                let si = next() as usize;
                let vis = next() as usize;
                let claim = next() != 0;
                let nf = next() as usize;
                let mut frames = Vec::new();
                for _ in 0..nf {
                    frames.push(FrameSpec { typ: next(), flags: next(), flen: next(), k: next(), dtid: next() });
                }
                let pos = rig.counter(3 + si as i32).get();
                let s = &mut slots[si];
                if pos == (s.seg.n + 1) << s.bits {
                    s.seg = Seg { n: s.seg.n + 1, off: 0, vis, claim, frames };
                    if let Some(image) = &s.image {
                        let tl: i32 = 1 << s.bits;
                        let part = (s.seg.n.rem_euclid(3)) as Index;
                        image.log_buffers().atomic_buffer(part).set_memory(0, tl, 0);
                        sync_seg(image, tl, s.init, s.session, &s.seg, 0);
                    }
                }
                ret = "Ok (0)".to_string();
            },
            other => panic!("unknown case kind opcode {}", other),
        }
        let positions: Vec<i64> = (0..nslots).map(|si| rig.counter(3 + si as i32).get()).collect();
        out.push(format!("({}, [{}], [{}], {})", ret, raw.borrow().join("; "), delivered.borrow().join("; "), fmt_list(&positions)));
    }
    drop(tap);
    for s in slots.iter_mut() {
        s.image = None;
    }
    format!("[{}]", out.join("; "))
}

fn bb_state(b: &mut aeron_rs::buffer_builder::BufferBuilder, ret: &str) -> String {
    use aeron_rs::utils::errors::{AeronError, IllegalArgumentError};
    let limit = b.limit();
    let cap = match b.set_limit(i32::MAX) {
        Err(AeronError::IllegalArgument(IllegalArgumentError::LimitOutsideRange { capacity, .. })) => capacity as i64,
        _ => -1,
    };
    let hash = if limit > 32 {
        let bytes = unsafe { std::slice::from_raw_parts(b.buffer().offset(32) as *const u8, (limit - 32) as usize) };
        let mut h: i64 = 7;
        for x in bytes {
            h = (h * 31 + *x as i64 + 1) % 1_000_003;
        }
        h
    } else {
        7
    };
    format!("({}, {}, {}, {})", ret, limit, cap, hash)
}

fn case_bb(a: &[i64]) -> String {
    use aeron_rs::buffer_builder::BufferBuilder;
    let initial = a[0] as isize;
    let nops = a[1] as usize;
    let mut b = match catch(|| BufferBuilder::new(initial)) {
        Ok(b) => b,
        Err(()) => return "[(Panic, 0, 0, 0)]".to_string(),
    };
    let header = Header::new(0, 65536);
    let mut out = vec![bb_state(&mut b, "Ok (0)")];
    let mut i = 2usize;
    for _ in 0..nops {
        let ret: String;
        match a[i] {
            1 => {
                let k = a[i + 1];
                let len = a[i + 2];
                i += 3;
                let mut bytes = vcommon::payload(k, len.max(0) as usize);
                if bytes.is_empty() {
                    bytes.push(0);
                }
                let src = AtomicBuffer::wrap_slice(&mut bytes);
                let r = catch(|| b.append(&src, 0, len as Index, &header).map(|_| 0));
                ret = vcommon::fmt_result(r);
            },
            2 => {
                i += 1;
                b.reset();
                ret = "Ok (0)".to_string();
            },
            3 => {
                let l = a[i + 1];
                i += 2;
                let r = catch(|| b.set_limit(l as Index).map(|_| 0));
                ret = vcommon::fmt_result(r);
            },
            other => panic!("unknown case kind bb op {}", other),
        }
        out.push(bb_state(&mut b, &ret));
    }
    format!("[{}]", out.join("; "))
}

#[cfg(verif_bbhook)]
fn case_find(a: &[i64]) -> String {
    let r = catch(|| aeron_rs::buffer_builder::BufferBuilder::find_suitable_capacity_for_verif(a[0] as Index, a[1] as Index));
    vcommon::fmt_result(r)
}

#[cfg(not(verif_bbhook))]
fn case_find(_a: &[i64]) -> String {
    "Skip".to_string()
}

fn main() {
    vcommon::run_lines(|line| {
        let parts: Vec<&str> = line.split_whitespace().collect();
        let a = vcommon::ints(&parts[1..]);
        match parts[0] {
            "sub" => case_sub(&a),
            "bb" => case_bb(&a),
            "find" => case_find(&a),
            other => panic!("unknown case kind {}", other),
        }
    });
}
