// Detects whether the repository under test carries the hook of hooks/sub.diff
// (`BufferBuilder::find_suitable_capacity_for_verif`); without it the `find` cases answer `Skip`.
fn main() {
    println!("cargo:rustc-check-cfg=cfg(verif_bbhook)");
    println!("cargo:rustc-check-cfg=cfg(unitedtraders_aeron_rs_verif)");
    let toml = std::fs::read_to_string("Cargo.toml").unwrap_or_default();
    let path = toml
        .lines()
        .find(|l| l.trim_start().starts_with("aeron-rs"))
        .and_then(|l| l.split('"').nth(1))
        .unwrap_or("/repo")
        .to_string();
    let src = format!("{}/src/buffer_builder.rs", path);
    println!("cargo:rerun-if-changed={}", src);
    println!("cargo:rerun-if-changed=Cargo.toml");
    if std::fs::read_to_string(&src).map(|s| s.contains("fn find_suitable_capacity_for_verif")).unwrap_or(false) {
        println!("cargo:rustc-cfg=verif_bbhook");
    }
}
