//! C13 harness: every DriverProxy method on a fresh ManyToOneRingBuffer.
//!
//! cases (one per line; c0 = value of the ring's correlation counter before the proxy is created, so the
//! client id is c0 and the first id drawn is c0 + 1):
//!   addpub <c0> <excl> <stream> <ck> <cn>        channel = chars(ck, cn)
//!   addsub <c0> <stream> <ck> <cn>
//!   remove <c0> <kind 0 pub|1 sub|2 counter> <registration id>
//!   dest <c0> <kind 0 add|1 remove|2 add rcv|3 remove rcv> <registration id> <ck> <cn>
//!   counter <c0> <type id> <kk> <kn> <lk> <ln>   key = payload(kk, kn), label = chars(lk, ln)
//!   keepalive <c0> | close <c0>
//!   hugeterm <c0> <tn>                           token = tn zero bytes (tn up to 2^33)
//!   terminate <c0> <tk> <tn>                     token = payload(tk, tn)
//! observation:
//!   (result, raw records, records delivered by read, tail, next correlation id)
//!   result = Ok (id) (0 for calls returning no id) | Err e | Panic; a record = (type id, [bytes]);
//!   raw records are parsed here from the ring's memory (length i32 @0, type i32 @4, message @8, 8-byte aligned).
use aeron_rs::concurrent::atomic_buffer::{AlignedBuffer, AtomicBuffer};
use aeron_rs::concurrent::ring_buffer::{self, ManyToOneRingBuffer};
use aeron_rs::driver_proxy::DriverProxy;
use aeron_rs::utils::errors::AeronError;
use std::ffi::CString;
use std::sync::Arc;
use vcommon::{catch, fmt_list, payload};

fn chars(k: i64, n: i64) -> Vec<u8> {
    (0..n).map(|i| (33 + (k * 31 + i * 7).rem_euclid(94)) as u8).collect()
}

/// = Coq cstr: printable ASCII | every byte 1..255 in turn (invalid UTF-8) | ASCII with Latin-1 / stray continuation bytes
fn cstr_bytes(k: i64, n: i64) -> Vec<u8> {
    if k < 1000 {
        chars(k, n)
    } else if k < 2000 {
        (0..n).map(|i| (1 + (k * 31 + i * 7).rem_euclid(255)) as u8).collect()
    } else {
        (0..n).map(|i| if i == n - 1 { 233u8 } else if i == n / 2 && n >= 3 { 128u8 } else { (97 + (k + i).rem_euclid(26)) as u8 }).collect()
    }
}
/// = Coq blob
fn blob(k: i64, n: i64) -> Vec<u8> {
    if k < 1000 {
        payload(k, n as usize)
    } else {
        (0..n).map(|i| (k * 31 + i * 7).rem_euclid(256) as u8).collect()
    }
}

const DATA: i32 = 64 * 1024;

fn fmt_records(rs: &[(i32, Vec<u8>)]) -> String {
    let items: Vec<String> = rs.iter().map(|(t, b)| format!("({}, {})", t, fmt_list(b))).collect();
    format!("[{}]", items.join("; "))
}

fn run(c0: i64, call: impl FnOnce(&DriverProxy) -> Result<i64, AeronError>) -> String {
    let mem = AlignedBuffer::with_capacity(DATA + ring_buffer::TRAILER_LENGTH);
    let buf = AtomicBuffer::from_aligned(&mem);
    buf.put::<i64>(DATA + ring_buffer::CORRELATION_COUNTER_OFFSET, c0);
    let ring = Arc::new(ManyToOneRingBuffer::new(buf).expect("ring"));
    let proxy = DriverProxy::new(ring.clone());
    assert_eq!(proxy.client_id(), c0);
    let res = catch(|| call(&proxy));
    let result = match res {
        Ok(Ok(v)) => format!("Ok ({})", v),
        Ok(Err(e)) => format!("Err {}", vcommon::err_name(&e)),
        Err(()) => "Panic".to_string(),
    };
    // raw walk over the ring's memory
    let tail = buf.get::<i64>(DATA + ring_buffer::TAIL_POSITION_OFFSET);
    let mut raw: Vec<(i32, Vec<u8>)> = Vec::new();
    let mut off: i32 = 0;
    while (off as i64) < tail && off < DATA {
        let len = buf.get::<i32>(off);
        let ty = buf.get::<i32>(off + 4);
        if len <= 8 {
            break;
        }
        let mut body = vec![0u8; (len - 8) as usize];
        for (i, b) in body.iter_mut().enumerate() {
            *b = buf.get::<u8>(off + 8 + i as i32);
        }
        raw.push((ty, body));
        off += (len + 7) / 8 * 8;
    }
    let next = buf.get::<i64>(DATA + ring_buffer::CORRELATION_COUNTER_OFFSET);
    // what the driver side gets through the API
    let mut delivered: Vec<(i32, Vec<u8>)> = Vec::new();
    let rd = catch(|| {
        ring.read(
            |cmd, b| {
                let mut body = vec![0u8; b.capacity() as usize];
                for (i, x) in body.iter_mut().enumerate() {
                    *x = b.get::<u8>(i as i32);
                }
                delivered.push((cmd as i32, body));
            },
            100,
        )
    });
    let delivered_s = if rd.is_ok() { fmt_records(&delivered) } else { "[(0, [])]".to_string() };
    format!("({}, {}, {}, {}, {})", result, fmt_records(&raw), delivered_s, tail, next)
}

fn p(s: &str) -> i64 {
    s.parse::<i64>().unwrap_or_else(|_| panic!("bad int {}", s))
}

fn cstr(b: Vec<u8>) -> CString {
    CString::new(b).expect("no NUL in cstr")
}

/// one request described by the words of a single-call case line without its c0
fn call(px: &DriverProxy, a: &[&str]) -> Result<i64, AeronError> {
    match a[0] {
        "addpub" => {
            let (excl, stream, ch) = (p(a[1]) != 0, p(a[2]) as i32, cstr_bytes(p(a[3]), p(a[4])));
            if excl { px.add_exclusive_publication(cstr(ch), stream) } else { px.add_publication(cstr(ch), stream) }
        },
        "addsub" => px.add_subscription(cstr(cstr_bytes(p(a[2]), p(a[3]))), p(a[1]) as i32),
        "remove" => {
            let (k, reg) = (p(a[1]), p(a[2]));
            match k {
                0 => px.remove_publication(reg),
                1 => px.remove_subscription(reg),
                _ => px.remove_counter(reg),
            }
        },
        "dest" => {
            let (k, reg, ch) = (p(a[1]), p(a[2]), cstr_bytes(p(a[3]), p(a[4])));
            match k {
                0 => px.add_destination(reg, cstr(ch)),
                1 => px.remove_destination(reg, cstr(ch)),
                2 => px.add_rcv_destination(reg, cstr(ch)),
                _ => px.remove_rcv_destination(reg, cstr(ch)),
            }
        },
        "counter" => {
            let (ty, key, label) = (p(a[1]) as i32, blob(p(a[2]), p(a[3])), cstr_bytes(p(a[4]), p(a[5])));
            px.add_counter(ty, &key, cstr(label))
        },
        "keepalive" => px.send_client_keepalive().map(|_| 0),
        "close" => px.client_close(),
        "terminate" => px.terminate_driver(&blob(p(a[1]), p(a[2]))).map(|_| 0),
        // a token of 2^31 .. 2^32 bytes and more: zero-filled, never touched by a proxy that rejects it (the pages stay virtual)
        "hugeterm" => px.terminate_driver(&vec![0u8; p(a[1]) as usize]).map(|_| 0),
        other => panic!("unknown case kind {}", other),
    }
}

/// seq <c0> <data capacity> op ; op ; ...   op = a request (words as above) | drain <limit>
/// -> ([Call (result) | Drained [records] ...], tail, head, next correlation id)
fn run_seq(c0: i64, cap: i32, ops: &str) -> String {
    let mem = AlignedBuffer::with_capacity(cap + ring_buffer::TRAILER_LENGTH);
    let buf = AtomicBuffer::from_aligned(&mem);
    buf.put::<i64>(cap + ring_buffer::CORRELATION_COUNTER_OFFSET, c0);
    let ring = Arc::new(ManyToOneRingBuffer::new(buf).expect("ring"));
    let proxy = DriverProxy::new(ring.clone());
    let mut steps: Vec<String> = Vec::new();
    for op in ops.split(';') {
        let a: Vec<&str> = op.split_whitespace().collect();
        if a.is_empty() {
            continue;
        }
        if a[0] == "drain" {
            let mut delivered: Vec<(i32, Vec<u8>)> = Vec::new();
            let limit = p(a[1]) as i32;
            let rd = catch(|| {
                ring.read(
                    |cmd, b| {
                        let mut body = vec![0u8; b.capacity() as usize];
                        for (i, x) in body.iter_mut().enumerate() {
                            *x = b.get::<u8>(i as i32);
                        }
                        delivered.push((cmd as i32, body));
                    },
                    limit,
                )
            });
            steps.push(if rd.is_ok() { format!("Drained {}", fmt_records(&delivered)) } else { "Drained [(0, [])]".to_string() });
        } else {
            let res = catch(|| call(&proxy, &a));
            steps.push(match res {
                Ok(Ok(v)) => format!("Call (Ok ({}))", v),
                Ok(Err(e)) => format!("Call (Err {})", vcommon::err_name(&e)),
                Err(()) => "Call Panic".to_string(),
            });
        }
    }
    let tail = buf.get::<i64>(cap + ring_buffer::TAIL_POSITION_OFFSET);
    let head = buf.get::<i64>(cap + ring_buffer::HEAD_POSITION_OFFSET);
    let next = buf.get::<i64>(cap + ring_buffer::CORRELATION_COUNTER_OFFSET);
    format!("([{}], {}, {}, {})", steps.join("; "), tail, head, next)
}

fn main() {
    vcommon::run_lines(|line| {
        let a: Vec<&str> = line.split_whitespace().collect();
        let c0 = p(a[1]);
        if a[0] == "seq" {
            let rest = line.splitn(4, char::is_whitespace).nth(3).unwrap_or("");
            return run_seq(c0, p(a[2]) as i32, rest);
        }
        let mut words: Vec<&str> = vec![a[0]];
        words.extend_from_slice(&a[2..]);
        run(c0, |px| call(px, &words))
    });
}
